"""Engine C — term extraction: straight-line numeric Python → sympy terms.

The interpreter walks a function body in source order with an environment
name → term.  `if` statements are resolved through a caller-supplied `decide`
callback (constant propagation on configuration values); undecidable tests
fork the path and the path condition (normalised source text) is recorded.
Anything outside the fragment raises AnalysisError (fail closed)."""
from __future__ import annotations

import ast
from dataclasses import dataclass, field
from fractions import Fraction
from typing import Any, Callable, Dict, List, Optional, Tuple

import sympy as sp

from .core import AnalysisError, norm

I = sp.I

NUMPY_FUNCS: Dict[str, Callable[..., Any]] = {
    "sqrt": sp.sqrt,
    "tanh": sp.tanh,
    "cosh": sp.cosh,
    "sinh": sp.sinh,
    "cos": sp.cos,
    "sin": sp.sin,
    "tan": sp.tan,
    "exp": sp.exp,
    "log": sp.log,
    "log10": lambda x: sp.log(x) / sp.log(10),
    "abs": sp.Abs,
    "absolute": sp.Abs,
    "angle": sp.arg,
    "real": sp.re,
    "imag": sp.im,
    "conj": sp.conjugate,
    "arctan": sp.atan,
    "arctan2": sp.atan2,
    "coth": lambda x: 1 / sp.tanh(x),
}
NAMES = {"pi": sp.pi, "inf": sp.oo, "e": sp.E}


def num(v) -> sp.Expr:
    if isinstance(v, bool):
        raise AnalysisError("boolean in numeric term")
    if isinstance(v, int):
        return sp.Integer(v)
    if isinstance(v, float):
        if v != v or v in (float("inf"), float("-inf")):
            return sp.oo if v > 0 else (-sp.oo if v < 0 else sp.nan)
        return sp.Rational(str(v))
    if isinstance(v, complex):
        return num(v.real) + I * num(v.imag)
    raise AnalysisError(f"unsupported constant {v!r}")


def rationalise(e: sp.Expr) -> sp.Expr:
    """Replace Float atoms by exact Rationals of their decimal text."""
    reps = {f: sp.Rational(str(f)) for f in e.atoms(sp.Float)}
    return e.xreplace(reps) if reps else e


def parse_equation(s: str) -> sp.Expr:
    """The repository's own reading of an equation string: sympify."""
    try:
        return rationalise(sp.sympify(s))
    except Exception as e:  # sympify raises many kinds
        raise AnalysisError(f"equation string does not sympify: {s!r}: {e}")


@dataclass
class Path:
    conds: List[str]
    kind: str  # 'return' | 'raise' | 'fall'
    value: Any = None
    env: Dict[str, Any] = field(default_factory=dict)


class Unsupported(AnalysisError):
    pass


class InlinedRaise(Exception):
    """A repository helper inlined by the interpreter raises on the current path."""

    def __init__(self, name: str):
        super().__init__(name)
        self.name = name


class TermInterp:
    """decide(test_node, env) -> True/False/None.
    call_hook(name, call_node, args, kwargs, env, interp) -> term or NotImplemented.
    attr_hook(base_term, attr) -> term or NotImplemented."""

    def __init__(self, decide=None, call_hook=None, attr_hook=None, name_hook=None, max_paths: int = 64):
        if decide is None:
            self.decide = self._default_decide
        else:
            def both(test, env, _d=decide):
                r = _d(test, env)
                return r if r is not None else self._default_decide(test, env)
            self.decide = both
        self.call_hook = call_hook
        self.attr_hook = attr_hook
        self.name_hook = name_hook
        self.max_paths = max_paths

    def _default_decide(self, test, env):
        try:
            v = self.ev(test, env)
        except Unsupported:
            return None
        return v if isinstance(v, bool) else None

    # -- expressions ---------------------------------------------------------
    def ev(self, node: ast.AST, env: Dict[str, Any]):
        if isinstance(node, ast.Constant):
            if node.value is None or isinstance(node.value, (str, bool)):
                return node.value
            return num(node.value)
        if isinstance(node, ast.Name):
            if node.id in env:
                return env[node.id]
            if self.name_hook is not None:
                r = self.name_hook(node.id)
                if r is not NotImplemented:
                    return r
            if node.id in NAMES:
                return NAMES[node.id]
            raise Unsupported(f"unbound name {node.id!r} at line {node.lineno}")
        if isinstance(node, ast.BinOp):
            a, b = self.ev(node.left, env), self.ev(node.right, env)
            op = node.op
            try:
                if isinstance(op, ast.Add):
                    return a + b
                if isinstance(op, ast.Sub):
                    return a - b
                if isinstance(op, ast.Mult):
                    return a * b
                if isinstance(op, ast.Div):
                    return a / b
                if isinstance(op, ast.Pow):
                    return a ** b
                if isinstance(op, ast.FloorDiv):
                    return sp.floor(a / b)
                if isinstance(op, ast.Mod):
                    return sp.Mod(a, b)
                if isinstance(op, ast.MatMult):
                    return sp.Function("matmul")(a, b)
            except TypeError as e:
                raise Unsupported(f"cannot combine {a!r} and {b!r}: {e}")
            raise Unsupported(f"operator {type(op).__name__}")
        if isinstance(node, ast.UnaryOp):
            v = self.ev(node.operand, env)
            if isinstance(node.op, ast.USub):
                return -v
            if isinstance(node.op, ast.UAdd):
                return v
            if isinstance(node.op, ast.Not):
                if isinstance(v, bool):
                    return not v
            raise Unsupported(f"unary {type(node.op).__name__}")
        if isinstance(node, ast.Call):
            return self.call(node, env)
        if isinstance(node, ast.Attribute):
            base = self.ev(node.value, env)
            if self.attr_hook is not None:
                r = self.attr_hook(base, node.attr)
                if r is not NotImplemented:
                    return r
            if node.attr == "real":
                return sp.re(base)
            if node.attr == "imag":
                return sp.im(base)
            if node.attr == "T":
                return sp.Function("transpose")(base)
            raise Unsupported(f"attribute .{node.attr} at line {node.lineno}")
        if isinstance(node, ast.IfExp):
            d = self.decide(node.test, env)
            if d is None:
                raise Unsupported(f"undecidable conditional expression: {norm(node.test)}")
            return self.ev(node.body if d else node.orelse, env)
        if isinstance(node, ast.BoolOp):
            vals = []
            for v in node.values:
                x = self.ev(v, env)
                if not isinstance(x, bool):
                    raise Unsupported(f"non-boolean operand in {norm(node)}")
                vals.append(x)
            return all(vals) if isinstance(node.op, ast.And) else any(vals)
        if isinstance(node, ast.Compare) and len(node.ops) == 1:
            a, b = self.ev(node.left, env), self.ev(node.comparators[0], env)
            op = node.ops[0]
            if isinstance(op, (ast.Is, ast.IsNot)):
                if a is None or b is None or isinstance(a, (bool, str)) or isinstance(b, (bool, str)):
                    r = a is b
                    return r if isinstance(op, ast.Is) else not r
            if isinstance(op, (ast.Eq, ast.NotEq)) and all(isinstance(x, (str, bool, int)) or x is None for x in (a, b)):
                return (a == b) if isinstance(op, ast.Eq) else (a != b)
            raise Unsupported(f"comparison {norm(node)}")
        if isinstance(node, ast.Tuple):
            return tuple(self.ev(e, env) for e in node.elts)
        if isinstance(node, ast.List):
            return [self.ev(e, env) for e in node.elts]
        if isinstance(node, ast.Subscript):
            base = self.ev(node.value, env)
            if isinstance(base, (tuple, list)) and isinstance(node.slice, ast.Constant):
                return base[node.slice.value]
            if isinstance(base, (tuple, list)):
                def as_int(x):
                    if x is None:
                        return None
                    v = self.ev(x, env)
                    if isinstance(v, int):
                        return v
                    if isinstance(v, sp.Integer):
                        return int(v)
                    raise Unsupported(f"non-constant index {norm(x)}")
                if isinstance(node.slice, ast.Slice):
                    return base[slice(as_int(node.slice.lower), as_int(node.slice.upper), as_int(node.slice.step))]
                return base[as_int(node.slice)]
            if isinstance(base, dict) and isinstance(node.slice, ast.Constant):
                return base[node.slice.value]
            raise Unsupported(f"subscript {norm(node)}")
        if isinstance(node, (ast.ListComp, ast.GeneratorExp)) and len(node.generators) == 1 and not node.generators[0].ifs:
            # a comprehension over a finite sequence of terms: one term per item
            g = node.generators[0]
            seq = self.ev(g.iter, env)
            if isinstance(seq, (tuple, list)):
                out = []
                for item in seq:
                    e2 = dict(env)
                    self._assign(g.target, item, e2)
                    out.append(self.ev(node.elt, e2))
                return out if isinstance(node, ast.ListComp) else tuple(out)
        raise Unsupported(f"expression {type(node).__name__}: {norm(node)[:80]}")

    def call(self, node: ast.Call, env):
        f = node.func
        # method-style helpers that are identity on terms
        if isinstance(f, ast.Attribute) and f.attr in ("astype", "copy", "flatten"):
            return self.ev(f.value, env)
        if isinstance(f, ast.Attribute) and f.attr in ("reshape", "ravel", "squeeze"):
            # point-wise terms: the shape of an array does not change the value of an entry; a one-element stand-in list
            # (the representative of a loop variable's iterable) denotes its element
            v = self.ev(f.value, env)
            return v[0] if isinstance(v, list) and len(v) == 1 else v
        if isinstance(f, ast.Attribute) and f.attr in ("max", "min", "sum", "mean") and not node.args and not node.keywords:
            # x.max() ≡ max(x): evaluated exactly like the function form (same hooks)
            syn = ast.Call(func=ast.Name(id=f.attr, ctx=ast.Load()), args=[f.value], keywords=[])
            ast.copy_location(syn, node)
            ast.fix_missing_locations(syn)
            return self.call(syn, env)
        args = [self.ev(a, env) for a in node.args if not isinstance(a, ast.Starred)]
        if any(isinstance(a, ast.Starred) for a in node.args):
            raise Unsupported("starred call argument")
        kwargs = {}
        for k in node.keywords:
            if k.arg is None:
                raise Unsupported("**kwargs in call")
            kwargs[k.arg] = self.ev(k.value, env)
        name = f.id if isinstance(f, ast.Name) else (f.attr if isinstance(f, ast.Attribute) else None)
        if name is None:
            raise Unsupported(f"call target {norm(f)}")
        if self.call_hook is not None:
            r = self.call_hook(name, node, args, kwargs, env, self)
            if r is not NotImplemented:
                return r
        if isinstance(f, ast.Name) and name in NUMPY_FUNCS and not kwargs:
            return NUMPY_FUNCS[name](*args)
        if isinstance(f, ast.Name) and name in ("complex",) and len(args) == 2:
            return args[0] + I * args[1]
        if isinstance(f, ast.Name) and name in ("float", "ComplexImpedance", "complex128", "float64", "array"):
            return args[0]
        if isinstance(f, ast.Name) and name in ("tuple", "list") and len(args) == 1 and isinstance(args[0], (tuple, list)) and not kwargs:
            return tuple(args[0]) if name == "tuple" else list(args[0])
        raise Unsupported(f"call to {norm(f)} at line {node.lineno}")

    # -- statements ----------------------------------------------------------
    def run(self, body: List[ast.stmt], env: Dict[str, Any], conds: Optional[List[str]] = None) -> List[Path]:
        paths: List[Path] = []
        self._block(list(body), dict(env), list(conds or []), paths)
        if len(paths) > self.max_paths:
            raise Unsupported(f"more than {self.max_paths} paths")
        return paths

    def _block(self, stmts: List[ast.stmt], env, conds, out: List[Path]) -> None:
        """Executes stmts; appends terminated paths; if the block falls through,
        appends a Path(kind='fall') carrying env."""
        i = 0
        while i < len(stmts):
            s = stmts[i]
            rest = stmts[i + 1:]
            if isinstance(s, ast.Expr):
                if isinstance(s.value, ast.Constant):
                    i += 1
                    continue  # docstring
                if isinstance(s.value, ast.Call):
                    try:
                        self.ev(s.value, env)  # evaluated for its hooks; result discarded
                    except InlinedRaise as ir:
                        out.append(Path(list(conds), "raise", ir.name, dict(env)))
                        return
                    i += 1
                    continue
                raise Unsupported(f"expression statement {norm(s)[:60]}")
            if isinstance(s, (ast.AnnAssign, ast.Assign)) and s.value is not None:
                try:
                    v = self.ev(s.value, env)
                except InlinedRaise as ir:  # a helper inlined in the value raises on this path
                    out.append(Path(list(conds), "raise", ir.name, dict(env)))
                    return
                for t in ([s.target] if isinstance(s, ast.AnnAssign) else s.targets):
                    self._assign(t, v, env)
                i += 1
                continue
            if isinstance(s, ast.AnnAssign):
                i += 1
                continue
            if isinstance(s, ast.AugAssign):
                if not isinstance(s.target, ast.Name):
                    raise Unsupported(f"augmented assignment to {norm(s.target)}")
                cur = self.ev(s.target, env)
                v = self.ev(s.value, env)
                fake = ast.BinOp(left=ast.Name(id="__a", ctx=ast.Load()), op=s.op, right=ast.Name(id="__b", ctx=ast.Load()))
                env[s.target.id] = self.ev(fake, {"__a": cur, "__b": v})
                i += 1
                continue
            if isinstance(s, ast.Return):
                out.append(Path(list(conds), "return", self.ev(s.value, env) if s.value is not None else None, dict(env)))
                return
            if isinstance(s, ast.Raise):
                exc = s.exc
                name = norm(exc.func) if isinstance(exc, ast.Call) else (norm(exc) if exc is not None else "reraise")
                out.append(Path(list(conds), "raise", name, dict(env)))
                return
            if isinstance(s, ast.If):
                d = self.decide(s.test, env)
                branches: List[Tuple[List[ast.stmt], List[str]]] = []
                if d is True:
                    branches = [(s.body, conds)]
                elif d is False:
                    branches = [(s.orelse, conds)]
                else:
                    t = norm(s.test)
                    branches = [(s.body, conds + [t]), (s.orelse, conds + [f"not ({t})"])]
                for blk, c in branches:
                    self._block(list(blk) + rest, dict(env), c, out)
                return
            if isinstance(s, ast.For) and isinstance(s.iter, (ast.Tuple, ast.List)) and not s.orelse \
                    and not any(isinstance(x, (ast.Break, ast.Continue)) for b_ in s.body for x in ast.walk(b_)):
                # a loop over a literal sequence is unrolled: target = element; body — for each element in turn
                unrolled: List[ast.stmt] = []
                for elt in s.iter.elts:
                    asg = ast.Assign(targets=[s.target], value=elt)
                    ast.copy_location(asg, s)
                    ast.fix_missing_locations(asg)
                    unrolled.append(asg)
                    unrolled.extend(s.body)
                self._block(unrolled + rest, env, conds, out)
                return
            if isinstance(s, ast.Pass):
                i += 1
                continue
            if isinstance(s, ast.Assert):
                i += 1
                continue
            raise Unsupported(f"statement {type(s).__name__} at line {s.lineno}")
        out.append(Path(list(conds), "fall", None, dict(env)))

    def _assign(self, target, value, env) -> None:
        if isinstance(target, ast.Name):
            env[target.id] = value
        elif isinstance(target, (ast.Tuple, ast.List)):
            if not isinstance(value, (tuple, list)) or len(value) != len(target.elts):
                raise Unsupported(f"unpacking {norm(target)}")
            for t, v in zip(target.elts, value):
                self._assign(t, v, env)
        else:
            raise Unsupported(f"assignment target {norm(target)}")


# ---------------------------------------------------------------------------
# Equality ladder
# ---------------------------------------------------------------------------

def _abstract_generators(e: sp.Expr, table: Dict[sp.Expr, sp.Symbol]) -> sp.Expr:
    """Replace every maximal non-rational sub-term (function application or a
    power with non-integer exponent) by a shared fresh symbol; the inside is
    canonicalised first (recursively abstracted and expanded)."""
    if e.is_Atom:
        return e
    if isinstance(e, (sp.Add, sp.Mul)):
        return e.func(*[_abstract_generators(a, table) for a in e.args])
    if isinstance(e, sp.Pow) and e.exp.is_Integer:
        return sp.Pow(_abstract_generators(e.base, table), e.exp)
    # a generator: canonicalise arguments, then name it
    args = [sp.expand(sp.together(_abstract_generators(a, table))) for a in e.args]
    key = e.func(*args)
    if key not in table:
        table[key] = sp.Symbol(f"g{len(table)}")
    return table[key]


def poly_equal(a: sp.Expr, b: sp.Expr) -> bool:
    table: Dict[sp.Expr, sp.Symbol] = {}
    d = _abstract_generators(a, table) - _abstract_generators(b, table)
    n, _ = sp.fraction(sp.together(d))
    return sp.expand(n) == 0


def random_point(symbols, rng, positive=True, ranges: Optional[Dict[str, Tuple[float, float]]] = None):
    import mpmath as mp
    pt = {}
    for s in sorted(symbols, key=lambda x: x.name):
        lo, hi = (ranges or {}).get(s.name, (1e-3, 1e3))
        if lo > 0 and hi / lo > 50:
            import math
            v = 10 ** rng.uniform(math.log10(lo), math.log10(hi))
        else:
            v = rng.uniform(lo, hi)
        pt[s] = mp.mpf(v)
    return pt


def random_interpretation(a: sp.Expr, b: sp.Expr, rng, k: int = 30, ranges=None, tol: float = 1e-9):
    """Evaluate the two *terms* at k random points (50 digits).  Returns
    (agree: bool, witness or None, evaluated points)."""
    import mpmath as mp
    mp.mp.dps = 50
    syms = sorted((a.free_symbols | b.free_symbols), key=lambda s: s.name)
    fa = sp.lambdify(syms, a, modules="mpmath")
    fb = sp.lambdify(syms, b, modules="mpmath")
    done = 0
    for _ in range(k * 3):
        if done >= k:
            break
        pt = random_point(syms, rng, ranges=ranges)
        vals = [pt[s] for s in syms]
        try:
            va, vb = mp.mpc(fa(*vals)), mp.mpc(fb(*vals))
        except (ZeroDivisionError, OverflowError, ValueError, TypeError):
            continue
        if not (mp.isfinite(va) and mp.isfinite(vb)):
            continue
        done += 1
        scale = max(abs(va), abs(vb), mp.mpf(1e-300))
        if abs(va - vb) / scale > tol:
            return False, {s.name: float(pt[s]) for s in syms} | {"lhs": complex(va), "rhs": complex(vb)}, done
    return True, None, done


def equal_terms(a: sp.Expr, b: sp.Expr, rng, k: int = 30, ranges=None) -> Tuple[str, Optional[dict]]:
    """Bounded ladder.  Returns (verdict, witness) with verdict in
    'structural' | 'polynomial' | 'random-equal' | 'different' | 'unknown'."""
    if a == b:
        return "structural", None
    try:
        if sp.expand(a - b) == 0:
            return "structural", None
    except Exception:
        pass
    try:
        if poly_equal(a, b):
            return "polynomial", None
    except Exception:
        pass
    agree, wit, done = random_interpretation(a, b, rng, k=k, ranges=ranges)
    if not agree:
        return "different", wit
    if done == 0:
        return "unknown", None
    return "random-equal", None
