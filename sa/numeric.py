"""Term extraction for repository functions with callee resolution through
the program model (helpers are inlined; numpy/sympy functions are mapped)."""
from __future__ import annotations

import ast
from typing import Any, Callable, Dict, List, Optional

import sympy as sp

from .core import AnalysisError, norm
from .model import FuncInfo, Model
from .terms import NUMPY_FUNCS, Path, TermInterp, Unsupported, parse_equation

SYMPY_FUNCS = {
    "sqrt": sp.sqrt, "cosh": sp.cosh, "sinh": sp.sinh, "tanh": sp.tanh,
    "coth": lambda x: 1 / sp.tanh(x), "exp": sp.exp, "log": sp.log,
}


def canon(e):
    """coth → 1/tanh; identity on non-sympy values."""
    if isinstance(e, sp.Basic):
        return e.replace(sp.coth, lambda x: 1 / sp.tanh(x))
    return e


class RepoInterp:
    """Interprets a repository function to terms, inlining repo callees."""

    def __init__(self, model: Model, decide=None, extra_call=None, extra_attr=None, depth: int = 4,
                 expr_stmt_ok: Optional[Callable[[ast.Call], bool]] = None):
        self.model = model
        self.decide = decide
        self.extra_call = extra_call
        self.extra_attr = extra_attr
        self.depth = depth
        self.inlined: List[str] = []

    def _interp(self, fi: FuncInfo, level: int) -> TermInterp:
        def call_hook(name, node, args, kwargs, env, interp):
            if self.extra_call is not None:
                r = self.extra_call(fi, name, node, args, kwargs, env)
                if r is not NotImplemented:
                    return r
            f = node.func
            # resolve through the model
            callee = self.model.resolve_call(fi, node)
            if callee is not None and callee in self.model.funcs:
                if level >= self.depth:
                    raise Unsupported(f"inlining depth exceeded at {callee}")
                cf = self.model.funcs[callee]
                self.inlined.append(callee)
                return self.call_function(cf, args, kwargs, level + 1,
                                          bound_self=isinstance(f, ast.Attribute))
            if isinstance(f, ast.Name):
                r = self.model.resolve(fi.module, f.id)
                if r and r[0] == "ext":
                    target = r[1]
                    base = target.split(".")[-1]
                    if target.startswith("numpy") and base in NUMPY_FUNCS and not kwargs:
                        return NUMPY_FUNCS[base](*args)
                    if target.startswith("sympy") and base in SYMPY_FUNCS:
                        return SYMPY_FUNCS[base](*args)
                    if target == "sympy.sympify" and args and isinstance(args[0], str):
                        return parse_equation(args[0])
            return NotImplemented

        def attr_hook(base, attr):
            if self.extra_attr is not None:
                return self.extra_attr(base, attr)
            return NotImplemented

        def name_hook(name):
            r = self.model.resolve(fi.module, name)
            if r and r[0] == "ext":
                if r[1] in ("numpy.pi", "math.pi"):
                    return sp.pi
                if r[1] in ("numpy.inf", "math.inf"):
                    return sp.oo
                if r[1] == "sympy.oo":
                    return sp.oo
                if r[1] == "sympy.pi":
                    return sp.pi
                if r[1] == "sympy.I":
                    return sp.I
            if r is not None:
                return sp.Symbol(f"opaque_{name}")
            return NotImplemented

        return TermInterp(decide=self.decide, call_hook=call_hook, attr_hook=attr_hook, name_hook=name_hook)

    def call_function(self, fi: FuncInfo, args: List[Any], kwargs: Dict[str, Any], level: int = 0,
                      bound_self: bool = False):
        a = fi.node.args
        names = [x.arg for x in a.posonlyargs + a.args]
        env: Dict[str, Any] = {}
        if fi.cls is not None and names and names[0] in ("self", "cls"):
            env[names[0]] = "<self>"
            names = names[1:]
        if len(args) > len(names):
            raise Unsupported(f"too many positional arguments for {fi.qname}")
        for n, v in zip(names, args):
            env[n] = v
        for k, v in kwargs.items():
            if k in env:
                raise Unsupported(f"duplicate argument {k} for {fi.qname}")
            env[k] = v
        defaults = a.defaults
        for n, d in zip(names[len(names) - len(defaults):], defaults):
            if n not in env:
                env[n] = self._interp(fi, level).ev(d, {})
        for kw, d in zip(a.kwonlyargs, a.kw_defaults):
            if kw.arg not in env and d is not None:
                env[kw.arg] = self._interp(fi, level).ev(d, {})
        missing = [n for n in names if n not in env]
        if missing:
            raise Unsupported(f"missing arguments {missing} for {fi.qname}")
        paths = self._interp(fi, level).run(fi.node.body, env)
        rets = [p for p in paths if p.kind == "return"]
        others = [p for p in paths if p.kind != "return"]
        if level > 0:
            if len(rets) == 1 and not others:
                return rets[0].value
            vals = {str(canon(p.value)) for p in rets}
            if len(vals) == 1 and not others:
                return rets[0].value
            # a procedure (no value): it either falls off its end or raises, as decided by the configuration
            falls = [p for p in paths if p.kind == "fall"]
            raises = [p for p in paths if p.kind == "raise"]
            if not rets and len(paths) == 1 and falls:
                return None
            if not rets and len(paths) == 1 and raises:
                from .terms import InlinedRaise
                raise InlinedRaise(str(raises[0].value))
            # several return paths selected by comparisons of the arguments: a case distinction (sympy Piecewise); the
            # caller decides every case separately
            if rets and not others:
                pw = self._piecewise(fi, level, rets)
                if pw is not None:
                    return pw
            raise Unsupported(f"helper {fi.qname} has {len(paths)} paths")
        return paths

    def _piecewise(self, fi: FuncInfo, level: int, rets: List[Path]):
        import sympy as sp
        ti = self._interp(fi, level)
        rel = {ast.Eq: sp.Eq, ast.NotEq: sp.Ne, ast.Lt: sp.Lt, ast.LtE: sp.Le, ast.Gt: sp.Gt, ast.GtE: sp.Ge}

        def cond(node, env):
            if isinstance(node, ast.UnaryOp) and isinstance(node.op, ast.Not):
                return sp.Not(cond(node.operand, env))
            if isinstance(node, ast.BoolOp):
                parts = [cond(v, env) for v in node.values]
                return sp.And(*parts) if isinstance(node.op, ast.And) else sp.Or(*parts)
            if isinstance(node, ast.Compare) and len(node.ops) == 1 and type(node.ops[0]) in rel:
                return rel[type(node.ops[0])](sp.sympify(ti.ev(node.left, env)), sp.sympify(ti.ev(node.comparators[0], env)))
            raise Unsupported(f"branch condition {norm(node)} of helper {fi.qname} is not a comparison")
        args = []
        try:
            for p in rets:
                cs = [cond(ast.parse(c, mode="eval").body, p.env) for c in p.conds]
                args.append((sp.sympify(p.value), sp.And(*cs) if cs else sp.true))
        except (Unsupported, SyntaxError, TypeError):
            return None
        return sp.Piecewise(*args)

    def paths(self, fi: FuncInfo, env_args: Dict[str, Any]) -> List[Path]:
        return self.call_function(fi, [], env_args, 0)
