"""Engine E — finite order domain for the element parameter state machine.

Abstract values are symbols; a *world* is one weak ordering of the symbols
(rank per symbol).  Comparisons are decided by the world, assignments move
symbols between the slots value/lower/upper of one parameter key.  The
transfer functions are READ FROM THE SOURCE of the setters (the body of their
per-key loop), not written by hand."""
from __future__ import annotations

import ast
import itertools
from dataclasses import dataclass
from typing import Callable, Dict, Iterable, List, Optional, Sequence, Tuple

from .core import AnalysisError, norm, walk_ordered

SLOT_ATTR = {
    "_parameter_value": "v",
    "_parameter_lower_limit": "l",
    "_parameter_upper_limit": "u",
    "_parameter_fixed": "fixed",
}

NINF, PINF = "-inf", "+inf"


# ---------------------------------------------------------------------------
# Worlds
# ---------------------------------------------------------------------------

def weak_orderings(symbols: Sequence[str]) -> Iterable[Dict[str, int]]:
    """All ordered set partitions (Fubini numbers: 1,1,3,13,75,541,4683,…)."""
    symbols = list(symbols)
    if not symbols:
        yield {}
        return

    def rec(i: int, ranks: List[int], nblocks: int):
        # insertion construction: place symbol i into an existing block or a new block at any position
        if i == len(symbols):
            yield dict(zip(symbols, ranks))
            return
        for b in range(nblocks):
            yield from rec(i + 1, ranks + [b], nblocks)
        for pos in range(nblocks + 1):
            shifted = [r + 1 if r >= pos else r for r in ranks]
            yield from rec(i + 1, shifted + [pos], nblocks + 1)

    yield from rec(1, [0], 1)


def worlds(symbols: Sequence[str], constraints: Sequence[Tuple[str, str, str]], with_inf: bool = False
           ) -> List[Dict[str, int]]:
    """Worlds over `symbols` satisfying constraints (a, op, b), op in < <=.
    With with_inf, the pseudo-symbols -inf/+inf are added: -inf is either
    strictly below everything or equal to the lowest block (likewise +inf)."""
    out: List[Dict[str, int]] = []
    for w in weak_orderings(symbols):
        variants = [w]
        if with_inf:
            variants = []
            top = max(w.values())
            for lo_eq in (False, True):
                for hi_eq in (False, True):
                    w2 = {k: v + 1 for k, v in w.items()}
                    w2[NINF] = 1 if lo_eq else 0
                    w2[PINF] = top + 1 if hi_eq else top + 2
                    if w2[NINF] < w2[PINF]:
                        variants.append(w2)
        for w2 in variants:
            ok = True
            for a, op, b in constraints:
                if op == "<" and not w2[a] < w2[b]:
                    ok = False
                elif op == "<=" and not w2[a] <= w2[b]:
                    ok = False
                if not ok:
                    break
            if ok:
                out.append(w2)
    return out


# ---------------------------------------------------------------------------
# Compiled setter bodies
# ---------------------------------------------------------------------------

@dataclass
class Outcome:
    ok: bool
    state: Tuple[str, str, str]  # symbols in (v, l, u)
    exc: Optional[str] = None
    stores_before_raise: int = 0


class Setter:
    """The per-key loop body of a setter, compiled to closures over
    (state dict, arg symbol, world)."""

    def __init__(self, fn: ast.FunctionDef, name: str, methods: Optional[Dict[str, ast.FunctionDef]] = None,
                 resolve_function: Optional[Callable[[str], Optional[ast.AST]]] = None):
        self.name = name
        self.fn = fn
        self.methods = methods or {}
        self._inline_depth = 0
        loop = None
        self.lazy_pairs: Optional[ast.AST] = None
        for s in fn.body:
            if isinstance(s, ast.For) and isinstance(s.iter, ast.Call) and isinstance(s.iter.func, ast.Attribute) \
                    and s.iter.func.attr == "items":
                loop = s
            elif isinstance(s, ast.For) and isinstance(s.iter, ast.Call) and isinstance(s.iter.func, ast.Name) \
                    and isinstance(s.target, ast.Tuple) and len(s.target.elts) == 2 and any(
                        isinstance(a, ast.Name) and a.id in ("args", "kwargs") for a in s.iter.args):
                # pairs produced by a helper function: fine if it materialises them, not if it validates lazily
                loop = s
                helper = (resolve_function or (lambda n: None))(s.iter.func.id)
                if helper is not None:
                    ys = [n for n in walk_ordered(helper) if isinstance(n, (ast.Yield, ast.YieldFrom))]
                    if ys:
                        first = min(n.lineno for n in ys)
                        late = [n for n in walk_ordered(helper) if isinstance(n, ast.Raise) and n.lineno > first]
                        if late:
                            self.lazy_pairs = late[0]
        if loop is None:
            raise AnalysisError(f"{name}: per-key loop `for key, value in <pairs>.items()` not found")
        t = loop.target
        if not (isinstance(t, ast.Tuple) and len(t.elts) == 2 and all(isinstance(e, ast.Name) for e in t.elts)):
            raise AnalysisError(f"{name}: loop target is not (key, value)")
        self.key_name, self.val_name = t.elts[0].id, t.elts[1].id
        self.loop = loop
        self.stored_slots = set()
        self.prog = self._compile_block(loop.body)

    # expression compilation → function(env, st, w) -> symbol | bool
    def _slot(self, node: ast.AST) -> Optional[str]:
        if isinstance(node, ast.Subscript) and isinstance(node.value, ast.Attribute) \
                and isinstance(node.value.value, ast.Name) and node.value.value.id == "self" \
                and node.value.attr in SLOT_ATTR and isinstance(node.slice, ast.Name) and node.slice.id == self.key_name:
            return SLOT_ATTR[node.value.attr]
        return None

    def _expr(self, node: ast.AST):
        sl = self._slot(node)
        if sl is not None:
            return lambda env, st, w, sl=sl: st[sl]
        if isinstance(node, ast.Name):
            return lambda env, st, w, n=node.id: env[n]
        if isinstance(node, ast.Call) and isinstance(node.func, ast.Name) and node.func.id == "float" and len(node.args) == 1:
            return self._expr(node.args[0])
        if isinstance(node, ast.Compare) and len(node.ops) == 1:
            op = node.ops[0]
            if isinstance(op, (ast.In, ast.NotIn)) and isinstance(node.left, ast.Name) and node.left.id == self.key_name:
                # key validity: the analysis addresses existing keys only
                return lambda env, st, w, r=isinstance(op, ast.In): r
            a, b = self._expr(node.left), self._expr(node.comparators[0])
            table = {ast.Lt: lambda x, y: x < y, ast.LtE: lambda x, y: x <= y, ast.Gt: lambda x, y: x > y,
                     ast.GtE: lambda x, y: x >= y, ast.Eq: lambda x, y: x == y, ast.NotEq: lambda x, y: x != y}
            if type(op) in table:
                f = table[type(op)]
                return lambda env, st, w, a=a, b=b, f=f: f(w[a(env, st, w)], w[b(env, st, w)])
            if isinstance(op, (ast.In, ast.NotIn)) and isinstance(node.left, ast.Name) and node.left.id == self.key_name:
                # key validity: the analysis addresses existing keys only
                return lambda env, st, w, r=isinstance(op, ast.In): r
        if isinstance(node, ast.UnaryOp) and isinstance(node.op, ast.Not):
            inner = self._expr(node.operand)
            return lambda env, st, w, inner=inner: not inner(env, st, w)
        if isinstance(node, ast.BoolOp):
            parts = [self._expr(v) for v in node.values]
            if isinstance(node.op, ast.And):
                return lambda env, st, w, parts=parts: all(p(env, st, w) for p in parts)
            return lambda env, st, w, parts=parts: any(p(env, st, w) for p in parts)
        if isinstance(node, ast.Call) and isinstance(node.func, ast.Name) and node.func.id in ("min", "max") and len(node.args) == 2 and not node.keywords:
            a, b = self._expr(node.args[0]), self._expr(node.args[1])
            pick_min = node.func.id == "min"

            def mm(env, st, w, a=a, b=b, pick_min=pick_min):
                x, y = a(env, st, w), b(env, st, w)
                if pick_min:
                    return x if w[x] <= w[y] else y
                return x if w[x] >= w[y] else y
            return mm
        if isinstance(node, ast.Call) and isinstance(node.func, ast.Name) and node.func.id in ("_is_boolean",):
            return lambda env, st, w: True  # type checks: the analysis passes well-typed arguments
        raise AnalysisError(f"{self.name}: expression outside the order fragment: {norm(node)} (line {node.lineno})")

    def _compile_block(self, stmts: List[ast.stmt]):
        prog = []
        for s in stmts:
            if isinstance(s, ast.If):
                prog.append(("if", self._expr(s.test), self._compile_block(s.body), self._compile_block(s.orelse)))
            elif isinstance(s, ast.Raise):
                exc = s.exc
                name = norm(exc.func) if isinstance(exc, ast.Call) else norm(exc) if exc else "reraise"
                prog.append(("raise", name))
            elif isinstance(s, (ast.Assign, ast.AnnAssign)):
                tgt = s.targets[0] if isinstance(s, ast.Assign) else s.target
                if isinstance(s, ast.Assign) and len(s.targets) != 1:
                    raise AnalysisError(f"{self.name}: chained assignment at line {s.lineno}")
                if s.value is None:
                    continue
                sl = self._slot(tgt)
                if sl is not None:
                    self.stored_slots.add(sl)
                    if sl == "fixed":
                        prog.append(("store_fixed",))
                    else:
                        prog.append(("store", sl, self._expr(s.value)))
                elif isinstance(tgt, ast.Name):
                    prog.append(("bind", tgt.id, self._expr(s.value)))
                else:
                    raise AnalysisError(f"{self.name}: store to {norm(tgt)} at line {s.lineno} not understood")
            elif isinstance(s, ast.Expr) and isinstance(s.value, ast.Constant):
                continue
            elif isinstance(s, ast.Expr) and isinstance(s.value, ast.Call) and isinstance(s.value.func, ast.Attribute) \
                    and isinstance(s.value.func.value, ast.Name) and s.value.func.value.id == "self" and s.value.func.attr in self.methods:
                # helper method applied to the same key: inline its body
                call = s.value
                h = self.methods[call.func.attr]
                hp = [a.arg for a in h.args.args if a.arg != "self"]
                if self._inline_depth >= 2 or len(hp) != 1 or len(call.args) != 1 or not isinstance(call.args[0], ast.Name) \
                        or call.args[0].id != self.key_name or call.keywords:
                    raise AnalysisError(f"{self.name}: helper call {norm(call)} at line {s.lineno} cannot be inlined")
                saved = self.key_name
                self.key_name = hp[0]
                self._inline_depth += 1
                try:
                    prog.extend(self._compile_block([x for x in h.body if not (isinstance(x, ast.Expr) and isinstance(x.value, ast.Constant))]))
                finally:
                    self.key_name = saved
                    self._inline_depth -= 1
            elif isinstance(s, ast.Pass):
                continue
            else:
                raise AnalysisError(f"{self.name}: statement {type(s).__name__} at line {s.lineno} outside the order fragment")
        return prog

    def apply(self, state: Tuple[str, str, str], arg: str, w: Dict[str, int]) -> Outcome:
        st = {"v": state[0], "l": state[1], "u": state[2]}
        env = {self.val_name: arg, self.key_name: "<key>"}
        stores = [0]

        def run(prog) -> Optional[str]:
            for ins in prog:
                if ins[0] == "if":
                    r = run(ins[2] if ins[1](env, st, w) else ins[3])
                    if r is not None:
                        return r
                elif ins[0] == "raise":
                    return ins[1]
                elif ins[0] == "store":
                    st[ins[1]] = ins[2](env, st, w)
                    stores[0] += 1
                elif ins[0] == "store_fixed":
                    pass
                elif ins[0] == "bind":
                    env[ins[1]] = ins[2](env, st, w)
            return None

        exc = run(self.prog)
        new = (st["v"], st["l"], st["u"])
        if exc is not None:
            return Outcome(False, new, exc, stores[0])
        return Outcome(True, new)


# ---------------------------------------------------------------------------
# Transfer sequences read from source
# ---------------------------------------------------------------------------

@dataclass
class Step:
    method: str  # set_values / set_lower_limits / set_upper_limits / set_fixed / set_label / init
    arg: str  # symbol: v l u v0 l0 u0 -inf +inf, or '' for non-numeric steps
    node: ast.AST


ARG_RECOGNISERS: List[Tuple[str, str]] = [
    # (substring of the normalised argument expression, symbol) — longest first
    ("get_default_lower_limit", "l0"),
    ("get_default_upper_limit", "u0"),
    ("get_default_value", "v0"),
    ("get_lower_limit", "l"),
    ("get_upper_limit", "u"),
    ("get_value", "v"),
    ("_parameter_lower_limit", "l"),
    ("_parameter_upper_limit", "u"),
    ("_parameter_value", "v"),
    ("lower_limits.items()", "l"),
    ("upper_limits.items()", "u"),
    ("lower_limits", "l"),
    ("upper_limits", "u"),
    ("parameters", "v"),
]


def classify_arg(call: ast.Call, who: str, fn: Optional[ast.AST] = None) -> str:
    """Which abstract symbol the (per-key) argument of a setter call denotes."""
    def expand(e: ast.AST) -> str:
        # one-step resolution of a local name bound by a plain assignment in the enclosing function
        if fn is not None and isinstance(e, ast.Name):
            for n in walk_ordered(fn):
                if isinstance(n, (ast.Assign, ast.AnnAssign)) and n.value is not None:
                    t = n.targets[0] if isinstance(n, ast.Assign) else n.target
                    if isinstance(t, ast.Name) and t.id == e.id:
                        return norm(n.value)
        return norm(e)
    parts = [expand(a) for a in call.args] + [expand(k.value) for k in call.keywords]
    text = " ".join(parts)
    # dictionary-valued `**E`: follow local names, comprehensions, dict.fromkeys, dict(), .copy()
    from .prov import dict_arg
    for k in call.keywords:
        if k.arg is None:
            da = dict_arg(k.value, fn)
            if da is not None:
                src, val, _f = da
                if val == "-inf":
                    return NINF
                if val == "inf":
                    return PINF
                if val == "same":
                    for sub, sym in ARG_RECOGNISERS:
                        if sub in src:
                            return sym
    # constant ±inf dictionary comprehension / literal
    for k in call.keywords:
        v = k.value
        if k.arg is None and isinstance(v, ast.DictComp):
            val = v.value
            if isinstance(val, ast.UnaryOp) and isinstance(val.op, ast.USub) and norm(val.operand) in ("inf", "numpy.inf", "float('inf')"):
                return NINF
            if norm(val) in ("inf", "numpy.inf", "float('inf')"):
                return PINF
    for a in call.args:
        if isinstance(a, ast.UnaryOp) and isinstance(a.op, ast.USub) and norm(a.operand) in ("inf", "numpy.inf", "float('inf')"):
            return NINF
        if norm(a) in ("inf", "numpy.inf", "float('inf')"):
            return PINF
    for sub, sym in ARG_RECOGNISERS:
        if sub in text:
            return sym
    raise AnalysisError(f"{who}: cannot classify the argument of {norm(call)[:100]} (line {call.lineno})")


def chain_calls(expr: ast.AST) -> Tuple[ast.AST, List[ast.Call]]:
    """a.m1(..).m2(..) → (a, [m1 call, m2 call])"""
    calls: List[ast.Call] = []
    cur = expr
    while isinstance(cur, ast.Call) and isinstance(cur.func, ast.Attribute):
        calls.append(cur)
        cur = cur.func.value
    calls.reverse()
    return cur, calls


NUMERIC_SETTERS = ("set_values", "set_lower_limits", "set_upper_limits")
