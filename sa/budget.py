"""Progress-budget analysis (C18 R18.1): an abstract interpreter that counts,
for one `with Progress(..., total=T) as prog:` block, the maximum number of
prog.increment() calls on any path — symbolically, as a polynomial in
collection sizes — and compares it with T-1 (Progress.__exit__ adds one).

Domain: unknown scalars are symbols with identity (so that a test on a caller's
value and the same test inside a callee that received it are the same atom);
collections are tracked by their symbolic size only.  Undecidable tests are
atoms; every consistent truth assignment is explored by re-execution
(depth-first over decision sequences).  Repository callees that receive the
progress object are inlined.  Anything outside the fragment raises Unsupported
(the block is then reported as not analysed, with the reason)."""
from __future__ import annotations

import ast
import itertools
from dataclasses import dataclass, field
from typing import Any, Callable, Dict, List, Optional, Tuple

import sympy as sp

from .core import AnalysisError, dotted, norm, walk_ordered
from .elements import fold_const
from .model import FuncInfo, Model


class Unsupported(Exception):
    pass


class Sym:
    _n = itertools.count()

    def __init__(self, label: str):
        self.id = next(Sym._n)
        self.label = label

    def __repr__(self):
        return f"<{self.label}#{self.id}>"


@dataclass
class Sz:
    """A collection known only by its (symbolic) size; `inner` is the size of each of its
    members when they are collections themselves (dict of dicts filled uniformly)."""
    size: Any  # sympy expr
    inner: Any = None
    inner_depth: int = 0
    src: Optional[str] = None  # name of the generator this iterator draws from (imap over a named generator)


class Prog:
    """The progress object of the block under analysis."""


class Other:
    """A different Progress object (nested block): its increments are not ours."""


class _Return(Exception):
    def __init__(self, value):
        self.value = value


class _Abort(Exception):
    """raise statement: the path ends (exceptions are outside the budget question)."""


class _Break(Exception):
    pass


class _Continue(Exception):
    pass


def size_symbol(text: str) -> sp.Symbol:
    return sp.Symbol(f"len({text})", integer=True, nonnegative=True)


class Run:
    """One execution under a fixed prefix of atom decisions."""

    def __init__(self, model: Model, decisions: List[bool], consts: Dict[str, Dict[str, ast.AST]], force: Optional[Dict[str, bool]] = None):
        self.force = force or {}
        self.model = model
        self.decisions = decisions
        self.used = 0
        self.atoms: Dict[Any, bool] = {}
        self.trace: List[Tuple[str, bool]] = []
        self.count: Any = sp.Integer(0)
        self.mult: List[Any] = [sp.Integer(1)]
        self.depth = 0
        self.lemmas: List[str] = []
        self.constraints: List[Any] = []

    # -- atoms ---------------------------------------------------------------
    def decide(self, key: Any, text: str) -> bool:
        if key in self.atoms:
            return self.atoms[key]
        if text in self.force:
            self.atoms[key] = self.force[text]
            self.trace.append((text + " [assumed]", self.force[text]))
            return self.force[text]
        if isinstance(key, tuple) and key and key[0] == "isinstance":
            # a value has one type: str / list / dict / … are mutually exclusive
            for k2, v2 in self.atoms.items():
                if isinstance(k2, tuple) and k2 and k2[0] == "isinstance" and k2[1] == key[1] and k2[2] != key[2] and v2 \
                        and {k2[2], key[2]} <= {"str", "list", "dict", "tuple", "int", "float", "bool"}:
                    self.atoms[key] = False
                    return False
        if self.used < len(self.decisions):
            v = self.decisions[self.used]
        else:
            v = True
            self.decisions.append(True)
        self.used += 1
        self.atoms[key] = v
        self.trace.append((text, v))
        return v

    def add(self, n: Any) -> None:
        m = sp.Integer(1)
        for x in self.mult:
            m = m * x
        self.count = self.count + m * n

    # -- expressions -----------------------------------------------------------
    def ev(self, e: ast.AST, env: Dict[str, Any], fi: FuncInfo) -> Any:
        if isinstance(e, ast.Constant):
            return e.value
        if isinstance(e, ast.Name):
            if e.id in env:
                return env[e.id]
            r = self.model.resolve(fi.module, e.id)
            if r and r[0] == "const":
                mod, nm = r[1].split(":")
                node = self.model.consts[mod][nm]
                if _mutated_global(self.model, mod, nm):
                    return Sz(size_symbol(nm))  # filled at run time: its size is a symbol
                try:
                    v = fold_const(node)
                    if isinstance(v, (list, tuple, dict, set)):
                        return Sz(sp.Integer(len(v)))
                    return v
                except Exception:
                    if isinstance(node, (ast.Dict, ast.List, ast.Tuple, ast.Set)):
                        return Sz(sp.Integer(len(node.keys if isinstance(node, ast.Dict) else node.elts))) if not (isinstance(node, ast.Dict) and not node.keys) else Sz(size_symbol(nm))
                    return Sz(size_symbol(nm)) if nm.isupper() else Sym(nm)
            if e.id in ("True", "False", "None"):
                return {"True": True, "False": False, "None": None}[e.id]
            if e.id in ("inf", "nan"):
                return Sym(e.id)
            return Sym(e.id)
        if isinstance(e, (ast.List, ast.Tuple, ast.Set)):
            if any(isinstance(x, ast.Starred) for x in e.elts):
                return Sz(size_symbol(norm(e)))
            return Sz(sp.Integer(len(e.elts)))
        if isinstance(e, ast.Dict):
            return Sz(sp.Integer(len(e.keys)))
        if isinstance(e, (ast.ListComp, ast.GeneratorExp, ast.SetComp, ast.DictComp)):
            total = sp.Integer(1)
            for g in e.generators:
                total = total * self.size_of(self.ev(g.iter, env, fi), g.iter)
            if any(g.ifs for g in e.generators):
                self.lemmas.append("a filtered comprehension yields at most as many items as its source")
            return Sz(total)
        if isinstance(e, ast.IfExp):
            return self.ev(e.body if self.test(e.test, env, fi) else e.orelse, env, fi)
        if isinstance(e, ast.BinOp):
            a, b = self.ev(e.left, env, fi), self.ev(e.right, env, fi)
            na, nb = self.num(a), self.num(b)
            if isinstance(a, str) or isinstance(b, str):
                na = nb = None
            if na is not None and nb is not None:
                if isinstance(e.op, ast.Add):
                    return na + nb
                if isinstance(e.op, ast.Sub):
                    return na - nb
                if isinstance(e.op, ast.Mult):
                    return na * nb
            if isinstance(a, Sz) and isinstance(b, Sz) and isinstance(e.op, ast.Add):
                return Sz(a.size + b.size)
            return Sym(norm(e)[:30])
        if isinstance(e, ast.UnaryOp):
            v = self.ev(e.operand, env, fi)
            if isinstance(e.op, ast.Not):
                return not self.truth(v, e.operand, env)
            n = self.num(v)
            if n is not None and isinstance(e.op, ast.USub):
                return -n
            return Sym(norm(e)[:30])
        if isinstance(e, (ast.Compare, ast.BoolOp)):
            return self.test(e, env, fi)
        if isinstance(e, ast.Call):
            return self.call(e, env, fi)
        if isinstance(e, ast.Attribute):
            base = self.ev(e.value, env, fi)
            if e.attr == "size" and isinstance(base, Sz):
                return base.size
            if e.attr in ("size",):
                return size_symbol(norm(e.value))
            return Sym(norm(e)[:40])
        if isinstance(e, ast.Subscript):
            base = self.ev(e.value, env, fi)
            if isinstance(e.slice, ast.Slice):
                if isinstance(base, Sz):
                    self.lemmas.append("a slice is at most as long as its source")
                    return Sz(base.size)
            if isinstance(base, Sz) and base.inner is not None:
                return Sz(base.inner)
            return Sym(norm(e)[:40])
        if isinstance(e, ast.JoinedStr):
            return Sym("str")
        if isinstance(e, ast.Lambda):
            return Sym("lambda")
        if isinstance(e, ast.Starred):
            return self.ev(e.value, env, fi)
        raise Unsupported(f"expression {type(e).__name__}: {norm(e)[:50]}")

    def num(self, v: Any):
        if isinstance(v, bool):
            return None
        if isinstance(v, int):
            return sp.Integer(v)
        if isinstance(v, sp.Basic):
            return v
        if isinstance(v, Sym):
            # an unknown scalar used arithmetically: a non-negative integer symbol with the value's identity
            return sp.Symbol(f"{v.label}", integer=True, nonnegative=True)
        return None

    def size_of(self, v: Any, node: ast.AST):
        if isinstance(v, Sz):
            return v.size
        if isinstance(v, str):
            return sp.Integer(len(v))
        return size_symbol(norm(node))

    def truth(self, v: Any, node: ast.AST, env) -> bool:
        if isinstance(v, bool):
            return v
        if v is None:
            return False
        if isinstance(v, (int, str)):
            return bool(v)
        if isinstance(v, sp.Basic):
            if v.is_number:
                return bool(v != 0)
            return self.decide(("nonzero", sp.srepr(v)), f"{v} != 0")
        if isinstance(v, Sz):
            if v.size.is_number:
                return bool(v.size != 0)
            return self.decide(("nonempty", sp.srepr(v.size)), f"{v.size} > 0")
        if isinstance(v, Sym):
            return self.decide(("truthy", v.id), f"bool({v.label})")
        if isinstance(v, (Prog, Other)):
            return True
        return self.decide(("truthy", norm(node)), norm(node))

    def test(self, t: ast.AST, env, fi) -> bool:
        if isinstance(t, ast.BoolOp):
            if isinstance(t.op, ast.And):
                for v in t.values:
                    if not self.test(v, env, fi):
                        return False
                return True
            for v in t.values:
                if self.test(v, env, fi):
                    return True
            return False
        if isinstance(t, ast.UnaryOp) and isinstance(t.op, ast.Not):
            return not self.test(t.operand, env, fi)
        if isinstance(t, ast.Compare) and len(t.ops) == 1:
            a, b = self.ev(t.left, env, fi), self.ev(t.comparators[0], env, fi)
            op = t.ops[0]
            if isinstance(op, (ast.Is, ast.IsNot)):
                if isinstance(a, (Prog, Other)) or isinstance(b, (Prog, Other)):
                    r = (a is b) if not (a is None or b is None) else False
                    return r if isinstance(op, ast.Is) else not r
                if b is None or a is None:
                    x = a if b is None else b
                    if x is None:
                        r = True
                    elif isinstance(x, Sym):
                        r = self.decide(("isnone", x.id), f"{x.label} is None")
                    else:
                        r = False
                    return r if isinstance(op, ast.Is) else not r
            if isinstance(op, (ast.Eq, ast.NotEq)):
                if isinstance(a, Sym) and isinstance(b, (str, int, bool)) or isinstance(b, Sym) and isinstance(a, (str, int, bool)):
                    s, c = (a, b) if isinstance(a, Sym) else (b, a)
                    r = self.decide(("eq", s.id, c), f"{s.label} == {c!r}")
                    return r if isinstance(op, ast.Eq) else not r
                if isinstance(a, (str, int, bool)) and isinstance(b, (str, int, bool)):
                    r = a == b
                    return r if isinstance(op, ast.Eq) else not r
            na, nb = self.num(a), self.num(b)
            if na is not None and nb is not None:
                d = sp.simplify(na - nb)
                if d.is_number:
                    table = {ast.Lt: d < 0, ast.LtE: d <= 0, ast.Gt: d > 0, ast.GtE: d >= 0, ast.Eq: d == 0, ast.NotEq: d != 0}
                    if type(op) in table:
                        return bool(table[type(op)])
            if isinstance(op, (ast.In, ast.NotIn)):
                key = ("in", self._ident(a), self._ident(b))
                r = self.decide(key, norm(t))
                return r if isinstance(op, ast.In) else not r
            return self.decide(("cmp", type(op).__name__, self._ident(a), self._ident(b)), norm(t))
        if isinstance(t, ast.Compare):
            vals = [self._ident(self.ev(x, env, fi)) for x in [t.left] + list(t.comparators)]
            return self.decide(("chain", tuple(type(o).__name__ for o in t.ops), tuple(vals)), norm(t))
        v = self.ev(t, env, fi)
        return self.truth(v, t, env)

    def _ident(self, v: Any):
        if isinstance(v, Sym):
            return ("sym", v.id)
        if isinstance(v, Sz):
            return ("sz", sp.srepr(v.size))
        if isinstance(v, sp.Basic):
            return ("num", sp.srepr(v))
        return ("const", repr(v))

    # -- calls -------------------------------------------------------------------------
    def call(self, c: ast.Call, env, fi) -> Any:
        f = c.func
        name = dotted(f)
        # the progress object
        if isinstance(f, ast.Attribute):
            recv = self.ev(f.value, env, fi) if isinstance(f.value, ast.Name) else None
            if isinstance(recv, Prog):
                if f.attr == "increment":
                    step = sp.Integer(1)
                    if c.args:
                        s = self.num(self.ev(c.args[0], env, fi))
                        if s is None:
                            raise Unsupported("increment() with a non-numeric step")
                        step = s
                    self.add(step)
                    return None
                if f.attr in ("set_message", "get", "get_total"):
                    if f.attr == "set_message" and any(k.arg in ("i", "total") for k in c.keywords) or len(c.args) > 1:
                        raise Unsupported("set_message() that changes i/total")
                    return None
                raise Unsupported(f"progress method {f.attr}")
            if isinstance(recv, Other):
                return None
        args = [self.ev(a, env, fi) for a in c.args]
        kwargs = {k.arg: self.ev(k.value, env, fi) for k in c.keywords if k.arg is not None}
        star_kw = [self.ev(k.value, env, fi) for k in c.keywords if k.arg is None]
        # size-preserving builtins
        if isinstance(f, ast.Name):
            if f.id == "len" and args:
                return self.size_of(args[0], c.args[0])
            if f.id in ("list", "tuple", "sorted", "reversed", "iter", "enumerate", "set", "array", "asarray") and args:
                if isinstance(args[0], Sz):
                    return Sz(args[0].size)
                return Sz(self.size_of(args[0], c.args[0]))
            if f.id in ("list", "dict", "set", "tuple") and not args:
                return Sz(sp.Integer(0))
            if f.id == "dict":
                return Sz(sp.Integer(len(kwargs))) if not star_kw else Sym("dict")
            if f.id == "range":
                ns = [self.num(a) for a in args]
                if any(n is None for n in ns):
                    return Sz(size_symbol(norm(c)))
                if len(ns) == 1:
                    return Sz(ns[0])
                if len(ns) == 2:
                    d_ = sp.expand(ns[1] - ns[0])
                    if not d_.is_number:
                        self.constraints.append(d_)  # len(range(a, b)) = b - a presupposes b >= a
                    return Sz(d_)
                return Sz(size_symbol(norm(c)))
            if f.id == "zip" and args:
                return Sz(self.size_of(args[0], c.args[0]))
            if f.id == "product" and args and not kwargs:
                # itertools.product: the size is the product of the sizes of the factors
                sz = sp.Integer(1)
                for a_, n_ in zip(args, c.args):
                    sz = sz * self.size_of(a_, n_)
                return Sz(sp.expand(sz))
            if f.id in ("map", "_map", "filter") and len(args) >= 2:
                self.lemmas.append("map/imap yield exactly one result per source item")
                self._worker_uses_prog(c.args[0], fi)
                return Sz(self.size_of(args[1], c.args[1]))
            if f.id in ("abs", "max", "min", "int", "float", "str", "bool", "isinstance", "hasattr", "round", "sum", "any", "all", "log", "sqrt", "type"):
                if f.id == "abs" and args and self.num(args[0]) is not None:
                    n = self.num(args[0])
                    return n if n.is_nonnegative else Sym("abs")
                if f.id in ("isinstance",) and args and isinstance(args[0], Sym):
                    return self.decide(("isinstance", args[0].id, norm(c.args[1])), norm(c))
                return Sym(f.id)
        if isinstance(f, ast.Attribute):
            if f.attr in ("items", "keys", "values", "copy", "tolist", "flatten") and not args:
                base = self.ev(f.value, env, fi)
                return Sz(self.size_of(base, f.value))
            if f.attr in ("imap", "imap_unordered", "map") and len(args) >= 2:
                self.lemmas.append("map/imap yield exactly one result per source item")
                self._worker_uses_prog(c.args[0], fi)
                return Sz(self.size_of(args[1], c.args[1]), src=c.args[1].id if isinstance(c.args[1], ast.Name) else None)
            if f.attr in ("append", "add") and isinstance(f.value, ast.Name) and isinstance(env.get(f.value.id), Sz):
                m = sp.Integer(1)
                for x in self.mult[self._loop_base(env, f.value.id):]:
                    m = m * x
                env[f.value.id] = Sz(env[f.value.id].size + m)
                return None
            if f.attr == "extend" and isinstance(f.value, ast.Name) and isinstance(env.get(f.value.id), Sz) and args:
                env[f.value.id] = Sz(env[f.value.id].size + self.size_of(args[0], c.args[0]))
                return None
            if f.attr in ("pop", "remove", "sort", "reverse", "clear", "update", "get", "startswith", "endswith", "lower", "upper", "join", "format", "split"):
                if f.attr == "get" and isinstance(f.value, ast.Name) and isinstance(env.get(f.value.id), dict):
                    d = env[f.value.id]
                    k = args[0] if args else None
                    if isinstance(k, str) and k in d:
                        return d[k]
                    return args[1] if len(args) > 1 else None
                return Sym(f.attr)
        # repository callee
        callee = self.model.resolve_call(fi, c)
        if callee in self.model.funcs:
            cf = self.model.funcs[callee]
            passes_prog = any(isinstance(a, Prog) for a in args) or any(isinstance(v, Prog) for v in kwargs.values()) or \
                any(isinstance(d, dict) and any(isinstance(v, Prog) or (isinstance(v, dict) and any(isinstance(w, Prog) for w in v.values())) for v in d.values()) for d in star_kw) or \
                any(isinstance(v, dict) and any(isinstance(w, Prog) for w in v.values()) for v in list(kwargs.values()) + args)
            if passes_prog:
                return self.inline(cf, args, kwargs, star_kw, c)
            if _opens_progress(cf.node):
                return Sym(name)  # a nested Progress block of its own: analysed separately
            return self._summary_value(cf, args, kwargs, c)
        return Sym(name[:30] or "call")

    def _loop_base(self, env, name) -> int:
        return env.get("__depth__" + name, 0)

    def _worker_uses_prog(self, wnode: ast.AST, fi) -> None:
        if isinstance(wnode, ast.Name):
            r = self.model.resolve(fi.module, wnode.id)
            if r and r[0] == "func" and r[1] in self.model.funcs:
                src = norm(self.model.funcs[r[1]].node)
                if "prog.increment" in src or "prog=" in src:
                    raise Unsupported(f"worker {wnode.id} takes part in progress accounting")

    def _summary_value(self, cf: FuncInfo, args, kwargs, c: ast.Call) -> Any:
        """Value of a callee that does not touch the progress object: only the size of what it returns matters."""
        return Sym(dotted(c.func)[:30])

    def inline(self, cf: FuncInfo, args, kwargs, star_kw, c: ast.Call) -> Any:
        if self.depth >= 5:
            raise Unsupported("inlining depth exceeded")
        a = cf.node.args
        names = [x.arg for x in a.posonlyargs + a.args]
        if cf.cls and names and names[0] in ("self", "cls"):
            names = names[1:]
        env: Dict[str, Any] = {}
        for n, v in zip(names, args):
            env[n] = v
        merged = dict(kwargs)
        for d in star_kw:
            if isinstance(d, dict):
                for k, v in d.items():
                    merged.setdefault(k, v)
            else:
                raise Unsupported("** of an unknown mapping into a callee that receives prog")
        for k, v in merged.items():
            env[k] = v
        defaults = dict(zip(names[len(names) - len(a.defaults):], a.defaults))
        for kw_, d in zip(a.kwonlyargs, a.kw_defaults):
            if d is not None:
                defaults[kw_.arg] = d
        for n in names + [k.arg for k in a.kwonlyargs]:
            if n not in env:
                if n in defaults:
                    env[n] = self.ev(defaults[n], {}, cf)
                else:
                    env[n] = Sym(n)
        if a.kwarg is not None:
            env[a.kwarg.arg] = {k: v for k, v in merged.items() if k not in names}
        self.depth += 1
        try:
            self.block(cf.node.body, env, cf)
            return None
        except _Return as r:
            return r.value
        finally:
            self.depth -= 1

    # -- statements -------------------------------------------------------------------------
    def block(self, stmts: List[ast.stmt], env, fi) -> None:
        for s in stmts:
            self.stmt(s, env, fi)

    def assign(self, target: ast.AST, value: Any, env) -> None:
        if isinstance(target, ast.Name):
            env[target.id] = value
            env["__depth__" + target.id] = len(self.mult)
        elif isinstance(target, (ast.Tuple, ast.List)):
            if isinstance(value, tuple) and len(value) == len(target.elts):
                for t, v in zip(target.elts, value):
                    self.assign(t, v, env)
            else:
                for t in target.elts:
                    self.assign(t, Sym(norm(t)), env)
        elif isinstance(target, ast.Subscript) and isinstance(target.value, ast.Subscript) and isinstance(target.value.value, ast.Name) \
                and isinstance(env.get(target.value.value.id), Sz):
            outer = env[target.value.value.id]
            if outer.inner is not None:
                m = sp.Integer(1)
                for x in self.mult[outer.inner_depth:]:
                    m = m * x
                outer.inner = outer.inner + m
        elif isinstance(target, ast.Subscript) and isinstance(target.value, ast.Name):
            cur = env.get(target.value.id)
            if isinstance(cur, Sz) and isinstance(value, Sz):
                # X[key] = <collection>: members are collections (assumed uniform)
                m = sp.Integer(1)
                for x in self.mult[self._loop_base(env, target.value.id):]:
                    m = m * x
                env[target.value.id] = Sz(cur.size + m, inner=value.size, inner_depth=len(self.mult))
                self.lemmas.append("members stored under loop-variable keys are filled uniformly (same inner loop for each)")
                return
            if isinstance(cur, Sz):
                m = sp.Integer(1)
                for x in self.mult[self._loop_base(env, target.value.id):]:
                    m = m * x
                env[target.value.id] = Sz(cur.size + m)
                self.lemmas.append("a store under a loop-variable key adds at most one entry per iteration")
            elif isinstance(cur, dict) and isinstance(target.slice, ast.Constant):
                cur[target.slice.value] = value
        elif isinstance(target, ast.Subscript):
            pass
        elif isinstance(target, ast.Attribute):
            pass

    def stmt(self, s: ast.stmt, env, fi) -> None:
        if isinstance(s, ast.Expr):
            if isinstance(s.value, ast.Constant):
                return
            self.ev(s.value, env, fi)
            return
        if isinstance(s, ast.Assign):
            v = self._rhs(s.value, env, fi)
            for t in s.targets:
                self.assign(t, v, env)
            return
        if isinstance(s, ast.AnnAssign):
            if s.value is not None:
                self.assign(s.target, self._rhs(s.value, env, fi), env)
            return
        if isinstance(s, ast.AugAssign):
            if isinstance(s.target, ast.Name):
                cur = env.get(s.target.id, Sym(s.target.id))
                v = self.ev(s.value, env, fi)
                nc, nv = self.num(cur), self.num(v)
                if nc is not None and nv is not None and isinstance(s.op, (ast.Add, ast.Sub, ast.Mult)):
                    if len(self.mult) > env.get("__depth__" + s.target.id, 0) and not isinstance(s.op, ast.Mult):
                        m = sp.Integer(1)
                        for x in self.mult[env.get("__depth__" + s.target.id, 0):]:
                            m = m * x
                        nv = nv * m
                    env[s.target.id] = nc + nv if isinstance(s.op, ast.Add) else (nc - nv if isinstance(s.op, ast.Sub) else nc * nv)
                else:
                    env[s.target.id] = Sym(s.target.id)
            return
        if isinstance(s, ast.If):
            if self.test(s.test, env, fi):
                self.block(s.body, env, fi)
            else:
                self.block(s.orelse, env, fi)
            return
        if isinstance(s, (ast.For, ast.AsyncFor)):
            it = self.ev(s.iter, env, fi)
            trips = self.size_of(it, s.iter)
            self.assign(s.target, Sym(norm(s.target)), env) if not isinstance(s.target, ast.Name) else env.__setitem__(s.target.id, Sym(s.target.id))
            if isinstance(s.target, (ast.Tuple, ast.List)):
                for t in s.target.elts:
                    if isinstance(t, ast.Name):
                        env[t.id] = Sym(t.id)
            self.mult.append(trips)
            try:
                self.block(s.body, env, fi)
            except (_Break, _Continue):
                pass
            finally:
                self.mult.pop()
            self.block(s.orelse, env, fi)
            return
        if isinstance(s, ast.While):
            src = norm(s)
            if "prog.increment" not in src and not _calls_with_prog(s):
                # no accounting inside: only its effect on sizes is lost (treated as unknown)
                for n in walk_ordered(s):
                    if isinstance(n, (ast.Assign, ast.AugAssign)):
                        for t in (n.targets if isinstance(n, ast.Assign) else [n.target]):
                            if isinstance(t, ast.Name) and isinstance(env.get(t.id), Sz):
                                env[t.id] = Sz(size_symbol(t.id))
                return
            # iterator.next() loop over a sized iterator
            nxt = [c for c in walk_ordered(s) if isinstance(c, ast.Call) and isinstance(c.func, ast.Attribute) and c.func.attr == "next"]
            if norm(s.test) == "True" and nxt and isinstance(nxt[0].func.value, ast.Name) and isinstance(env.get(nxt[0].func.value.id), Sz):
                it = env[nxt[0].func.value.id]
                trips = it.size
                self.lemmas.append("an iterator obtained from imap yields one result per source item before StopIteration")
                before = self.count
                self.mult.append(trips)
                try:
                    self.block(s.body, env, fi)
                except (_Break, _Continue):
                    pass
                finally:
                    self.mult.pop()
                if it.src:
                    outer = sp.Integer(1)
                    for x in self.mult:
                        outer = outer * x
                    per = sp.simplify((self.count - before) / (outer * trips)) if trips != 0 else sp.Integer(0)
                    env["__peritem__" + it.src] = per
                return
            # draining the rest of a generator that an earlier imap loop consumed lazily: both loops together see each item once
            drain = [c for c in walk_ordered(s) if isinstance(c, ast.Call) and isinstance(c.func, ast.Name) and c.func.id == "next" and c.args
                     and isinstance(c.args[0], ast.Name) and ("__peritem__" + c.args[0].id) in env]
            if norm(s.test) == "True" and drain:
                g = drain[0].args[0].id
                size = self.size_of(env.get(g), drain[0].args[0])
                c1 = env["__peritem__" + g]
                before = self.count
                self.mult.append(sp.Integer(1))
                try:
                    self.block(s.body, env, fi)
                except (_Break, _Continue):
                    pass
                finally:
                    self.mult.pop()
                outer = sp.Integer(1)
                for x in self.mult:
                    outer = outer * x
                c2 = sp.simplify((self.count - before) / outer)
                extra = sp.simplify(c2 - c1)
                if not extra.is_number:
                    raise Unsupported("drain loop with a symbolic per-item count")
                self.count = before + (outer * size * extra if extra > 0 else 0)
                self.lemmas.append("a generator consumed lazily by imap and then drained with next() yields each item to exactly one of the two loops")
                return
            raise Unsupported(f"while loop with progress accounting at line {s.lineno}")
        if isinstance(s, (ast.With, ast.AsyncWith)):
            for it in s.items:
                v = self.ev(it.context_expr, env, fi) if not (isinstance(it.context_expr, ast.Call) and dotted(it.context_expr.func) == "Progress") else Other()
                if it.optional_vars is not None:
                    self.assign(it.optional_vars, v, env)
            self.block(s.body, env, fi)
            return
        if isinstance(s, ast.Try):
            try:
                self.block(s.body, env, fi)
            except _Abort:
                # some handler may catch: explore the first handler as the alternative continuation
                if s.handlers:
                    self.block(s.handlers[0].body, env, fi)
                else:
                    raise
            self.block(s.orelse, env, fi)
            self.block(s.finalbody, env, fi)
            return
        if isinstance(s, ast.Return):
            v = None
            if s.value is not None:
                if isinstance(s.value, ast.Tuple):
                    v = tuple(self.ev(x, env, fi) for x in s.value.elts)
                else:
                    v = self.ev(s.value, env, fi)
            raise _Return(v)
        if isinstance(s, ast.Raise):
            raise _Abort()
        if isinstance(s, ast.Break):
            raise _Break()
        if isinstance(s, ast.Continue):
            raise _Continue()
        if isinstance(s, (ast.Pass, ast.Import, ast.ImportFrom, ast.Global, ast.Nonlocal, ast.Assert, ast.Delete)):
            return
        if isinstance(s, (ast.FunctionDef, ast.ClassDef)):
            env[s.name] = Sym(s.name)
            return
        raise Unsupported(f"statement {type(s).__name__} at line {s.lineno}")

    def _rhs(self, e: ast.AST, env, fi) -> Any:
        if isinstance(e, ast.Call) and isinstance(e.func, ast.Name) and e.func.id == "dict" and not e.args:
            # keep keyword dictionaries concrete: they are ** -expanded into callees
            d = {}
            for k in e.keywords:
                if k.arg is None:
                    v = self.ev(k.value, env, fi)
                    if isinstance(v, dict):
                        d.update(v)
                    else:
                        return Sym("dict")
                else:
                    d[k.arg] = self.ev(k.value, env, fi)
            return d
        if isinstance(e, ast.Tuple):
            return tuple(self.ev(x, env, fi) for x in e.elts)
        return self.ev(e, env, fi)


_MUT_CACHE: Dict[Tuple[str, str], bool] = {}


def _mutated_global(model: Model, mod: str, name: str) -> bool:
    k = (mod, name)
    if k not in _MUT_CACHE:
        hit = False
        for n in walk_ordered(model.repo.modules[mod].tree, into_functions=True):
            if isinstance(n, ast.Assign) and any(isinstance(t, ast.Subscript) and isinstance(t.value, ast.Name) and t.value.id == name for t in n.targets):
                hit = True
            if isinstance(n, ast.Call) and isinstance(n.func, ast.Attribute) and isinstance(n.func.value, ast.Name) and n.func.value.id == name \
                    and n.func.attr in ("update", "append", "extend", "add", "setdefault", "insert", "clear", "pop"):
                hit = True
        _MUT_CACHE[k] = hit
    return _MUT_CACHE[k]


def _opens_progress(fn: ast.AST) -> bool:
    return any(isinstance(n, ast.With) and any(isinstance(i.context_expr, ast.Call) and dotted(i.context_expr.func) == "Progress" for i in n.items)
               for n in walk_ordered(fn))


def _calls_with_prog(node: ast.AST) -> bool:
    for c in walk_ordered(node):
        if isinstance(c, ast.Call):
            if any(isinstance(a, ast.Name) and a.id == "prog" for a in c.args) or any(isinstance(k.value, ast.Name) and k.value.id == "prog" for k in c.keywords):
                return True
            if any(k.arg is None and "kwargs" in norm(k.value) for k in c.keywords):
                return True
    return False


@dataclass
class PathResult:
    trace: List[Tuple[str, bool]]
    count: Any
    total: Any
    slack: Any
    ok: Optional[bool]
    lemmas: List[str]


def nonneg(expr, at_least_one: Tuple[str, ...] = (), constraints=None) -> Optional[bool]:
    """Is the polynomial non-negative for all non-negative integer symbol values (symbols named in
    at_least_one are assumed >= 1)?"""
    e = sp.expand(expr)
    for s_ in list(e.free_symbols):
        if s_.name in at_least_one:
            e = sp.expand(e.subs(s_, s_ + 1))
    # linear single-symbol side conditions c = a*s + b >= 0 (a > 0) raise the lower bound of s
    for c in constraints or ():
        c = sp.expand(c)
        fs = list(c.free_symbols)
        if len(fs) == 1 and sp.degree(c, fs[0]) == 1:
            a_, b_ = c.coeff(fs[0], 1), c.coeff(fs[0], 0)
            if a_.is_number and b_.is_number and a_ > 0 and b_ < 0:
                lo = sp.ceiling(-b_ / a_)
                e = sp.expand(e.subs(fs[0], fs[0] + lo))
    if e.is_number:
        return bool(e >= 0)
    try:
        p = sp.Poly(e, *sorted(e.free_symbols, key=lambda s: s.name))
    except sp.PolynomialError:
        return None
    if all(c >= 0 for c in p.coeffs()):
        return True
    # a single witness with small values refutes
    syms = sorted(e.free_symbols, key=lambda s: s.name)
    for vals in itertools.product(range(0, 4), repeat=min(len(syms), 4)):
        sub = dict(zip(syms, vals))
        for s_ in syms[4:]:
            sub[s_] = 1
        if e.subs(sub) < 0:
            return False
    return None


def analyse_block(model: Model, fi: FuncInfo, with_node: ast.With, max_paths: int = 512, force: Optional[Dict[str, bool]] = None,
                  at_least_one: Tuple[str, ...] = ()) -> List[PathResult]:
    """Explore every consistent decision sequence of the function up to and through the Progress block."""
    item = next(i for i in with_node.items if isinstance(i.context_expr, ast.Call) and dotted(i.context_expr.func) == "Progress")
    pcall = item.context_expr
    tnode = next((k.value for k in pcall.keywords if k.arg == "total"), pcall.args[1] if len(pcall.args) > 1 else None)
    if tnode is None:
        tnode = ast.Constant(1)
    var = item.optional_vars.id if isinstance(item.optional_vars, ast.Name) else None
    prefix = _relevant_prefix(fi.node, with_node, _statements_before(fi.node, with_node))
    results: List[PathResult] = []
    stack: List[List[bool]] = [[]]
    seen = 0
    while stack:
        dec = stack.pop()
        run = Run(model, list(dec), model.consts, force)
        a = fi.node.args
        env: Dict[str, Any] = {}
        for x in a.posonlyargs + a.args + a.kwonlyargs:
            env[x.arg] = Sym(x.arg)
        if a.vararg:
            env[a.vararg.arg] = Sz(size_symbol(a.vararg.arg))
        if a.kwarg:
            env[a.kwarg.arg] = {}
        total = None
        reached = False
        try:
            # run the function prefix up to the with statement (straight-line, same interpreter), then the block
            for s in prefix:
                run.stmt(s, env, fi)
            tval = run.num(run.ev(tnode, env, fi))
            if tval is None:
                raise Unsupported(f"total={norm(tnode)} is not numeric")
            total = tval
            run.count = sp.Integer(0)
            if var:
                env[var] = Prog()
            reached = True
            run.block(with_node.body, env, fi)
        except (_Abort, _Return):
            pass
        except (_Break, _Continue):
            pass
        # schedule the alternatives of every fresh decision taken in this run
        for i in range(len(dec), len(run.decisions)):
            alt = run.decisions[:i] + [not run.decisions[i]]
            stack.append(alt)
        seen += 1
        if seen > max_paths:
            raise Unsupported(f"more than {max_paths} paths")
        if reached and total is not None:
            slack = sp.expand(total - 1 - run.count)
            results.append(PathResult(run.trace, sp.expand(run.count), sp.expand(total), slack, nonneg(slack, at_least_one, run.constraints), sorted(set(run.lemmas + ["len(range(a, b)) = b - a (b >= a assumed where symbolic)"] if run.constraints else run.lemmas))))
    return results


def _names(node: ast.AST) -> set:
    return {n.id for n in ast.walk(node) if isinstance(n, ast.Name)}


def _relevant_prefix(fn: ast.FunctionDef, with_node: ast.With, prefix: List[ast.stmt]) -> List[ast.stmt]:
    """Backward slice: keep the prefix statements that can influence the total or the block."""
    rel = set()
    for it in with_node.items:
        rel |= _names(it.context_expr)
    for s in with_node.body:
        rel |= _names(s)
    changed = True
    while changed:
        changed = False
        for s in prefix:
            for n in ast.walk(s):
                tg = []
                if isinstance(n, ast.Assign):
                    tg = n.targets
                elif isinstance(n, (ast.AugAssign, ast.AnnAssign)):
                    tg = [n.target]
                elif isinstance(n, ast.Call) and isinstance(n.func, ast.Attribute) and isinstance(n.func.value, ast.Name) \
                        and n.func.attr in ("append", "extend", "update", "insert", "add"):
                    if n.func.value.id in rel:
                        new = _names(n) - rel
                        if new:
                            rel |= new
                            changed = True
                    continue
                for t in tg:
                    if _names(t) & rel and getattr(n, "value", None) is not None:
                        new = _names(n.value) - rel
                        if new:
                            rel |= new
                            changed = True
    out = []
    for s in prefix:
        assigns = any(isinstance(n, (ast.Assign, ast.AugAssign, ast.AnnAssign)) and _names(n.targets[0] if isinstance(n, ast.Assign) else n.target) & rel for n in ast.walk(s))
        mut = any(isinstance(n, ast.Call) and isinstance(n.func, ast.Attribute) and isinstance(n.func.value, ast.Name) and n.func.value.id in rel
                  and n.func.attr in ("append", "extend", "update", "insert", "add") for n in ast.walk(s))
        tests = isinstance(s, ast.If) and bool(_names(s.test) & rel)
        if assigns or mut or tests or isinstance(s, (ast.Import, ast.ImportFrom)):
            out.append(s)
    return out


def _statements_before(fn: ast.FunctionDef, target: ast.stmt) -> List[ast.stmt]:
    """Top-level statements of fn preceding `target` (which must be a top-level statement or inside a
    top-level compound statement — then that compound statement's own prefix is not executed)."""
    out = []
    for s in fn.body:
        if s is target:
            return out
        if any(x is target for x in ast.walk(s)):
            raise Unsupported("Progress block nested inside another compound statement")
        out.append(s)
    raise Unsupported("Progress block not found at the top level of its function")
