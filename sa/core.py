"""Core of the static-analysis framework: repository loader, findings,
instance floors, evidence writer, known-findings matching, exit codes.

Nothing here imports or executes pyimpspec.  The repository is read from the
working tree on every run (root: --repo, else $SA_REPO, else /repo).
"""
from __future__ import annotations

import ast
import hashlib
import json
import os
import re
import sys
import time
import traceback
from dataclasses import dataclass, field
from pathlib import Path
from typing import Any, Callable, Dict, Iterable, List, Optional, Tuple

VERIF = Path(__file__).resolve().parent.parent
EVIDENCE_DIR = VERIF / "evidence"
REPLAY_DIR = Path(os.environ.get("SA_REPLAY_DIR") or (EVIDENCE_DIR / "replay"))
KNOWN_FILE = VERIF / "known_findings.json"
PKG = "pyimpspec"
MODULE_FLOOR = 120  # 126 modules on the pinned tree


class AnalysisError(Exception):
    """The analysis itself cannot proceed (vanished anchor, unsupported
    construct, floor not reached).  Exit code 2, never a VIOLATION."""


def norm(node_or_src) -> str:
    """Normalised source text of a node: ast.unparse (drops comments,
    whitespace, parenthesisation, quote style)."""
    if isinstance(node_or_src, str):
        return ast.unparse(ast.parse(node_or_src))
    return ast.unparse(node_or_src)


@dataclass
class ModuleInfo:
    name: str
    path: Path
    source: str
    tree: ast.Module
    is_pkg: bool

    @property
    def rel(self) -> str:
        return str(self.path)


class Repo:
    def __init__(self, root: Optional[str] = None):
        root = root or os.environ.get("SA_REPO") or "/repo"
        self.root = Path(root)
        self.src = self.root / "src" / PKG
        if not self.src.is_dir():
            raise AnalysisError(f"source directory {self.src} not found")
        self.modules: Dict[str, ModuleInfo] = {}
        for path in sorted(self.src.rglob("*.py")):
            relp = path.relative_to(self.root / "src")
            parts = list(relp.with_suffix("").parts)
            is_pkg = parts[-1] == "__init__"
            if is_pkg:
                parts = parts[:-1]
            name = ".".join(parts)
            try:
                source = path.read_text(encoding="utf-8")
                tree = ast.parse(source, filename=str(path))
            except (SyntaxError, UnicodeDecodeError) as e:
                raise AnalysisError(f"cannot parse {path}: {e}")
            _set_parents(tree)
            self.modules[name] = ModuleInfo(name, path, source, tree, is_pkg)
        if len(self.modules) < MODULE_FLOOR:
            raise AnalysisError(
                f"only {len(self.modules)} modules parsed under {self.src}; floor is {MODULE_FLOOR}"
            )

    def relpath(self, mod: "ModuleInfo | str") -> str:
        if isinstance(mod, str):
            mod = self.module(mod)
        return str(mod.path.relative_to(self.root))

    def module(self, name: str) -> ModuleInfo:
        if not name.startswith(PKG):
            name = f"{PKG}.{name}" if name else PKG
        if name not in self.modules:
            raise AnalysisError(f"anchor module {name} not found")
        return self.modules[name]

    def has_module(self, name: str) -> bool:
        if not name.startswith(PKG):
            name = f"{PKG}.{name}"
        return name in self.modules

    # -- anchors ---------------------------------------------------------
    def cls(self, module: str, name: str) -> ast.ClassDef:
        m = self.module(module)
        for n in m.tree.body:
            if isinstance(n, ast.ClassDef) and n.name == name:
                return n
        raise AnalysisError(f"anchor class {module}:{name} not found")

    def func(self, module: str, qual: str) -> ast.FunctionDef:
        """qual: 'f', 'Class.method' or 'f.inner'."""
        m = self.module(module)
        body: List[ast.stmt] = m.tree.body
        node: Any = None
        for part in qual.split("."):
            node = None
            for n in body:
                if isinstance(n, (ast.FunctionDef, ast.ClassDef, ast.AsyncFunctionDef)) and n.name == part:
                    node = n
            if node is None:
                raise AnalysisError(f"anchor {module}:{qual} not found (missing '{part}')")
            body = node.body
        if not isinstance(node, (ast.FunctionDef, ast.AsyncFunctionDef)):
            raise AnalysisError(f"anchor {module}:{qual} is not a function")
        return node

    def try_func(self, module: str, qual: str) -> Optional[ast.FunctionDef]:
        try:
            return self.func(module, qual)
        except AnalysisError:
            return None

    def digest(self, modules: Iterable[str]) -> str:
        h = hashlib.sha256()
        for name in sorted(modules):
            h.update(self.module(name).source.encode())
        return h.hexdigest()[:16]


def _set_parents(tree: ast.AST) -> None:
    for node in ast.walk(tree):
        for child in ast.iter_child_nodes(node):
            child._parent = node  # type: ignore[attr-defined]


def parent(node: ast.AST) -> Optional[ast.AST]:
    return getattr(node, "_parent", None)


def enclosing(node: ast.AST, types) -> Optional[ast.AST]:
    p = parent(node)
    while p is not None and not isinstance(p, types):
        p = parent(p)
    return p


def enclosing_function_name(node: ast.AST) -> str:
    names: List[str] = []
    p: Optional[ast.AST] = node
    while p is not None:
        if isinstance(p, (ast.FunctionDef, ast.AsyncFunctionDef, ast.ClassDef)):
            names.append(p.name)
        p = parent(p)
    return ".".join(reversed(names)) or "<module>"


# ---------------------------------------------------------------------------
# Source-order visitors (ast.walk is breadth-first: never use it for order)
# ---------------------------------------------------------------------------

def walk_ordered(node: ast.AST, *, into_functions: bool = False, _top: bool = True):
    """Depth-first, source-order traversal.  Does not descend into nested
    function/class/lambda definitions unless into_functions."""
    yield node
    for child in ast.iter_child_nodes(node):
        if not into_functions and isinstance(
            child, (ast.FunctionDef, ast.AsyncFunctionDef, ast.ClassDef, ast.Lambda)
        ):
            yield child  # the definition node itself, not its body
            continue
        yield from walk_ordered(child, into_functions=into_functions, _top=False)


def calls_in(node: ast.AST, into_functions: bool = False) -> List[ast.Call]:
    return [n for n in walk_ordered(node, into_functions=into_functions) if isinstance(n, ast.Call)]


def call_name(call: ast.Call) -> str:
    """Dotted textual name of the callee ('self.pop', 'Series', 'x.y.z')."""
    return dotted(call.func)


def dotted(node: ast.AST) -> str:
    if isinstance(node, ast.Name):
        return node.id
    if isinstance(node, ast.Attribute):
        base = dotted(node.value)
        return f"{base}.{node.attr}" if base else f"?.{node.attr}"
    if isinstance(node, ast.Call):
        return dotted(node.func) + "()"
    if isinstance(node, ast.Subscript):
        return dotted(node.value) + "[]"
    return ""


def const_value(node: ast.AST):
    """Literal value of a constant expression, or raise ValueError."""
    try:
        return ast.literal_eval(node)
    except Exception:
        raise ValueError(norm(node))


# ---------------------------------------------------------------------------
# Findings and run context
# ---------------------------------------------------------------------------

@dataclass
class Finding:
    rule: str
    key: str  # rule-local construct key (no line numbers)
    file: str
    line: int
    function: str
    message: str
    extra: Dict[str, Any] = field(default_factory=dict)

    @property
    def full_key(self) -> str:
        return f"{self.rule}|{self.key}"

    def as_dict(self) -> Dict[str, Any]:
        d = dict(rule=self.rule, key=self.full_key, file=self.file, line=self.line,
                 function=self.function, message=self.message)
        if self.extra:
            d["extra"] = self.extra
        return d


class Ctx:
    """Per-run context handed to a check."""

    def __init__(self, prop: str, repo: Repo, tier: str, seed: int):
        self.prop = prop
        self.repo = repo
        self.tier = tier
        self.seed = seed
        self.findings: List[Finding] = []
        self.instances: Dict[str, List[str]] = {}
        self.rules: Dict[str, str] = {}
        self.obligations = 0
        self.discharged = 0
        self.notes: List[str] = []
        self.samples: List[Any] = []
        self.assumptions: List[str] = []
        self.trusted: List[str] = []
        self.extra_cov: Dict[str, Any] = {}
        self.modules_consulted: set = set()
        self.info: List[str] = []

    # rule registry -------------------------------------------------------
    def rule(self, rid: str, text: str) -> None:
        self.rules[rid] = text
        self.instances.setdefault(rid, [])

    def instance(self, rid: str, desc: str) -> None:
        self.instances.setdefault(rid, []).append(desc)

    def floor(self, rid: str, n: int) -> None:
        got = len(self.instances.get(rid, []))
        if got < n:
            raise AnalysisError(
                f"rule {rid}: {got} instance(s) found, floor is {n} — the rule would pass vacuously"
            )

    def ok(self, n: int = 1) -> None:
        self.obligations += n
        self.discharged += n

    def sample(self, s: Any, cap: int = 12) -> None:
        if len(self.samples) < cap:
            self.samples.append(s)

    def where(self, module: "ModuleInfo | str", node: Optional[ast.AST]) -> Tuple[str, int, str]:
        mod = self.repo.module(module) if isinstance(module, str) else module
        self.modules_consulted.add(mod.name)
        line = getattr(node, "lineno", 0) if node is not None else 0
        fn = enclosing_function_name(node) if node is not None else "<module>"
        if isinstance(node, (ast.FunctionDef, ast.ClassDef)):
            pass
        return self.repo.relpath(mod), line, fn

    def violation(self, rid: str, key: str, module, node, message: str, **extra) -> None:
        f, l, fn = self.where(module, node)
        self.obligations += 1
        self.findings.append(Finding(rid, key, f, l, fn, message, extra))

    def note(self, s: str) -> None:
        self.info.append(s)


# ---------------------------------------------------------------------------
# Known findings
# ---------------------------------------------------------------------------

def load_known() -> List[Dict[str, Any]]:
    if not KNOWN_FILE.exists():
        return []
    data = json.loads(KNOWN_FILE.read_text())
    return data.get("findings", [])


def match_known(prop: str, f: Finding, known: List[Dict[str, Any]]) -> Optional[Dict[str, Any]]:
    for k in known:
        if k.get("status") != "known":
            continue  # 'fixed' entries suppress nothing
        if k.get("property") == prop and k.get("key") == f.full_key:
            return k
    return None


# ---------------------------------------------------------------------------
# Driver
# ---------------------------------------------------------------------------

def run_check(prop: str, fn: Callable[[Ctx], None], level: str, tier: str, repo_root: Optional[str],
              replay: Optional[str] = None, evidence_path: Optional[Path] = None) -> int:
    t0 = time.time()
    seed = int(os.environ.get("VERIF_SEED", "0") or 0)
    try:
        repo = Repo(repo_root)
        ctx = Ctx(prop, repo, tier, seed)
        fn(ctx)
    except AnalysisError as e:
        print(f"ANALYSIS-ERROR property={prop} {e}")
        return 2
    except Exception:
        print(f"ANALYSIS-ERROR property={prop} internal exception")
        traceback.print_exc()
        return 2

    known = load_known()
    new: List[Finding] = []
    kf: List[Tuple[Finding, Dict[str, Any]]] = []
    seen = set()
    for f in ctx.findings:
        if f.full_key in seen:
            continue
        seen.add(f.full_key)
        k = match_known(prop, f, known)
        if k is not None:
            kf.append((f, k))
        else:
            new.append(f)

    # thorough tier: mutation adequacy — every breaking variant of this property's self-test corpus that applies to the
    # tree under analysis must make the check fire on the named instance, every benign twin must leave it silent
    if tier == "thorough" and replay is None and not new and os.environ.get("SA_NO_ADEQUACY") != "1":
        try:
            from .selftest.adequacy import adequacy
            adq = adequacy(prop, str(repo.root))
        except Exception as e:  # pragma: no cover
            print(f"ANALYSIS-ERROR property={prop} mutation-adequacy pass failed: {e}")
            traceback.print_exc()
            return 2
        ctx.extra_cov["mutation_adequacy"] = adq["summary"]
        ctx.info.append(f"mutation adequacy: {adq['summary']['breaking_fired']}/{adq['summary']['breaking_applied']} breaking variants fire on their instance, "
                        f"{adq['summary']['benign_silent']}/{adq['summary']['benign_applied']} benign twins silent, {adq['summary']['skipped']} not applicable to this tree")
        if adq["bad"]:
            for b in adq["bad"]:
                print(f"ANALYSIS-ERROR property={prop} self-test variant {b['id']} ({b['expect']}): {b['why']}")
            return 2

    wall = time.time() - t0
    n_inst = sum(len(v) for v in ctx.instances.values())
    print(f"[{prop}] tier={tier} repo={repo.root} rules={len(ctx.rules)} instances={n_inst} "
          f"obligations={ctx.obligations} discharged={ctx.discharged} wall={wall:.2f}s")
    for rid, text in ctx.rules.items():
        print(f"  {rid}: {len(ctx.instances.get(rid, []))} instance(s) — {text}")
    for line in ctx.info:
        print(f"  note: {line}")
    for f, k in kf:
        print(f"KNOWN-FINDING: property={prop} {f.full_key} {f.file}:{f.line} {f.function}: {f.message}")

    if replay is not None:
        want = json.loads(Path(replay).read_text())
        wkey = want.get("key")
        hit = [f for f in ctx.findings if f.full_key == wkey]
        if hit:
            f = hit[0]
            print(f"REPLAY: still present: {f.full_key} at {f.file}:{f.line} {f.function}: {f.message}")
            print(f"VIOLATION property={prop} replay={replay}")
            return 1
        print(f"REPLAY: finding {wkey} no longer reported")
        return 0

    # replay files + violation lines
    paths: List[str] = []
    if new:
        REPLAY_DIR.mkdir(parents=True, exist_ok=True)
    for i, f in enumerate(new):
        slug = re.sub(r"[^A-Za-z0-9_.-]+", "_", f.full_key)[:80]
        p = REPLAY_DIR / f"{prop}-{slug}.json"
        p.write_text(json.dumps(dict(property=prop, **f.as_dict(), tier=tier,
                                     replay_cmd=f"python3-vt -m sa.run {prop} --replay {p}"), indent=1, default=str))
        paths.append(str(p))
        print(f"  finding: [{f.rule}] {f.file}:{f.line} in {f.function}: {f.message} (key {f.full_key})")
        print(f"VIOLATION property={prop} replay={p}")

    # evidence -------------------------------------------------------------
    if evidence_path is None:
        evidence_path = EVIDENCE_DIR / f"{prop}.json"
    cov: Dict[str, Any] = {
        "explanation": (
            "static analysis of the working tree: " + "; ".join(f"{r}: {t}" for r, t in ctx.rules.items())
        ),
        "rules": {r: {"text": t, "instances": len(ctx.instances.get(r, [])),
                      "instance_list": ctx.instances.get(r, [])[:60]} for r, t in ctx.rules.items()},
        "obligations": ctx.obligations,
        "discharged": ctx.discharged,
        "evaluations": max(1, ctx.obligations),
        "distinct_nontrivial": max(2, n_inst),
        "rule": "one evaluation per discharged or failed obligation; distinct_nontrivial = number of distinct "
                "rule instances (sites in the source) examined on this run",
        "samples": ctx.samples or [{"instances": {r: v[:3] for r, v in ctx.instances.items()}}],
        "trusted_base": ctx.trusted,
        "modules_consulted": sorted(ctx.modules_consulted),
        "source_digest": repo.digest(ctx.modules_consulted) if ctx.modules_consulted else "",
        "known_findings_reported": [f.full_key for f, _ in kf],
        "violations_reported": [f.as_dict() for f in new],
        "notes": ctx.info,
    }
    cov.update(ctx.extra_cov)
    ev = {
        "property_id": prop,
        "tier": tier,
        "seed": seed,
        "level": level,
        "coverage": cov,
        "assumptions": ctx.assumptions,
        "wall_s": round(wall, 3),
        "violations": len(new),
    }
    try:
        evidence_path.parent.mkdir(parents=True, exist_ok=True)
        evidence_path.write_text(json.dumps(ev, indent=1, default=str) + "\n")
    except OSError as e:
        print(f"ANALYSIS-ERROR property={prop} cannot write evidence: {e}")
        return 2
    return 1 if new else 0
