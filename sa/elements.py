"""Shared fact extraction: registered element definitions (from
register_element(ElementDefinition|ContainerDefinition(...)) calls) and a
constant folder for string/number expressions."""
from __future__ import annotations

import ast
from dataclasses import dataclass, field
from typing import Any, Dict, List, Optional

from .core import AnalysisError, Repo, norm, walk_ordered
from .model import Model, get_model


def module_consts(repo: Repo, module: str) -> Dict[str, ast.AST]:
    """Top-level `NAME = <expr>` assignments of a module, for fold_const's name table (tables and alphabets may be
    written inline or as module constants)."""
    out: Dict[str, ast.AST] = {}
    for st in repo.modules[module].tree.body:
        if isinstance(st, (ast.Assign, ast.AnnAssign)) and st.value is not None:
            t = st.targets[0] if isinstance(st, ast.Assign) else st.target
            if isinstance(t, ast.Name):
                out[t.id] = st.value
    return out


def fold_const(node: ast.AST, names: Optional[Dict[str, Any]] = None):
    """Fold literals, str + str, str % x, .replace/.strip/.upper/.lower/.join,
    unary minus, inf, len(), list/tuple/dict displays, .keys()."""
    names = names or {}
    if isinstance(node, ast.Constant):
        return node.value
    if isinstance(node, ast.Name):
        if node.id in names:
            v = names[node.id]
            return fold_const(v, names) if isinstance(v, ast.AST) else v
        if node.id == "inf":
            return float("inf")
        if node.id == "nan":
            return float("nan")
        raise ValueError(f"name {node.id}")
    if isinstance(node, ast.UnaryOp) and isinstance(node.op, ast.USub):
        return -fold_const(node.operand, names)
    if isinstance(node, ast.UnaryOp) and isinstance(node.op, ast.UAdd):
        return +fold_const(node.operand, names)
    if isinstance(node, ast.BinOp):
        a, b = fold_const(node.left, names), fold_const(node.right, names)
        if isinstance(node.op, ast.Add):
            return a + b
        if isinstance(node.op, ast.Sub):
            return a - b
        if isinstance(node.op, ast.Mult):
            return a * b
        if isinstance(node.op, ast.Div):
            return a / b
        if isinstance(node.op, ast.Pow):
            return a ** b
        if isinstance(node.op, ast.Mod):
            return a % b
        raise ValueError(norm(node))
    if isinstance(node, (ast.List, ast.Tuple)):
        return [fold_const(e, names) for e in node.elts]
    if isinstance(node, ast.Set):
        return set(fold_const(e, names) for e in node.elts)
    if isinstance(node, ast.Dict):
        return {fold_const(k, names): fold_const(v, names) for k, v in zip(node.keys, node.values)}
    if isinstance(node, ast.Call) and isinstance(node.func, ast.Attribute):
        m = node.func.attr
        if m in ("replace", "strip", "upper", "lower", "join", "split", "format", "keys", "values", "copy"):
            base = fold_const(node.func.value, names)
            args = [fold_const(a, names) for a in node.args]
            r = getattr(base, m)(*args)
            return list(r) if m in ("keys", "values") else r
    if isinstance(node, ast.Call) and isinstance(node.func, ast.Name):
        if node.func.id in ("len", "list", "tuple", "set", "sorted", "str", "float", "int", "dict") and not node.keywords:
            args = [fold_const(a, names) for a in node.args]
            return {"len": len, "list": list, "tuple": tuple, "set": set, "sorted": sorted, "str": str,
                    "float": float, "int": int, "dict": dict}[node.func.id](*args)
    if isinstance(node, ast.JoinedStr):
        parts = []
        for v in node.values:
            if isinstance(v, ast.Constant):
                parts.append(str(v.value))
            elif isinstance(v, ast.FormattedValue) and v.format_spec is None and v.conversion == -1:
                parts.append(str(fold_const(v.value, names)))
            else:
                raise ValueError(norm(node))
        return "".join(parts)
    raise ValueError(norm(node)[:80])


@dataclass
class ParamDef:
    symbol: str
    unit: str
    value: float
    lower: float
    upper: float
    fixed: bool
    node: ast.Call


@dataclass
class SubDef:
    symbol: str
    value_src: str
    node: ast.Call


@dataclass
class ElementDef:
    module: str
    cls: str  # class name
    cls_q: str  # qualified
    symbol: str
    equation: str
    container: bool
    params: List[ParamDef]
    subs: List[SubDef]
    node: ast.Call
    private: bool = False

    @property
    def impedance_params(self) -> List[str]:
        return [p.symbol for p in self.params]


def _kw(call: ast.Call, name: str) -> ast.AST:
    for k in call.keywords:
        if k.arg == name:
            return k.value
    raise AnalysisError(f"keyword {name}= missing in {norm(call)[:60]} (line {call.lineno})")


def registered_elements(repo: Repo) -> List[ElementDef]:
    model = get_model(repo)
    out: List[ElementDef] = []
    for mname, mod in repo.modules.items():
        if not mname.startswith("pyimpspec.circuit"):
            continue
        for stmt in mod.tree.body:
            if not (isinstance(stmt, ast.Expr) and isinstance(stmt.value, ast.Call)):
                continue
            call = stmt.value
            if not (isinstance(call.func, ast.Name) and call.func.id == "register_element"):
                continue
            if not call.args or not isinstance(call.args[0], ast.Call):
                raise AnalysisError(f"{mname}:{call.lineno}: register_element with a non-literal definition")
            d = call.args[0]
            kind = d.func.id if isinstance(d.func, ast.Name) else ""
            if kind not in ("ElementDefinition", "ContainerDefinition"):
                raise AnalysisError(f"{mname}:{call.lineno}: unknown definition constructor {norm(d.func)}")
            cls_node = _kw(d, "Class")
            if not isinstance(cls_node, ast.Name):
                raise AnalysisError(f"{mname}:{call.lineno}: Class= is not a name")
            r = model.resolve(mname, cls_node.id)
            if not r or r[0] != "class":
                raise AnalysisError(f"{mname}:{call.lineno}: class {cls_node.id} unresolved")
            try:
                symbol = fold_const(_kw(d, "symbol"))
                equation = fold_const(_kw(d, "equation"))
            except ValueError as e:
                raise AnalysisError(f"{mname}:{call.lineno}: symbol/equation not constant-foldable: {e}")
            params: List[ParamDef] = []
            pl = _kw(d, "parameters")
            if not isinstance(pl, ast.List):
                raise AnalysisError(f"{mname}:{call.lineno}: parameters= is not a list display")
            for p in pl.elts:
                if not (isinstance(p, ast.Call) and isinstance(p.func, ast.Name) and p.func.id == "ParameterDefinition"):
                    raise AnalysisError(f"{mname}:{p.lineno}: parameter entry is not a ParameterDefinition call")
                try:
                    params.append(ParamDef(
                        fold_const(_kw(p, "symbol")), fold_const(_kw(p, "unit")),
                        float(fold_const(_kw(p, "value"))), float(fold_const(_kw(p, "lower_limit"))),
                        float(fold_const(_kw(p, "upper_limit"))), bool(fold_const(_kw(p, "fixed"))), p))
                except ValueError as e:
                    raise AnalysisError(f"{mname}:{p.lineno}: ParameterDefinition not constant: {e}")
            subs: List[SubDef] = []
            if kind == "ContainerDefinition":
                sl = _kw(d, "subcircuits")
                if not isinstance(sl, ast.List):
                    raise AnalysisError(f"{mname}:{call.lineno}: subcircuits= is not a list display")
                for s in sl.elts:
                    subs.append(SubDef(fold_const(_kw(s, "symbol")), norm(_kw(s, "value")), s))
            private = any(k.arg == "private" and isinstance(k.value, ast.Constant) and k.value.value is True
                          for k in call.keywords)
            out.append(ElementDef(mname, cls_node.id, r[1], symbol, equation, kind == "ContainerDefinition",
                                  params, subs, call, private))
    return out
