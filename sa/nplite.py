"""A one-dimensional stand-in for the part of numpy the repository's small array kernels use, for sa.miniinterp.

Entries are Python numbers (including ±inf), booleans or sympy expressions (generic finite values).  Arithmetic and
comparisons are entry-wise with scalar broadcasting; indexing and assignment accept an integer, a slice, an index
array or a boolean mask.  Only total, shape-preserving behaviour is modelled; anything else raises, and the checker
reports the idiom as not understood (exit 2) rather than guessing."""
from __future__ import annotations

import math
from typing import Any, Callable, Dict, Iterable, List

import sympy as sp


def _is_inf(x) -> bool:
    if isinstance(x, (int, float)) and not isinstance(x, bool):
        return math.isinf(x)
    if isinstance(x, complex):
        return math.isinf(x.real) or math.isinf(x.imag)
    if isinstance(x, sp.Basic):
        return x in (sp.oo, -sp.oo, sp.zoo)
    return False


def _is_nan(x) -> bool:
    if isinstance(x, float):
        return math.isnan(x)
    if isinstance(x, complex):
        return math.isnan(x.real) or math.isnan(x.imag)
    if isinstance(x, sp.Basic):
        return x is sp.nan
    return False


class NArr:
    def __init__(self, items: Iterable[Any]):
        self.items: List[Any] = list(items)

    # -- shape ---------------------------------------------------------------
    @property
    def size(self) -> int:
        return len(self.items)

    @property
    def shape(self):
        return (len(self.items),)

    @property
    def real(self):
        return NArr(sp.re(x) if isinstance(x, sp.Basic) else (x.real if isinstance(x, complex) else x) for x in self.items)

    @property
    def imag(self):
        return NArr(sp.im(x) if isinstance(x, sp.Basic) else (x.imag if isinstance(x, complex) else 0) for x in self.items)

    def __len__(self):
        return len(self.items)

    def __iter__(self):
        return iter(self.items)

    def __repr__(self):
        return f"NArr({self.items})"

    def copy(self):
        return NArr(self.items)

    def astype(self, *_a, **_k):
        return NArr(self.items)

    def tolist(self):
        return list(self.items)

    def any(self):
        return any(bool(x) for x in self.items)

    def all(self):
        return all(bool(x) for x in self.items)

    def sum(self):
        s = 0
        for x in self.items:
            s = s + x
        return s

    def max(self):
        return max(self.items)

    def min(self):
        return min(self.items)

    # -- indexing ------------------------------------------------------------
    def _positions(self, k) -> List[int]:
        n = len(self.items)
        if isinstance(k, slice):
            return list(range(n))[k]
        if isinstance(k, NArr) or isinstance(k, (list, tuple)):
            ks = list(k)
            if ks and all(isinstance(b, bool) for b in ks):
                if len(ks) != n:
                    raise IndexError("boolean index did not match indexed array")
                return [i for i, b in enumerate(ks) if b]
            out = []
            for i in ks:
                if not isinstance(i, int) or isinstance(i, bool):
                    raise IndexError("arrays used as indices must be of integer (or boolean) type")
                if not -n <= i < n:
                    raise IndexError(f"index {i} is out of bounds for axis 0 with size {n}")
                out.append(i % n if n else i)
            return out
        raise TypeError("unsupported index")

    def __getitem__(self, k):
        if isinstance(k, int) and not isinstance(k, bool):
            return self.items[k]
        if isinstance(k, tuple) and len(k) == 1:
            return self[k[0]]
        return NArr(self.items[i] for i in self._positions(k))

    def __setitem__(self, k, v):
        if isinstance(k, int) and not isinstance(k, bool):
            self.items[k] = v
            return
        pos = self._positions(k)
        vals = list(v) if isinstance(v, (NArr, list, tuple)) else [v] * len(pos)
        if len(vals) != len(pos):
            raise ValueError(f"shape mismatch: value array of shape ({len(vals)},) could not be broadcast to indexing result of shape ({len(pos)},)")
        for i, x in zip(pos, vals):
            self.items[i] = x

    # -- arithmetic ------------------------------------------------------------
    def _bin(self, other, f: Callable[[Any, Any], Any]):
        if isinstance(other, (NArr, list, tuple)):
            o = list(other)
            if len(o) != len(self.items):
                raise ValueError(f"operands could not be broadcast together with shapes ({len(self.items)},) ({len(o)},)")
            return NArr(f(a, b) for a, b in zip(self.items, o))
        return NArr(f(a, other) for a in self.items)

    @staticmethod
    def _div(a, b):
        if isinstance(b, (int, float)) and not isinstance(b, bool) and b == 0:
            return sp.zoo if not (isinstance(a, (int, float)) and a == 0) else sp.nan
        if _is_inf(b) and not _is_inf(a):
            return 0
        return a / b

    def __add__(self, o): return self._bin(o, lambda a, b: a + b)
    def __radd__(self, o): return self._bin(o, lambda a, b: b + a)
    def __sub__(self, o): return self._bin(o, lambda a, b: a - b)
    def __rsub__(self, o): return self._bin(o, lambda a, b: b - a)
    def __mul__(self, o): return self._bin(o, lambda a, b: a * b)
    def __rmul__(self, o): return self._bin(o, lambda a, b: b * a)
    def __truediv__(self, o): return self._bin(o, lambda a, b: NArr._div(a, b))
    def __rtruediv__(self, o): return self._bin(o, lambda a, b: NArr._div(b, a))
    def __pow__(self, o): return self._bin(o, lambda a, b: a ** b)
    def __neg__(self): return NArr(-a for a in self.items)
    def __invert__(self): return NArr((not a) if isinstance(a, bool) else ~a for a in self.items)
    def __and__(self, o): return self._bin(o, lambda a, b: bool(a) and bool(b))
    def __or__(self, o): return self._bin(o, lambda a, b: bool(a) or bool(b))

    @staticmethod
    def _cmp(a, b, op):
        if isinstance(a, sp.Basic) or isinstance(b, sp.Basic):
            if op == "==":
                return bool(sp.simplify(sp.sympify(a) - sp.sympify(b)) == 0) if not (_is_inf(a) or _is_inf(b)) else (a == b)
            if op == "!=":
                return not NArr._cmp(a, b, "==")
            r = {"<": sp.sympify(a) < sp.sympify(b), "<=": sp.sympify(a) <= sp.sympify(b), ">": sp.sympify(a) > sp.sympify(b), ">=": sp.sympify(a) >= sp.sympify(b)}[op]
            if r in (sp.true, sp.false):
                return bool(r)
            raise TypeError(f"order of symbolic values {a} {op} {b} is not determined")
        return {"==": a == b, "!=": a != b, "<": a < b, "<=": a <= b, ">": a > b, ">=": a >= b}[op]

    def __eq__(self, o): return self._bin(o, lambda a, b: NArr._cmp(a, b, "=="))  # type: ignore[override]
    def __ne__(self, o): return self._bin(o, lambda a, b: NArr._cmp(a, b, "!="))  # type: ignore[override]
    def __lt__(self, o): return self._bin(o, lambda a, b: NArr._cmp(a, b, "<"))
    def __le__(self, o): return self._bin(o, lambda a, b: NArr._cmp(a, b, "<="))
    def __gt__(self, o): return self._bin(o, lambda a, b: NArr._cmp(a, b, ">"))
    def __ge__(self, o): return self._bin(o, lambda a, b: NArr._cmp(a, b, ">="))
    __hash__ = None  # type: ignore[assignment]


def _n(shape) -> int:
    if isinstance(shape, int):
        return shape
    if isinstance(shape, (tuple, list)) and len(shape) == 1:
        return shape[0]
    raise ValueError(f"only one-dimensional shapes are modelled, not {shape!r}")


def _map(f):
    def g(x, *a, **k):
        return NArr(f(v) for v in x) if isinstance(x, (NArr, list, tuple)) else f(x)
    return g


def _where(cond, *rest):
    c = list(cond)
    if not rest:
        return (NArr(i for i, b in enumerate(c) if b),)
    a, b = rest
    aa = list(a) if isinstance(a, (NArr, list, tuple)) else [a] * len(c)
    bb = list(b) if isinstance(b, (NArr, list, tuple)) else [b] * len(c)
    return NArr(x if t else y for t, x, y in zip(c, aa, bb))


def _unique(x, **k):
    seen, out = set(), []
    for v in sorted(x):
        if v not in seen:
            seen.add(v)
            out.append(v)
    return NArr(out)


def _delete(a, idx, **k):
    drop = set(idx) if isinstance(idx, (NArr, list, tuple)) else {idx}
    return NArr(v for i, v in enumerate(a) if i not in drop)


def _concatenate(parts, **k):
    out: List[Any] = []
    for p in parts:
        out += list(p)
    return NArr(out)


def _fromiter(it, dtype=None, count=-1, **k):
    return NArr(it)


NP_STUBS: Dict[str, Any] = {
    "zeros": lambda shape, **k: NArr([0] * _n(shape)),
    "ones": lambda shape, **k: NArr([1] * _n(shape)),
    "full": lambda shape, value, **k: NArr([value] * _n(shape)),
    "empty": lambda shape, **k: NArr([sp.Symbol(f"uninitialised_{i}") for i in range(_n(shape))]),
    "zeros_like": lambda a, **k: NArr([0] * len(a)),
    "array": lambda x, *a, **k: NArr(x),
    "asarray": lambda x, *a, **k: NArr(x),
    "fromiter": _fromiter,
    "where": _where,
    "flatnonzero": lambda c: NArr(i for i, b in enumerate(c) if b),
    "isinf": _map(_is_inf), "isposinf": _map(lambda v: _is_inf(v) and v > 0), "isneginf": _map(lambda v: _is_inf(v) and v < 0),
    "isnan": _map(_is_nan), "isfinite": _map(lambda v: not _is_inf(v) and not _is_nan(v)),
    "logical_not": _map(lambda v: not v), "logical_or": lambda a, b: NArr(a) | b, "logical_and": lambda a, b: NArr(a) & b,
    "unique": _unique, "delete": _delete, "concatenate": _concatenate,
    "indices": lambda shape, **k: (NArr(range(_n(shape))),), "array_indices": lambda shape, **k: (NArr(range(_n(shape))),),
    "arange": lambda n, *a, **k: NArr(range(n)),
    "array_sum": lambda x, **k: NArr(x).sum(), "array_all": lambda x, **k: all(bool(v) for v in x), "array_any": lambda x, **k: any(bool(v) for v in x),
    "absolute": _map(abs),
    "count_nonzero": lambda x, **k: sum(1 for v in x if bool(v)),
    "invert": lambda x: ~NArr(x), "logical_xor": lambda a, b: NArr(bool(p) != bool(q) for p, q in zip(a, b)),
    "nonzero": lambda c: (NArr(i for i, b in enumerate(c) if b),),
    "argwhere": lambda c: NArr(i for i, b in enumerate(c) if b),
    "copy": lambda x: NArr(x), "ones_like": lambda a, **k: NArr([1] * len(a)), "full_like": lambda a, v, **k: NArr([v] * len(a)),
    "size": lambda x: len(x), "newaxis": None,
    "inf": math.inf, "nan": math.nan, "bool_": bool, "float64": float, "complex128": complex, "int64": int,
    "ComplexImpedance": complex, "Frequency": float,
}


class Mat:
    """A small two-dimensional array stand-in: rows × columns of entries, indexed by (rows, column) or (rows, columns)
    with ints, slices and slice objects; remembers which cells were written."""

    def __init__(self, m: int, n: int, fill: Any = 0):
        self.m, self.n = m, n
        self.cells = [[fill for _ in range(n)] for _ in range(m)]
        self.written: set = set()

    @property
    def shape(self):
        return (self.m, self.n)

    def _rows(self, k):
        if isinstance(k, slice):
            return list(range(self.m))[k]
        if isinstance(k, int) and not isinstance(k, bool):
            if not -self.m <= k < self.m:
                raise IndexError(f"index {k} is out of bounds for axis 0 with size {self.m}")
            return [k % self.m]
        raise TypeError("unsupported row index")

    def _cols(self, k):
        if isinstance(k, slice):
            return list(range(self.n))[k]
        if isinstance(k, int) and not isinstance(k, bool):
            if not -self.n <= k < self.n:
                raise IndexError(f"index {k} is out of bounds for axis 1 with size {self.n}")
            return [k % self.n]
        raise TypeError("unsupported column index")

    def __getitem__(self, key):
        if not (isinstance(key, tuple) and len(key) == 2):
            raise TypeError("only A[rows, columns] is modelled")
        rows, cols = self._rows(key[0]), self._cols(key[1])
        if isinstance(key[1], int):
            return NArr(self.cells[r][cols[0]] for r in rows) if not isinstance(key[0], int) else self.cells[rows[0]][cols[0]]
        if isinstance(key[0], int):
            return NArr(self.cells[rows[0]][c] for c in cols)
        raise TypeError("two-dimensional blocks are not modelled")

    def __setitem__(self, key, value):
        if not (isinstance(key, tuple) and len(key) == 2):
            raise TypeError("only A[rows, columns] = … is modelled")
        rows, cols = self._rows(key[0]), self._cols(key[1])
        if len(cols) == 1:
            vals = list(value) if isinstance(value, (NArr, list, tuple)) else [value] * len(rows)
            if len(vals) != len(rows):
                raise ValueError(f"could not broadcast input array from shape ({len(vals)},) into shape ({len(rows)},)")
            for r, v in zip(rows, vals):
                self.cells[r][cols[0]] = v
                self.written.add((r, cols[0]))
            return
        if len(rows) == 1:
            vals = list(value) if isinstance(value, (NArr, list, tuple)) else [value] * len(cols)
            if len(vals) != len(cols):
                raise ValueError("could not broadcast")
            for c, v in zip(cols, vals):
                self.cells[rows[0]][c] = v
                self.written.add((rows[0], c))
            return
        raise TypeError("two-dimensional block stores are not modelled")
