"""A small interpreter for a subset of Python, run by the checkers on the AST of
repository functions whose behaviour depends on their inputs only through a
finite abstraction (orderings, header strings, table lookups).  The checker
enumerates that abstraction exhaustively up to a stated bound and interprets
the function body over each abstract input; pyimpspec itself is never imported
or executed.  Anything outside the subset raises AnalysisError (exit 2) — the
interpreter never guesses.

Calls are resolved through an explicit table of stubs given by the checker
(plus a few total builtins); attribute calls on str/list/dict/tuple values use
Python's own methods, whose semantics are the object language's."""
from __future__ import annotations

import ast
import operator
from typing import Any, Callable, Dict, List, Optional

from .core import AnalysisError, norm


class InterpRaise(Exception):
    """The interpreted program raises `kind` (class name)."""

    def __init__(self, kind: str, message: str = "", node: Optional[ast.AST] = None):
        super().__init__(f"{kind}: {message}")
        self.kind = kind
        self.message = message
        self.node = node


class _Break(Exception):
    pass


class _Continue(Exception):
    pass


class _Return(Exception):
    def __init__(self, value):
        self.value = value


class ExcValue:
    """An exception object constructed by the interpreted program."""

    def __init__(self, kind: str, args):
        self.kind = kind
        self.args = args


SAFE_BUILTINS: Dict[str, Callable] = {
    "len": len, "range": range, "list": list, "tuple": tuple, "dict": dict, "set": set, "zip": zip, "map": map, "filter": filter,
    "enumerate": enumerate, "sorted": sorted, "reversed": reversed, "min": min, "max": max, "sum": sum, "abs": abs, "any": any, "all": all,
    "str": str, "int": int, "float": float, "bool": bool, "isinstance": isinstance, "type": type, "repr": repr, "round": round,
    "OrderedDict": dict, "complex": complex, "slice": slice, "iter": iter, "next": lambda it, *d: _next(it, *d), "issubclass": issubclass, "hasattr": hasattr, "getattr": getattr,
    "frozenset": frozenset, "divmod": divmod, "pow": pow, "print": (lambda *a, **k: None),
}
EXC_NAMES = {"ValueError", "TypeError", "KeyError", "IndexError", "NotImplementedError", "RuntimeError", "AssertionError", "Exception",
             "UnsupportedFileFormat", "ZeroDivisionError", "AttributeError", "StopIteration", "NameError"}

BINOPS = {ast.Add: operator.add, ast.Sub: operator.sub, ast.Mult: operator.mul, ast.Div: operator.truediv, ast.FloorDiv: operator.floordiv,
          ast.Mod: operator.mod, ast.Pow: operator.pow, ast.BitAnd: operator.and_, ast.BitOr: operator.or_}
CMPOPS = {ast.Eq: operator.eq, ast.NotEq: operator.ne, ast.Lt: operator.lt, ast.LtE: operator.le, ast.Gt: operator.gt, ast.GtE: operator.ge,
          ast.Is: operator.is_, ast.IsNot: operator.is_not, ast.In: lambda a, b: a in b, ast.NotIn: lambda a, b: a not in b}


class Mini:
    def __init__(self, stubs: Optional[Dict[str, Any]] = None, max_steps: int = 200000):
        self.stubs = dict(SAFE_BUILTINS)
        self.stubs.update(stubs or {})
        self.max_steps = max_steps
        self.steps = 0

    # ------------------------------------------------------------------ driver
    def call_function(self, fn: ast.FunctionDef, args: Dict[str, Any]) -> Any:
        env: Dict[str, Any] = {}
        params = [a.arg for a in fn.args.posonlyargs + fn.args.args + fn.args.kwonlyargs]
        defaults = fn.args.defaults
        for a, d in zip(fn.args.args[len(fn.args.args) - len(defaults):], defaults):
            env[a.arg] = self.ev(d, {})
        for a, d in zip(fn.args.kwonlyargs, fn.args.kw_defaults):
            if d is not None:
                env[a.arg] = self.ev(d, {})
        extra_names = {a.arg for a in (fn.args.vararg, fn.args.kwarg) if a is not None}
        for k, v in args.items():
            if k not in params and k not in extra_names:
                raise AnalysisError(f"miniinterp: {fn.name} has no parameter {k}")
            env[k] = v
        if fn.args.vararg is not None:
            env.setdefault(fn.args.vararg.arg, ())
        if fn.args.kwarg is not None:
            env.setdefault(fn.args.kwarg.arg, {})
        missing = [p for p in params if p not in env]
        if missing:
            raise AnalysisError(f"miniinterp: {fn.name}: parameters {missing} not supplied")
        gen = _is_generator(fn)
        if gen:
            env["__yields__"] = []
        try:
            self.block(fn.body, env)
        except _Return as r:
            return _GenList(env["__yields__"]) if gen else r.value
        return _GenList(env["__yields__"]) if gen else None

    def call_bound(self, fn: ast.FunctionDef, self_obj: Any, args, kwargs, level: int = 0) -> Any:
        params = [a.arg for a in fn.args.args]
        is_static = any(isinstance(d, ast.Name) and d.id == "staticmethod" for d in fn.decorator_list)
        bound: Dict[str, Any] = {} if is_static else {params[0]: self_obj}
        rest = params if is_static else params[1:]
        extra_pos = list(args[len(rest):])
        for p_, v in zip(rest, args):
            bound[p_] = v
        kw = dict(kwargs)
        if fn.args.vararg is not None:
            bound[fn.args.vararg.arg] = tuple(extra_pos)
        named = set(params) | {a.arg for a in fn.args.kwonlyargs}
        if fn.args.kwarg is not None:
            bound[fn.args.kwarg.arg] = {k: v for k, v in kw.items() if k not in named}
            kw = {k: v for k, v in kw.items() if k in named}
        bound.update(kw)
        self._frames = getattr(self, "_frames", [])
        self._frames.append((self_obj, level))
        try:
            return self.call_function(fn, bound)
        finally:
            self._frames.pop()

    def tick(self, node):
        self.steps += 1
        if self.steps > self.max_steps:
            raise AnalysisError(f"miniinterp: step budget exhausted at line {getattr(node, 'lineno', '?')} (non-terminating on an abstract input?)")

    # ------------------------------------------------------------------ statements
    def block(self, stmts: List[ast.stmt], env: Dict[str, Any]) -> None:
        for s in stmts:
            self.stmt(s, env)

    def assign(self, target: ast.AST, value: Any, env: Dict[str, Any]) -> None:
        if isinstance(target, ast.Name):
            nl = env.get("__nonlocal__")
            if nl and target.id in nl:
                nl[target.id][target.id] = value
            else:
                env[target.id] = value
        elif isinstance(target, (ast.Tuple, ast.List)):
            vals = list(value)
            if len(vals) != len(target.elts):
                raise InterpRaise("ValueError", "unpack", target)
            for t, v in zip(target.elts, vals):
                self.assign(t, v, env)
        elif isinstance(target, ast.Subscript):
            obj = self.ev(target.value, env)
            key = self.slice_of(target.slice, env)
            try:
                obj[key] = value
            except (IndexError, KeyError, TypeError) as e:
                raise InterpRaise(type(e).__name__, str(e), target)
        elif isinstance(target, ast.Attribute):
            setattr(self.ev(target.value, env), target.attr, value)
        else:
            raise AnalysisError(f"miniinterp: assignment target {norm(target)} not supported")

    def stmt(self, s: ast.stmt, env: Dict[str, Any]) -> None:
        self.tick(s)
        if isinstance(s, ast.Assign):
            v = self.ev(s.value, env)
            for t in s.targets:
                self.assign(t, v, env)
        elif isinstance(s, ast.AnnAssign):
            if s.value is not None:
                self.assign(s.target, self.ev(s.value, env), env)
        elif isinstance(s, ast.AugAssign):
            cur = self.ev(ast.copy_location(_load(s.target), s.target), env)
            op = BINOPS.get(type(s.op))
            if op is None:
                raise AnalysisError(f"miniinterp: operator in {norm(s)} not supported")
            self.assign(s.target, self.binop(op, cur, self.ev(s.value, env), s), env)
        elif isinstance(s, ast.Expr):
            self.ev(s.value, env)
        elif isinstance(s, ast.If):
            self.block(s.body if self.truth(self.ev(s.test, env)) else s.orelse, env)
        elif isinstance(s, ast.While):
            broke = False
            while self.truth(self.ev(s.test, env)):
                self.tick(s)
                try:
                    self.block(s.body, env)
                except _Break:
                    broke = True
                    break
                except _Continue:
                    continue
            if not broke:
                self.block(s.orelse, env)
        elif isinstance(s, ast.For):
            broke = False
            for item in self.iterate(self.ev(s.iter, env), s):
                self.tick(s)
                self.assign(s.target, item, env)
                try:
                    self.block(s.body, env)
                except _Break:
                    broke = True
                    break
                except _Continue:
                    continue
            if not broke:
                self.block(s.orelse, env)
        elif isinstance(s, ast.Break):
            raise _Break()
        elif isinstance(s, ast.Continue):
            raise _Continue()
        elif isinstance(s, ast.Return):
            raise _Return(self.ev(s.value, env) if s.value is not None else None)
        elif isinstance(s, ast.Pass):
            return
        elif isinstance(s, ast.Raise):
            if s.exc is None:
                raise InterpRaise("<reraise>", "", s)
            e = self.ev(s.exc, env)
            if isinstance(e, ExcValue):
                raise InterpRaise(e.kind, " ".join(str(a) for a in e.args)[:200], s)
            raise AnalysisError(f"miniinterp: raise of {norm(s.exc)} not understood")
        elif isinstance(s, (ast.Import, ast.ImportFrom)):
            for a in s.names:
                nm = a.asname or a.name.split(".")[0]
                if nm in self.stubs:
                    env.setdefault(nm, self.stubs[nm])
                elif nm in EXC_NAMES:
                    pass
                else:
                    env.setdefault(nm, _Unbound(nm))
        elif isinstance(s, ast.Try):
            try:
                self.block(s.body, env)
            except InterpRaise as e:
                for h in s.handlers:
                    names = [] if h.type is None else ([norm(x) for x in h.type.elts] if isinstance(h.type, ast.Tuple) else [norm(h.type)])
                    if h.type is None or e.kind in names or "Exception" in names:
                        if h.name:
                            env[h.name] = ExcValue(e.kind, (e.message,))
                        self.block(h.body, env)
                        break
                else:
                    self.block(s.finalbody, env)
                    raise
            else:
                self.block(s.orelse, env)
            self.block(s.finalbody, env)
        elif isinstance(s, ast.FunctionDef):
            env[s.name] = self.closure(s, env)
        elif isinstance(s, ast.Global):
            return
        elif isinstance(s, ast.Nonlocal):
            # reads and writes of these names go to the environment the function was defined in
            outer = env.get("__outer__")
            if outer is None:
                raise AnalysisError("miniinterp: nonlocal outside a nested function")
            nl = env.setdefault("__nonlocal__", {})
            for nm in s.names:
                o = outer
                while nm not in o and o.get("__outer__") is not None:
                    o = o["__outer__"]
                nl[nm] = o
                env.pop(nm, None)
        elif isinstance(s, ast.Delete):
            for t in s.targets:
                if isinstance(t, ast.Subscript):
                    obj = self.ev(t.value, env)
                    try:
                        del obj[self.slice_of(t.slice, env)]
                    except (KeyError, IndexError) as ex:
                        raise InterpRaise(type(ex).__name__, str(ex), s)
                elif isinstance(t, ast.Name):
                    env.pop(t.id, None)
                else:
                    raise AnalysisError(f"miniinterp: del {norm(t)} not supported")
        elif isinstance(s, ast.With):
            # context managers: the body runs once; __enter__/__exit__ of stub objects are honoured when present
            entered = []
            for item in s.items:
                cm = self.ev(item.context_expr, env)
                val = cm.__enter__() if hasattr(cm, "__enter__") else cm
                entered.append(cm)
                if item.optional_vars is not None:
                    self.assign(item.optional_vars, val, env)
            try:
                self.block(s.body, env)
            finally:
                for cm in reversed(entered):
                    if hasattr(cm, "__exit__"):
                        cm.__exit__(None, None, None)
        elif isinstance(s, ast.Assert):
            if not self.truth(self.ev(s.test, env)):
                raise InterpRaise("AssertionError", "", s)
        else:
            raise AnalysisError(f"miniinterp: statement {type(s).__name__} at line {s.lineno} not supported")

    # ------------------------------------------------------------------ expressions
    def truth(self, v: Any) -> bool:
        try:
            return bool(v)
        except Exception:
            raise AnalysisError("miniinterp: truth value of an abstract object")

    def iterate(self, v: Any, node):
        if isinstance(v, _Unbound):
            raise AnalysisError(f"miniinterp: iteration over unbound {v.name}")
        try:
            return iter(v)
        except TypeError as e:
            raise InterpRaise("TypeError", str(e), node)

    def binop(self, op, a, b, node):
        try:
            return op(a, b)
        except ZeroDivisionError as e:
            raise InterpRaise("ZeroDivisionError", str(e), node)
        except TypeError as e:
            raise InterpRaise("TypeError", str(e), node)

    def slice_of(self, sl: ast.AST, env):
        if isinstance(sl, ast.Slice):
            return slice(self.ev(sl.lower, env) if sl.lower else None, self.ev(sl.upper, env) if sl.upper else None, self.ev(sl.step, env) if sl.step else None)
        if isinstance(sl, ast.Tuple):
            return tuple(self.slice_of(e, env) for e in sl.elts)
        return self.ev(sl, env)

    def closure(self, fn, env):
        interp = self

        def f(*args, **kwargs):
            local = dict(env)
            names = [a.arg for a in fn.args.args]
            if isinstance(fn, ast.Lambda):
                for n_, v in zip(names, args):
                    local[n_] = v
                return interp.ev(fn.body, local)
            bound = {}
            defaults = fn.args.defaults
            for a_, d_ in zip(fn.args.args[len(fn.args.args) - len(defaults):], defaults):
                bound[a_.arg] = interp.ev(d_, dict(env))
            for a_, d_ in zip(fn.args.kwonlyargs, fn.args.kw_defaults):
                if d_ is not None:
                    bound[a_.arg] = interp.ev(d_, dict(env))
            bound.update(zip(names, args))
            if fn.args.vararg is not None:
                bound[fn.args.vararg.arg] = tuple(args[len(names):])
            known = set(names) | {a_.arg for a_ in fn.args.kwonlyargs}
            if fn.args.kwarg is not None:
                bound[fn.args.kwarg.arg] = {k: v for k, v in kwargs.items() if k not in known}
                bound.update({k: v for k, v in kwargs.items() if k in known})
            else:
                bound.update(kwargs)
            sub = dict(env)
            sub.pop("__nonlocal__", None)
            sub["__outer__"] = env
            gen = _is_generator(fn)
            if gen:
                sub["__yields__"] = []
            else:
                sub.pop("__yields__", None)
            try:
                sub.update(bound)
                interp.block(fn.body, sub)
            except _Return as r:
                return _GenList(sub["__yields__"]) if gen else r.value
            return _GenList(sub["__yields__"]) if gen else None
        return f

    def ev(self, e: ast.AST, env: Dict[str, Any]) -> Any:
        self.tick(e)
        if isinstance(e, ast.Constant):
            return e.value
        if isinstance(e, ast.Name):
            nl = env.get("__nonlocal__")
            if nl and e.id in nl and e.id in nl[e.id]:
                return nl[e.id][e.id]
            if e.id in env:
                v = env[e.id]
                if isinstance(v, _Unbound):
                    raise AnalysisError(f"miniinterp: name {e.id} has no stub")
                return v
            if e.id in self.stubs:
                return self.stubs[e.id]
            if e.id in EXC_NAMES:
                kind = e.id
                return lambda *a, **k: ExcValue(kind, a)
            if e.id in ("True", "False", "None"):
                return {"True": True, "False": False, "None": None}[e.id]
            raise AnalysisError(f"miniinterp: unbound name {e.id} at line {getattr(e, 'lineno', '?')}")
        if isinstance(e, ast.BinOp):
            op = BINOPS.get(type(e.op))
            if op is None:
                raise AnalysisError(f"miniinterp: operator in {norm(e)} not supported")
            return self.binop(op, self.ev(e.left, env), self.ev(e.right, env), e)
        if isinstance(e, ast.UnaryOp):
            v = self.ev(e.operand, env)
            if isinstance(e.op, ast.Not):
                return not self.truth(v)
            if isinstance(e.op, ast.USub):
                return -v
            if isinstance(e.op, ast.UAdd):
                return +v
            if isinstance(e.op, ast.Invert):
                try:
                    return ~v
                except TypeError as ex:
                    raise InterpRaise("TypeError", str(ex), e)
            raise AnalysisError(f"miniinterp: unary operator in {norm(e)}")
        if isinstance(e, ast.BoolOp):
            if isinstance(e.op, ast.And):
                v = True
                for x in e.values:
                    v = self.ev(x, env)
                    if not self.truth(v):
                        return v
                return v
            v = False
            for x in e.values:
                v = self.ev(x, env)
                if self.truth(v):
                    return v
            return v
        if isinstance(e, ast.Compare):
            left = self.ev(e.left, env)
            if len(e.ops) == 1:
                # a single comparison returns whatever the operands' comparison returns (arrays compare entry-wise)
                try:
                    return CMPOPS[type(e.ops[0])](left, self.ev(e.comparators[0], env))
                except TypeError as ex:
                    raise InterpRaise("TypeError", str(ex), e)
            for op, c in zip(e.ops, e.comparators):
                right = self.ev(c, env)
                f = CMPOPS.get(type(op))
                try:
                    ok = f(left, right)
                except TypeError as ex:
                    raise InterpRaise("TypeError", str(ex), e)
                if not self.truth(ok):
                    return False
                left = right
            return True
        if isinstance(e, ast.IfExp):
            return self.ev(e.body if self.truth(self.ev(e.test, env)) else e.orelse, env)
        if isinstance(e, (ast.Yield, ast.YieldFrom)):
            # generator functions are run eagerly: the yielded values are collected and handed out as a finite sequence
            if "__yields__" not in env:
                raise AnalysisError("miniinterp: yield outside a function")
            if isinstance(e, ast.Yield):
                env["__yields__"].append(self.ev(e.value, env) if e.value is not None else None)
            else:
                env["__yields__"].extend(self.iterate(self.ev(e.value, env), e))
            return None
        if isinstance(e, ast.Subscript):
            obj = self.ev(e.value, env)
            key = self.slice_of(e.slice, env)
            try:
                return obj[key]
            except IndexError as ex:
                raise InterpRaise("IndexError", str(ex), e)
            except KeyError as ex:
                raise InterpRaise("KeyError", str(ex), e)
            except TypeError as ex:
                raise InterpRaise("TypeError", str(ex), e)
        if isinstance(e, ast.Attribute):
            obj = self.ev(e.value, env)
            if isinstance(obj, _Unbound):
                raise AnalysisError(f"miniinterp: attribute of unbound {obj.name}")
            try:
                import sympy as _sp
                if isinstance(obj, _sp.Basic) and e.attr in ("real", "imag"):
                    return _sp.re(obj) if e.attr == "real" else _sp.im(obj)
            except ImportError:  # pragma: no cover
                pass
            try:
                return getattr(obj, e.attr)
            except AttributeError as ex:
                if isinstance(obj, Obj):
                    # the checker's stand-in lacks the attribute: a gap of the model, not a fact about the repository
                    raise AnalysisError(f"miniinterp: the stand-in object has no attribute {e.attr} (line {getattr(e, 'lineno', '?')})")
                raise InterpRaise("AttributeError", str(ex), e)
        if isinstance(e, ast.Call) and isinstance(e.func, ast.Name) and e.func.id == "super" and not e.args and getattr(self, "_frames", None):
            so, lvl = self._frames[-1]
            if isinstance(so, Obj):
                return _Super(so, lvl)
        if isinstance(e, ast.Call):
            f = self.ev(e.func, env)
            args: List[Any] = []
            for a in e.args:
                if isinstance(a, ast.Starred):
                    args.extend(self.iterate(self.ev(a.value, env), a))
                else:
                    args.append(self.ev(a, env))
            kwargs = {}
            for k in e.keywords:
                if k.arg is None:
                    kwargs.update(self.ev(k.value, env))
                else:
                    kwargs[k.arg] = self.ev(k.value, env)
            if not callable(f):
                raise AnalysisError(f"miniinterp: call of non-callable {norm(e.func)}")
            try:
                return f(*args, **kwargs)
            except (InterpRaise, AnalysisError, _Return, _Break, _Continue):
                raise
            except IndexError as ex:
                raise InterpRaise("IndexError", str(ex), e)
            except KeyError as ex:
                raise InterpRaise("KeyError", str(ex), e)
            except ValueError as ex:
                raise InterpRaise("ValueError", str(ex), e)
            except TypeError as ex:
                raise InterpRaise("TypeError", str(ex), e)
            except ZeroDivisionError as ex:
                raise InterpRaise("ZeroDivisionError", str(ex), e)
            except AttributeError as ex:
                raise InterpRaise("AttributeError", str(ex), e)
            except StopIteration as ex:
                raise InterpRaise("StopIteration", str(ex), e)
            except NameError as ex:
                raise InterpRaise("NameError", str(ex), e)
        if isinstance(e, (ast.List, ast.Tuple, ast.Set)):
            out: List[Any] = []
            for x in e.elts:
                if isinstance(x, ast.Starred):
                    out.extend(self.iterate(self.ev(x.value, env), x))
                else:
                    out.append(self.ev(x, env))
            return out if isinstance(e, ast.List) else (tuple(out) if isinstance(e, ast.Tuple) else set(out))
        if isinstance(e, ast.Dict):
            d = {}
            for k, v in zip(e.keys, e.values):
                if k is None:
                    d.update(self.ev(v, env))
                else:
                    d[self.ev(k, env)] = self.ev(v, env)
            return d
        if isinstance(e, (ast.ListComp, ast.SetComp, ast.GeneratorExp, ast.DictComp)):
            res: List[Any] = []

            def gen(i: int, loc: Dict[str, Any]):
                if i == len(e.generators):
                    if isinstance(e, ast.DictComp):
                        res.append((self.ev(e.key, loc), self.ev(e.value, loc)))
                    else:
                        res.append(self.ev(e.elt, loc))
                    return
                g = e.generators[i]
                for item in self.iterate(self.ev(g.iter, loc), g):
                    self.tick(g)
                    l2 = dict(loc)
                    self.assign(g.target, item, l2)
                    if all(self.truth(self.ev(c, l2)) for c in g.ifs):
                        gen(i + 1, l2)
            gen(0, dict(env))
            if isinstance(e, ast.DictComp):
                return dict(res)
            if isinstance(e, ast.SetComp):
                return set(res)
            if isinstance(e, ast.GeneratorExp):
                return _GenList(res)
            return res
        if isinstance(e, ast.JoinedStr):
            parts = []
            for v in e.values:
                if isinstance(v, ast.Constant):
                    parts.append(str(v.value))
                elif isinstance(v, ast.FormattedValue):
                    val = self.ev(v.value, env)
                    if v.format_spec is not None:
                        spec = self.ev(v.format_spec, env)
                        try:
                            parts.append(format(val, spec))
                        except Exception:
                            parts.append(str(val))
                    else:
                        parts.append(repr(val) if v.conversion == 114 else str(val))
            return "".join(parts)
        if isinstance(e, ast.Lambda):
            return self.closure(e, env)
        if isinstance(e, ast.Starred):
            raise AnalysisError("miniinterp: starred expression outside a call/list")
        raise AnalysisError(f"miniinterp: expression {type(e).__name__} ({norm(e)[:60]}) not supported")


def module_globals(tree: ast.Module, stubs: Optional[Dict[str, Any]] = None) -> Dict[str, Any]:
    """Names a function of this module may use: its module-level constants (those that evaluate in the subset) and its
    module-level functions (as interpreted closures).  Checker stubs take precedence."""
    interp = Mini(stubs)
    env: Dict[str, Any] = {}
    for st in tree.body:
        try:
            if isinstance(st, (ast.Assign, ast.AnnAssign)) and st.value is not None:
                t = st.targets[0] if isinstance(st, ast.Assign) else st.target
                if isinstance(t, ast.Name):
                    env[t.id] = interp.ev(st.value, env)
            elif isinstance(st, ast.FunctionDef):
                env[st.name] = interp.closure(st, env)
        except (AnalysisError, InterpRaise, Exception):
            continue
    out = dict(env)
    out.update(stubs or {})
    # the interpreted module-level functions captured `env` by reference: they must see the stubs as well
    env.update(stubs or {})
    return out


class Obj:
    """An object of a repository class: attributes are given by the checker, methods are interpreted from their AST.
    `methods` is one dictionary name → FunctionDef, or a list of such dictionaries in method-resolution order (own class
    first); super() inside a method continues the look-up after the class that defines the running method."""

    def __init__(self, interp: "Mini", methods, attrs: Dict[str, Any]):
        object.__setattr__(self, "_mi_interp", interp)
        object.__setattr__(self, "_mi_mro", methods if isinstance(methods, list) else [methods])
        for k, v in attrs.items():
            object.__setattr__(self, k, v)

    def _mi_find(self, name, start=0):
        mro = object.__getattribute__(self, "_mi_mro")
        for lvl in range(start, len(mro)):
            if name in mro[lvl]:
                return mro[lvl][name], lvl
        return None, None

    def __getattr__(self, name):
        if name.startswith("_mi_"):
            raise AttributeError(name)
        fn, lvl = self._mi_find(name)
        if fn is not None:
            interp = object.__getattribute__(self, "_mi_interp")
            return lambda *a, **k: interp.call_bound(fn, self, a, k, level=lvl)
        raise AttributeError(name)


class _Super:
    def __init__(self, obj: Obj, level: int):
        self._obj, self._level = obj, level

    def __getattribute__(self, name):
        if name in ("_obj", "_level", "__class__", "__dict__"):
            return object.__getattribute__(self, name)
        fn, lvl = self._obj._mi_find(name, self._level + 1)
        if fn is None:
            if name == "__init__":
                return lambda *a, **k: None
            raise AttributeError(name)
        interp = object.__getattribute__(self._obj, "_mi_interp")
        return lambda *a, **k: interp.call_bound(fn, self._obj, a, k, level=lvl)


def _is_generator(fn) -> bool:
    stack = list(getattr(fn, "body", []))
    while stack:
        n = stack.pop()
        if isinstance(n, (ast.Yield, ast.YieldFrom)):
            return True
        if isinstance(n, (ast.FunctionDef, ast.Lambda, ast.ClassDef)):
            continue
        stack.extend(ast.iter_child_nodes(n))
    return False


class _GenList(list):
    """The items of a generator expression (evaluated eagerly); next() consumes from the front."""


def _next(it, *default):
    if isinstance(it, _GenList):
        if it:
            return it.pop(0)
        if default:
            return default[0]
        raise StopIteration
    return next(it, *default)


class _Unbound:
    def __init__(self, name: str):
        self.name = name


def _load(target: ast.AST) -> ast.AST:
    import copy
    t = copy.copy(target)
    if hasattr(t, "ctx"):
        t.ctx = ast.Load()
    return t


class SymArray:
    """A one-dimensional array of symbolic entries with numpy's entry-wise arithmetic, integer/slice indexing and slice
    assignment — enough to interpret small array kernels (difference weights, cumulative sums) exactly for a given length."""

    def __init__(self, items):
        self.items = list(items)

    @property
    def size(self):
        return len(self.items)

    @property
    def shape(self):
        return (len(self.items),)

    def __len__(self):
        return len(self.items)

    def __iter__(self):
        return iter(self.items)

    def __getitem__(self, k):
        if isinstance(k, slice):
            return SymArray(self.items[k])
        return self.items[k]

    def __setitem__(self, k, v):
        if isinstance(k, slice):
            idx = list(range(len(self.items)))[k]
            vals = list(v) if isinstance(v, (SymArray, list, tuple)) else [v] * len(idx)
            if len(vals) != len(idx):
                raise ValueError(f"could not broadcast input array from shape ({len(vals)},) into shape ({len(idx)},)")
            for i, x in zip(idx, vals):
                self.items[i] = x
        else:
            self.items[k] = v

    def _bin(self, other, f):
        if isinstance(other, (SymArray, list, tuple)):
            o = list(other)
            if len(o) != len(self.items):
                raise ValueError(f"operands could not be broadcast together with shapes ({len(self.items)},) ({len(o)},)")
            return SymArray(f(a, b) for a, b in zip(self.items, o))
        return SymArray(f(a, other) for a in self.items)

    def __add__(self, o): return self._bin(o, lambda a, b: a + b)
    def __radd__(self, o): return self._bin(o, lambda a, b: b + a)
    def __sub__(self, o): return self._bin(o, lambda a, b: a - b)
    def __rsub__(self, o): return self._bin(o, lambda a, b: b - a)
    def __mul__(self, o): return self._bin(o, lambda a, b: a * b)
    def __rmul__(self, o): return self._bin(o, lambda a, b: b * a)
    def __truediv__(self, o): return self._bin(o, lambda a, b: a / b)
    def __rtruediv__(self, o): return self._bin(o, lambda a, b: b / a)
    def __pow__(self, o): return self._bin(o, lambda a, b: a ** b)
    def __neg__(self): return SymArray(-a for a in self.items)
    def copy(self): return SymArray(self.items)
    def astype(self, *_a, **_k): return SymArray(self.items)
