"""Driver: python3-vt -m sa.run <ID> [--tier quick|thorough] [--repo PATH] [--replay FILE]"""
from __future__ import annotations

import argparse
import importlib
import os
import sys
from pathlib import Path

from .core import run_check


def main(argv=None) -> int:
    ap = argparse.ArgumentParser()
    ap.add_argument("prop")
    ap.add_argument("--tier", default=os.environ.get("VERIF_TIER") or "quick", choices=["quick", "thorough"])
    ap.add_argument("--repo", default=None)
    ap.add_argument("--replay", default=None)
    ap.add_argument("--evidence", default=None, help="write evidence to this path instead of evidence/<ID>.json")
    args = ap.parse_args(argv)
    prop = args.prop.upper()
    try:
        mod = importlib.import_module(f"sa.checks.{prop.lower()}")
    except ImportError as e:
        print(f"ANALYSIS-ERROR property={prop} no check module: {e}")
        return 2
    ev = Path(args.evidence) if args.evidence else None
    return run_check(prop, mod.check, mod.LEVEL, args.tier, args.repo, args.replay, ev)


if __name__ == "__main__":
    sys.stdout.reconfigure(line_buffering=True)
    try:
        rc = main()
    except SystemExit as e:
        rc = int(e.code or 0)
    except BaseException:
        import traceback
        print("ANALYSIS-ERROR internal exception in driver")
        traceback.print_exc()
        rc = 2
    sys.stdout.flush()
    os._exit(rc)
