"""Engine D (part): inter-procedural reachability with constant-parameter
propagation, and explicit raise-site enumeration with guards."""
from __future__ import annotations

import ast
from dataclasses import dataclass, field
from typing import Any, Dict, Iterable, List, Optional, Set, Tuple

from .cfg import dominating_conditions, flatten_conditions
from .core import AnalysisError, dotted, enclosing, norm, parent, walk_ordered
from .model import FuncInfo, Model

UNKNOWN = object()
BUILTIN_EXC = {
    "Exception", "ValueError", "TypeError", "KeyError", "IndexError", "AttributeError", "NotImplementedError",
    "RuntimeError", "OverflowError", "ZeroDivisionError", "RecursionError", "AssertionError", "StopIteration",
    "ArithmeticError", "LookupError", "OSError", "FileNotFoundError", "ImportError", "NameError",
}
BUILTIN_BASES = {
    "KeyError": "LookupError", "IndexError": "LookupError", "OverflowError": "ArithmeticError",
    "ZeroDivisionError": "ArithmeticError", "NotImplementedError": "RuntimeError", "RecursionError": "RuntimeError",
    "FileNotFoundError": "OSError",
}


def exc_is(model: Model, module: str, name: str, base: str) -> bool:
    """Is exception class `name` (as written in `module`) a subclass of `base`
    (a builtin name or 'pyimpspec.exceptions:Class')?"""
    r = model.resolve(module, name)
    if r and r[0] == "class":
        for c in model.mro(r[1]):
            if c == base or c == f"ext:{base}" or c.split(":")[-1] == base:
                return True
        return False
    n = name
    while n:
        if n == base:
            return True
        n = BUILTIN_BASES.get(n, "Exception" if n != "Exception" and n in BUILTIN_EXC else "")
    return False


def exc_name(node: Optional[ast.AST]) -> str:
    if node is None:
        return "<reraise>"
    if isinstance(node, ast.Call):
        return dotted(node.func)
    return dotted(node)


@dataclass
class RaiseSite:
    fi: FuncInfo
    node: ast.Raise
    exc: str
    guards: List[str]

    @property
    def key(self) -> str:
        g = self.guards[0] if self.guards else "<unconditional>"
        return f"{self.fi.qual}:{self.exc}:{g}"


class Reach:
    """Reachability from roots with constant parameters and branch pruning.

    const[q][param] is a Python constant when every reachable call of q binds
    that parameter to the same constant (or to its constant default)."""

    def __init__(self, model: Model, roots: Iterable[str], method_fallback_modules: Iterable[str] = (),
                 extra_edges: Optional[Dict[str, List[str]]] = None, root_consts: Optional[Dict[str, Dict[str, Any]]] = None):
        self.model = model
        self.fallback = set(method_fallback_modules)
        self.extra = extra_edges or {}
        self.const: Dict[str, Dict[str, Any]] = {r: dict((root_consts or {}).get(r, {})) for r in roots}
        self.reached: Set[str] = set()
        self.edges: Dict[str, Set[str]] = {}
        self.unresolved: Dict[str, List[str]] = {}
        self._by_method: Dict[str, List[str]] = {}
        self._ltypes: Dict[str, Dict[str, Tuple[str, bool]]] = {}
        for q, fi in model.funcs.items():
            if fi.cls and fi.module in self.fallback and "." in fi.qual and fi.qual.count(".") == 1:
                self._by_method.setdefault(fi.node.name, []).append(q)
        work = list(roots)
        self._bindings: Dict[str, List[Dict[str, Any]]] = {}
        for r in roots:
            self._bindings[r] = [dict((root_consts or {}).get(r, {}))]
        # iterate to a fixpoint (constants can only be lost)
        changed = True
        rounds = 0
        while changed and rounds < 10:
            rounds += 1
            changed = False
            self.reached = set()
            self.edges = {}
            self.unresolved = {}
            newb: Dict[str, List[Dict[str, Any]]] = {r: list(self._bindings[r]) for r in roots}
            stack = list(roots)
            while stack:
                q = stack.pop()
                if q in self.reached or q not in model.funcs:
                    continue
                self.reached.add(q)
                fi = model.funcs[q]
                consts = self.const.get(q, {})
                for call in self.live_calls(fi):
                    for callee in self.targets(fi, call):
                        self.edges.setdefault(q, set()).add(callee)
                        if callee in model.funcs:
                            newb.setdefault(callee, []).append(self._bind(fi, call, model.funcs[callee], consts))
                            stack.append(callee)
                for callee in self.extra.get(q, []):
                    self.edges.setdefault(q, set()).add(callee)
                    newb.setdefault(callee, []).append({})
                    stack.append(callee)
            newc: Dict[str, Dict[str, Any]] = {}
            for q, bl in newb.items():
                merged: Dict[str, Any] = {}
                keys = set().union(*[set(b) for b in bl]) if bl else set()
                for k in keys:
                    vals = [b.get(k, UNKNOWN) for b in bl]
                    if all(v is not UNKNOWN and v == vals[0] and type(v) is type(vals[0]) for v in vals):
                        merged[k] = vals[0]
                newc[q] = merged
            if newc != self.const:
                changed = True
                self.const = newc

    # -- helpers ------------------------------------------------------------
    def _bind(self, caller: FuncInfo, call: ast.Call, callee: FuncInfo, consts: Dict[str, Any]) -> Dict[str, Any]:
        a = callee.node.args
        names = [x.arg for x in a.posonlyargs + a.args]
        if callee.cls and names and names[0] in ("self", "cls"):
            names = names[1:]
        out: Dict[str, Any] = {}
        defaults = dict(zip(names[len(names) - len(a.defaults):], a.defaults))
        for kw, d in zip(a.kwonlyargs, a.kw_defaults):
            if d is not None:
                defaults[kw.arg] = d
        given: Dict[str, ast.AST] = {}
        if any(isinstance(x, ast.Starred) for x in call.args) or any(k.arg is None for k in call.keywords):
            return {}
        for n, v in zip(names, call.args):
            given[n] = v
        for k in call.keywords:
            given[k.arg] = k.value
        for n in names + [k.arg for k in a.kwonlyargs]:
            node = given.get(n, defaults.get(n))
            if node is None:
                continue
            if isinstance(node, ast.Constant):
                out[n] = node.value
            elif isinstance(node, ast.UnaryOp) and isinstance(node.op, ast.USub) and isinstance(node.operand, ast.Constant):
                out[n] = -node.operand.value
            elif isinstance(node, ast.Name) and node.id in consts and n in given:
                out[n] = consts[node.id]
        return out

    def local_types(self, fi: FuncInfo) -> Dict[str, Tuple[str, bool]]:
        """name -> (class qname, is_type_object) from annotations and constructor assignments."""
        if fi.qname in self._ltypes:
            return self._ltypes[fi.qname]
        out: Dict[str, Tuple[str, bool]] = {}

        def ann(node) -> Optional[Tuple[str, bool]]:
            if isinstance(node, ast.Constant) and isinstance(node.value, str):
                try:
                    node = ast.parse(node.value, mode="eval").body
                except SyntaxError:
                    return None
            if isinstance(node, ast.Name):
                r = self.model.resolve(fi.module, node.id)
                if r and r[0] == "class":
                    return r[1], False
                return None
            if isinstance(node, ast.Subscript) and isinstance(node.value, ast.Name):
                if node.value.id == "Optional":
                    return ann(node.slice)
                if node.value.id == "Type":
                    inner = ann(node.slice)
                    return (inner[0], True) if inner else None
            return None

        a = fi.node.args
        for arg in a.posonlyargs + a.args + a.kwonlyargs:
            if arg.annotation is not None:
                t = ann(arg.annotation)
                if t:
                    out[arg.arg] = t
        conflicts: Set[str] = set()
        for n in walk_ordered(fi.node):
            t = None
            name = None
            if isinstance(n, ast.AnnAssign) and isinstance(n.target, ast.Name):
                name, t = n.target.id, ann(n.annotation)
            elif isinstance(n, ast.Assign) and len(n.targets) == 1 and isinstance(n.targets[0], ast.Name) \
                    and isinstance(n.value, ast.Call) and isinstance(n.value.func, ast.Name):
                name = n.targets[0].id
                r = self.model.resolve(fi.module, n.value.func.id)
                if r and r[0] == "class":
                    t = (r[1], False)
                elif n.value.func.id in out and out[n.value.func.id][1]:
                    t = (out[n.value.func.id][0], False)
            if name and t:
                if name in out and out[name] != t:
                    conflicts.add(name)
                out[name] = t
        for c in conflicts:
            out.pop(c, None)
        self._ltypes[fi.qname] = out
        return out

    CONTAINER_METHODS = {"append", "extend", "insert", "remove", "pop", "clear", "index", "count", "copy", "update",
                         "keys", "values", "items", "get", "reverse", "sort", "join", "strip", "find", "startswith",
                         "endswith", "upper", "lower", "split", "replace", "format", "setdefault", "add"}

    def targets(self, fi: FuncInfo, call: ast.Call) -> List[str]:
        c = self.model.resolve_call(fi, call)
        if c is not None:
            return [c]
        f = call.func
        lt = self.local_types(fi)
        if isinstance(f, ast.Name) and f.id in lt and lt[f.id][1]:
            # calling a Type[X] value constructs X or a subclass: every __init__ in the hierarchy
            base = lt[f.id][0]
            outs = []
            for cq in [base] + self.model.subclasses(base):
                ci = self.model.classes.get(cq)
                if ci and "__init__" in ci.methods:
                    outs.append(ci.methods["__init__"].qname)
            return outs
        if isinstance(f, ast.Attribute) and isinstance(f.value, ast.Name) and f.value.id in lt:
            cq, is_type = lt[f.value.id]
            m = self.model.find_method(cq, f.attr)
            if m is not None:
                return [m.qname]
        if isinstance(f, ast.Attribute) and f.attr in self.CONTAINER_METHODS:
            self.unresolved.setdefault(fi.qname, []).append(dotted(f))
            return []
        if isinstance(f, ast.Attribute) and f.attr in self._by_method:
            # receiver of unknown type: every method of that name in the fallback modules
            if isinstance(f.value, ast.Name) and self.model.resolve(fi.module, f.value.id) and \
                    self.model.resolve(fi.module, f.value.id)[0] in ("ext", "module"):
                return []
            return list(self._by_method[f.attr])
        self.unresolved.setdefault(fi.qname, []).append(dotted(f))
        return []

    def decide(self, fi: FuncInfo, test: ast.AST) -> Optional[bool]:
        consts = self.const.get(fi.qname, {})
        # a parameter re-assigned before the test (or anywhere, if the test sits in a loop) is not constant
        return _decide(test, consts, _assigned_names(fi.node, before=test))

    def live(self, fi: FuncInfo) -> List[ast.AST]:
        """Nodes of the function in source order, skipping branches pruned by
        constant parameters, nested function bodies excluded (lambdas included)."""
        out: List[ast.AST] = []

        def visit(n: ast.AST):
            if isinstance(n, ast.If):
                d = self.decide(fi, n.test)
                out.append(n)
                visit_expr(n.test)
                if d is not False:
                    for s in n.body:
                        visit(s)
                if d is not True:
                    for s in n.orelse:
                        visit(s)
                return
            if isinstance(n, (ast.FunctionDef, ast.AsyncFunctionDef, ast.ClassDef)) and n is not fi.node:
                return
            out.append(n)
            for ch in ast.iter_child_nodes(n):
                visit(ch)

        def visit_expr(n: ast.AST):
            out.append(n)
            for ch in ast.iter_child_nodes(n):
                visit_expr(ch)

        for s in fi.node.body:
            visit(s)
        return out

    def live_calls(self, fi: FuncInfo) -> List[ast.Call]:
        return [n for n in self.live(fi) if isinstance(n, ast.Call)]

    def raise_sites(self) -> List[RaiseSite]:
        sites: List[RaiseSite] = []
        for q in sorted(self.reached):
            fi = self.model.funcs[q]
            for n in self.live(fi):
                if isinstance(n, ast.Raise):
                    conds = flatten_conditions(dominating_conditions(n))
                    guards = [(norm(c) if pol else f"not ({norm(c)})") for c, pol in conds]
                    sites.append(RaiseSite(fi, n, exc_name(n.exc), guards))
        return sites

    def cycles(self) -> List[List[str]]:
        import networkx as nx
        g = nx.DiGraph()
        for a, bs in self.edges.items():
            for b in bs:
                if b in self.model.funcs:
                    g.add_edge(a, b)
        return [sorted(c) for c in nx.strongly_connected_components(g) if len(c) > 1 or any(g.has_edge(x, x) for x in c)]


def _assigned_names(fn: ast.AST, before: Optional[ast.AST] = None) -> Set[str]:
    out: Set[str] = set()
    limit = None
    if before is not None and enclosing(before, (ast.For, ast.While)) is None:
        limit = (before.lineno, before.col_offset)
    for n in walk_ordered(fn):
        if limit is not None and hasattr(n, "lineno") and (n.lineno, n.col_offset) >= limit:
            continue
        if isinstance(n, ast.Assign):
            for t in n.targets:
                for x in ast.walk(t):
                    if isinstance(x, ast.Name):
                        out.add(x.id)
        elif isinstance(n, (ast.AugAssign, ast.AnnAssign)) and n is not fn:
            if isinstance(n.target, ast.Name) and (not isinstance(n, ast.AnnAssign) or n.value is not None):
                out.add(n.target.id)
        elif isinstance(n, (ast.For,)):
            for x in ast.walk(n.target):
                if isinstance(x, ast.Name):
                    out.add(x.id)
    return out


def _decide(test: ast.AST, consts: Dict[str, Any], assigned: Set[str]) -> Optional[bool]:
    def val(n):
        if isinstance(n, ast.Constant):
            return n.value
        if isinstance(n, ast.UnaryOp) and isinstance(n.op, ast.USub):
            v = val(n.operand)
            return -v if v is not UNKNOWN else UNKNOWN
        if isinstance(n, ast.Name) and n.id in consts and n.id not in assigned:
            return consts[n.id]
        return UNKNOWN

    if isinstance(test, ast.Compare) and len(test.ops) == 1:
        a, b = val(test.left), val(test.comparators[0])
        if a is UNKNOWN or b is UNKNOWN:
            return None
        op = test.ops[0]
        try:
            if isinstance(op, ast.Eq):
                return a == b
            if isinstance(op, ast.NotEq):
                return a != b
            if isinstance(op, ast.Lt):
                return a < b
            if isinstance(op, ast.LtE):
                return a <= b
            if isinstance(op, ast.Gt):
                return a > b
            if isinstance(op, ast.GtE):
                return a >= b
            if isinstance(op, ast.Is):
                return a is b
            if isinstance(op, ast.IsNot):
                return a is not b
        except TypeError:
            return None
        return None
    if isinstance(test, ast.UnaryOp) and isinstance(test.op, ast.Not):
        d = _decide(test.operand, consts, assigned)
        return None if d is None else not d
    if isinstance(test, ast.BoolOp):
        ds = [_decide(v, consts, assigned) for v in test.values]
        if isinstance(test.op, ast.And):
            if any(d is False for d in ds):
                return False
            return True if all(d is True for d in ds) else None
        if any(d is True for d in ds):
            return True
        return False if all(d is False for d in ds) else None
    v = val(test)
    if v is not UNKNOWN and isinstance(v, (bool, int, str, type(None))):
        return bool(v)
    return None


def handlers_enclosing(node: ast.AST) -> List[List[str]]:
    """Exception type names caught by try statements enclosing `node` (only
    when node is in the try body), innermost first."""
    out: List[List[str]] = []
    cur = node
    p = parent(cur)
    while p is not None and not isinstance(p, (ast.FunctionDef, ast.AsyncFunctionDef, ast.Lambda)):
        if isinstance(p, ast.Try) and any(cur is s for s in p.body):
            names: List[str] = []
            for h in p.handlers:
                if h.type is None:
                    names.append("BaseException")
                elif isinstance(h.type, ast.Tuple):
                    names += [dotted(e) for e in h.type.elts]
                else:
                    names.append(dotted(h.type))
            out.append(names)
        cur, p = p, parent(p)
    return out
