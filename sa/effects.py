"""Engine D (part): inter-procedural reachability with constant-parameter
propagation, and explicit raise-site enumeration with guards."""
from __future__ import annotations

import ast
from dataclasses import dataclass, field
from typing import Any, Dict, Iterable, List, Optional, Set, Tuple

from .cfg import always_exits,  dominating_conditions, flatten_conditions
from .core import AnalysisError, dotted, enclosing, norm, parent, walk_ordered
from .model import FuncInfo, Model

UNKNOWN = object()
BUILTIN_EXC = {
    "Exception", "ValueError", "TypeError", "KeyError", "IndexError", "AttributeError", "NotImplementedError",
    "RuntimeError", "OverflowError", "ZeroDivisionError", "RecursionError", "AssertionError", "StopIteration",
    "ArithmeticError", "LookupError", "OSError", "FileNotFoundError", "ImportError", "NameError",
}
BUILTIN_BASES = {
    "KeyError": "LookupError", "IndexError": "LookupError", "OverflowError": "ArithmeticError",
    "ZeroDivisionError": "ArithmeticError", "NotImplementedError": "RuntimeError", "RecursionError": "RuntimeError",
    "FileNotFoundError": "OSError",
}


def exc_is(model: Model, module: str, name: str, base: str) -> bool:
    """Is exception class `name` (as written in `module`) a subclass of `base`
    (a builtin name or 'pyimpspec.exceptions:Class')?"""
    r = model.resolve(module, name)
    if r and r[0] == "class":
        for c in model.mro(r[1]):
            if c == base or c == f"ext:{base}" or c.split(":")[-1] == base:
                return True
        return False
    n = name
    while n:
        if n == base:
            return True
        n = BUILTIN_BASES.get(n, "Exception" if n != "Exception" and n in BUILTIN_EXC else "")
    return False


def exc_name(node: Optional[ast.AST]) -> str:
    if node is None:
        return "<reraise>"
    if isinstance(node, ast.Call):
        return dotted(node.func)
    return dotted(node)


@dataclass
class RaiseSite:
    fi: FuncInfo
    node: ast.Raise
    exc: str
    guards: List[str]

    @property
    def key(self) -> str:
        g = self.guards[0] if self.guards else "<unconditional>"
        return f"{self.fi.qual}:{self.exc}:{g}"


class Reach:
    """Reachability from roots with constant parameters and branch pruning.

    const[q][param] is a Python constant when every reachable call of q binds
    that parameter to the same constant (or to its constant default)."""

    def __init__(self, model: Model, roots: Iterable[str], method_fallback_modules: Iterable[str] = (),
                 extra_edges: Optional[Dict[str, List[str]]] = None, root_consts: Optional[Dict[str, Dict[str, Any]]] = None):
        self.model = model
        self.fallback = set(method_fallback_modules)
        self.extra = extra_edges or {}
        self.const: Dict[str, Dict[str, Any]] = {r: dict((root_consts or {}).get(r, {})) for r in roots}
        self.reached: Set[str] = set()
        self.edges: Dict[str, Set[str]] = {}
        self.unresolved: Dict[str, List[str]] = {}
        self._by_method: Dict[str, List[str]] = {}
        self._ltypes: Dict[str, Dict[str, Tuple[str, bool]]] = {}
        for q, fi in model.funcs.items():
            if fi.cls and fi.module in self.fallback and "." in fi.qual and fi.qual.count(".") == 1:
                self._by_method.setdefault(fi.node.name, []).append(q)
        work = list(roots)
        self._bindings: Dict[str, List[Dict[str, Any]]] = {}
        for r in roots:
            self._bindings[r] = [dict((root_consts or {}).get(r, {}))]
        # iterate to a fixpoint (constants can only be lost)
        changed = True
        rounds = 0
        while changed and rounds < 10:
            rounds += 1
            changed = False
            self.reached = set()
            self.edges = {}
            self.unresolved = {}
            newb: Dict[str, List[Dict[str, Any]]] = {r: list(self._bindings[r]) for r in roots}
            stack = list(roots)
            while stack:
                q = stack.pop()
                if q in self.reached or q not in model.funcs:
                    continue
                self.reached.add(q)
                fi = model.funcs[q]
                consts = self.const.get(q, {})
                for call in self.live_calls(fi):
                    for callee in self.targets(fi, call):
                        self.edges.setdefault(q, set()).add(callee)
                        if callee in model.funcs:
                            newb.setdefault(callee, []).append(self._bind(fi, call, model.funcs[callee], consts))
                            stack.append(callee)
                for callee in self.extra.get(q, []):
                    self.edges.setdefault(q, set()).add(callee)
                    newb.setdefault(callee, []).append({})
                    stack.append(callee)
            newc: Dict[str, Dict[str, Any]] = {}
            for q, bl in newb.items():
                merged: Dict[str, Any] = {}
                keys = set().union(*[set(b) for b in bl]) if bl else set()
                for k in keys:
                    vals = [b.get(k, UNKNOWN) for b in bl]
                    if all(v is not UNKNOWN and v == vals[0] and type(v) is type(vals[0]) for v in vals):
                        merged[k] = vals[0]
                newc[q] = merged
            if newc != self.const:
                changed = True
                self.const = newc

    # -- helpers ------------------------------------------------------------
    def _bind(self, caller: FuncInfo, call: ast.Call, callee: FuncInfo, consts: Dict[str, Any]) -> Dict[str, Any]:
        a = callee.node.args
        names = [x.arg for x in a.posonlyargs + a.args]
        if callee.cls and names and names[0] in ("self", "cls"):
            names = names[1:]
        out: Dict[str, Any] = {}
        defaults = dict(zip(names[len(names) - len(a.defaults):], a.defaults))
        for kw, d in zip(a.kwonlyargs, a.kw_defaults):
            if d is not None:
                defaults[kw.arg] = d
        given: Dict[str, ast.AST] = {}
        if a.vararg is not None and not any(isinstance(x, ast.Starred) for x in call.args) and len(call.args) <= len(names):
            out[a.vararg.arg] = ()  # no surplus positional argument at this call: *args is the empty tuple
        if any(isinstance(x, ast.Starred) for x in call.args) or any(k.arg is None for k in call.keywords):
            return out
        for n, v in zip(names, call.args):
            given[n] = v
        for k in call.keywords:
            given[k.arg] = k.value
        for n in names + [k.arg for k in a.kwonlyargs]:
            node = given.get(n, defaults.get(n))
            if node is None:
                continue
            if isinstance(node, ast.Constant):
                out[n] = node.value
            elif isinstance(node, ast.UnaryOp) and isinstance(node.op, ast.USub) and isinstance(node.operand, ast.Constant):
                out[n] = -node.operand.value
            elif isinstance(node, ast.Name) and node.id in consts and n in given:
                out[n] = consts[node.id]
        return out

    def local_types(self, fi: FuncInfo) -> Dict[str, Tuple[str, bool]]:
        """name -> (class qname, is_type_object) from annotations and constructor assignments."""
        if fi.qname in self._ltypes:
            return self._ltypes[fi.qname]
        out: Dict[str, Tuple[str, bool]] = {}

        def ann(node) -> Optional[Tuple[str, bool]]:
            if isinstance(node, ast.Constant) and isinstance(node.value, str):
                try:
                    node = ast.parse(node.value, mode="eval").body
                except SyntaxError:
                    return None
            if isinstance(node, ast.Name):
                r = self.model.resolve(fi.module, node.id)
                if r and r[0] == "class":
                    return r[1], False
                return None
            if isinstance(node, ast.Subscript) and isinstance(node.value, ast.Name):
                if node.value.id == "Optional":
                    return ann(node.slice)
                if node.value.id == "Type":
                    inner = ann(node.slice)
                    return (inner[0], True) if inner else None
            return None

        a = fi.node.args
        for arg in a.posonlyargs + a.args + a.kwonlyargs:
            if arg.annotation is not None:
                t = ann(arg.annotation)
                if t:
                    out[arg.arg] = t
        conflicts: Set[str] = set()
        for n in walk_ordered(fi.node):
            t = None
            name = None
            if isinstance(n, ast.AnnAssign) and isinstance(n.target, ast.Name):
                name, t = n.target.id, ann(n.annotation)
            elif isinstance(n, ast.Assign) and len(n.targets) == 1 and isinstance(n.targets[0], ast.Name) \
                    and isinstance(n.value, ast.Call) and isinstance(n.value.func, ast.Name):
                name = n.targets[0].id
                r = self.model.resolve(fi.module, n.value.func.id)
                if r and r[0] == "class":
                    t = (r[1], False)
                elif n.value.func.id in out and out[n.value.func.id][1]:
                    t = (out[n.value.func.id][0], False)
            if name and t:
                if name in out and out[name] != t:
                    conflicts.add(name)
                out[name] = t
        for c in conflicts:
            out.pop(c, None)
        self._ltypes[fi.qname] = out
        return out

    CONTAINER_METHODS = {"append", "extend", "insert", "remove", "pop", "clear", "index", "count", "copy", "update",
                         "keys", "values", "items", "get", "reverse", "sort", "join", "strip", "find", "startswith",
                         "endswith", "upper", "lower", "split", "replace", "format", "setdefault", "add"}

    def targets(self, fi: FuncInfo, call: ast.Call) -> List[str]:
        c = self.model.resolve_call(fi, call)
        if c is not None:
            return [c]
        f = call.func
        lt = self.local_types(fi)
        if isinstance(f, ast.Name) and f.id in lt and lt[f.id][1]:
            # calling a Type[X] value constructs X or a subclass: every __init__ in the hierarchy
            base = lt[f.id][0]
            outs = []
            for cq in [base] + self.model.subclasses(base):
                ci = self.model.classes.get(cq)
                if ci and "__init__" in ci.methods:
                    outs.append(ci.methods["__init__"].qname)
            return outs
        if isinstance(f, ast.Attribute) and isinstance(f.value, ast.Name) and f.value.id in lt:
            cq, is_type = lt[f.value.id]
            m = self.model.find_method(cq, f.attr)
            if m is not None:
                return [m.qname]
        if isinstance(f, ast.Attribute) and f.attr in self.CONTAINER_METHODS:
            self.unresolved.setdefault(fi.qname, []).append(dotted(f))
            return []
        if isinstance(f, ast.Attribute) and f.attr in self._by_method:
            # receiver of unknown type: every method of that name in the fallback modules
            if isinstance(f.value, ast.Name) and self.model.resolve(fi.module, f.value.id) and \
                    self.model.resolve(fi.module, f.value.id)[0] in ("ext", "module"):
                return []
            return list(self._by_method[f.attr])
        self.unresolved.setdefault(fi.qname, []).append(dotted(f))
        return []

    def decide(self, fi: FuncInfo, test: ast.AST) -> Optional[bool]:
        consts = self.const.get(fi.qname, {})
        # a parameter re-assigned before the test (or anywhere, if the test sits in a loop) is not constant
        return _decide(test, consts, _assigned_names(fi.node, before=test))

    def live(self, fi: FuncInfo) -> List[ast.AST]:
        """Nodes of the function in source order, skipping branches pruned by
        constant parameters, nested function bodies excluded (lambdas included)."""
        out: List[ast.AST] = []

        def visit_block(stmts):
            # statements after a branch that is always taken (by the constant parameters) and always exits are dead
            for s in stmts:
                visit(s)
                if isinstance(s, ast.If):
                    d = self.decide(fi, s.test)
                    if (d is True and always_exits(s.body)) or (d is False and always_exits(s.orelse)):
                        break

        def visit(n: ast.AST):
            if isinstance(n, ast.If):
                d = self.decide(fi, n.test)
                out.append(n)
                visit_expr(n.test)
                if d is not False:
                    visit_block(n.body)
                if d is not True:
                    visit_block(n.orelse)
                return
            if isinstance(n, (ast.FunctionDef, ast.AsyncFunctionDef, ast.ClassDef)) and n is not fi.node:
                return
            out.append(n)
            for ch in ast.iter_child_nodes(n):
                visit(ch)

        def visit_expr(n: ast.AST):
            out.append(n)
            for ch in ast.iter_child_nodes(n):
                visit_expr(ch)

        visit_block(fi.node.body)
        return out

    def live_calls(self, fi: FuncInfo) -> List[ast.Call]:
        return [n for n in self.live(fi) if isinstance(n, ast.Call)]

    def raise_sites(self) -> List[RaiseSite]:
        sites: List[RaiseSite] = []
        for q in sorted(self.reached):
            fi = self.model.funcs[q]
            for n in self.live(fi):
                if isinstance(n, ast.Raise):
                    conds = flatten_conditions(dominating_conditions(n))
                    guards = [(norm(c) if pol else f"not ({norm(c)})") for c, pol in conds]
                    sites.append(RaiseSite(fi, n, exc_name(n.exc), guards))
        return sites

    def cycles(self) -> List[List[str]]:
        import networkx as nx
        g = nx.DiGraph()
        for a, bs in self.edges.items():
            for b in bs:
                if b in self.model.funcs:
                    g.add_edge(a, b)
        return [sorted(c) for c in nx.strongly_connected_components(g) if len(c) > 1 or any(g.has_edge(x, x) for x in c)]


def _assigned_names(fn: ast.AST, before: Optional[ast.AST] = None) -> Set[str]:
    out: Set[str] = set()
    limit = None
    if before is not None and enclosing(before, (ast.For, ast.While)) is None:
        limit = (before.lineno, before.col_offset)
    for n in walk_ordered(fn):
        if limit is not None and hasattr(n, "lineno") and (n.lineno, n.col_offset) >= limit:
            continue
        if isinstance(n, ast.Assign):
            for t in n.targets:
                for x in ast.walk(t):
                    if isinstance(x, ast.Name):
                        out.add(x.id)
        elif isinstance(n, (ast.AugAssign, ast.AnnAssign)) and n is not fn:
            if isinstance(n.target, ast.Name) and (not isinstance(n, ast.AnnAssign) or n.value is not None):
                out.add(n.target.id)
        elif isinstance(n, (ast.For,)):
            for x in ast.walk(n.target):
                if isinstance(x, ast.Name):
                    out.add(x.id)
    return out


def _decide(test: ast.AST, consts: Dict[str, Any], assigned: Set[str]) -> Optional[bool]:
    def val(n):
        if isinstance(n, ast.Constant):
            return n.value
        if isinstance(n, ast.UnaryOp) and isinstance(n.op, ast.USub):
            v = val(n.operand)
            return -v if v is not UNKNOWN else UNKNOWN
        if isinstance(n, ast.Name) and n.id in consts and n.id not in assigned:
            return consts[n.id]
        return UNKNOWN

    if isinstance(test, ast.Compare) and len(test.ops) == 1:
        a, b = val(test.left), val(test.comparators[0])
        if a is UNKNOWN or b is UNKNOWN:
            return None
        op = test.ops[0]
        try:
            if isinstance(op, ast.Eq):
                return a == b
            if isinstance(op, ast.NotEq):
                return a != b
            if isinstance(op, ast.Lt):
                return a < b
            if isinstance(op, ast.LtE):
                return a <= b
            if isinstance(op, ast.Gt):
                return a > b
            if isinstance(op, ast.GtE):
                return a >= b
            if isinstance(op, ast.Is):
                return a is b
            if isinstance(op, ast.IsNot):
                return a is not b
        except TypeError:
            return None
        return None
    if isinstance(test, ast.UnaryOp) and isinstance(test.op, ast.Not):
        d = _decide(test.operand, consts, assigned)
        return None if d is None else not d
    if isinstance(test, ast.BoolOp):
        ds = [_decide(v, consts, assigned) for v in test.values]
        if isinstance(test.op, ast.And):
            if any(d is False for d in ds):
                return False
            return True if all(d is True for d in ds) else None
        if any(d is True for d in ds):
            return True
        return False if all(d is False for d in ds) else None
    v = val(test)
    if v is not UNKNOWN and isinstance(v, (bool, int, str, type(None), tuple)):
        return bool(v)
    return None


def handlers_enclosing(node: ast.AST) -> List[List[str]]:
    """Exception type names caught by try statements enclosing `node` (only
    when node is in the try body), innermost first."""
    out: List[List[str]] = []
    cur = node
    p = parent(cur)
    while p is not None and not isinstance(p, (ast.FunctionDef, ast.AsyncFunctionDef, ast.Lambda)):
        if isinstance(p, ast.Try) and any(cur is s for s in p.body):
            names: List[str] = []
            for h in p.handlers:
                if h.type is None:
                    names.append("BaseException")
                elif isinstance(h.type, ast.Tuple):
                    names += [dotted(e) for e in h.type.elts]
                else:
                    names.append(dotted(h.type))
            out.append(names)
        cur, p = p, parent(p)
    return out


# ---------------------------------------------------------------------------
# Mutation of caller-owned parameters (flow-sensitive on block structure)
# ---------------------------------------------------------------------------

MUTATING_METHODS = {"append", "extend", "insert", "remove", "pop", "clear", "update", "sort", "reverse", "setdefault",
                    "popitem", "add", "discard", "fill", "resize", "put", "itemset"}
FRESH_CALLS = {"dict", "list", "set", "tuple", "array", "deepcopy", "copy", "sorted", "OrderedDict", "flip", "asarray",
               "zeros", "ones", "full", "_cast_to_floating_array", "_cast_to_complex_array"}


def _is_fresh_value(v: ast.AST, name: str) -> bool:
    if isinstance(v, (ast.Dict, ast.List, ast.Set, ast.Tuple, ast.DictComp, ast.ListComp, ast.SetComp, ast.Constant, ast.JoinedStr)):
        return True
    if isinstance(v, ast.Call):
        f = v.func
        if isinstance(f, ast.Attribute) and f.attr in ("copy", "__copy__", "__deepcopy__", "tolist", "astype"):
            return True
        if isinstance(f, ast.Name) and f.id in FRESH_CALLS:
            return True
        return False
    if isinstance(v, ast.BinOp):
        return True  # arithmetic creates a new object
    return False


@dataclass
class Mutation:
    node: ast.AST
    how: str


def param_mutations(fn: ast.FunctionDef, param: str, callee_mutates=None) -> List[Mutation]:
    """Statements that may mutate the object the caller passed as `param`.
    callee_mutates(call_node, arg_index_or_kw) -> bool lets the caller plug in
    inter-procedural knowledge."""
    out: List[Mutation] = []

    def expr_mutations(e: ast.AST, fresh: bool):
        if fresh:
            return
        for n in walk_ordered(e):
            if isinstance(n, ast.Call):
                f = n.func
                if isinstance(f, ast.Attribute) and isinstance(f.value, ast.Name) and f.value.id == param and f.attr in MUTATING_METHODS:
                    out.append(Mutation(n, f"{param}.{f.attr}(…)"))
                if callee_mutates is not None:
                    for i, a in enumerate(n.args):
                        if isinstance(a, ast.Name) and a.id == param and callee_mutates(n, i):
                            out.append(Mutation(n, f"passes {param} to {dotted(f)}, which mutates it"))
                    for k in n.keywords:
                        if isinstance(k.value, ast.Name) and k.value.id == param and callee_mutates(n, k.arg):
                            out.append(Mutation(n, f"passes {param} to {dotted(f)}, which mutates it"))

    def block(stmts: List[ast.stmt], fresh: bool) -> bool:
        for s in stmts:
            fresh = stmt(s, fresh)
        return fresh

    def stmt(s: ast.stmt, fresh: bool) -> bool:
        if isinstance(s, (ast.Assign, ast.AnnAssign, ast.AugAssign)):
            targets = s.targets if isinstance(s, ast.Assign) else [s.target]
            value = s.value
            if value is not None:
                expr_mutations(value, fresh)
            for t in targets:
                if isinstance(t, ast.Name) and t.id == param and not isinstance(s, ast.AugAssign) and value is not None:
                    was = fresh
                    fresh = _is_fresh_value(value, param)
                    if isinstance(value, ast.Call) and not fresh:
                        # result of an arbitrary call on the parameter: may alias it (p(dictionary) returning its
                        # argument) — then it is exactly as fresh as the parameter was
                        fresh = was if any(isinstance(a, ast.Name) and a.id == param for a in value.args) else True
                elif isinstance(t, ast.Subscript) and isinstance(t.value, ast.Name) and t.value.id == param and not fresh:
                    out.append(Mutation(s, f"{param}[…] = …"))
                elif isinstance(t, ast.Attribute) and isinstance(t.value, ast.Name) and t.value.id == param and not fresh:
                    out.append(Mutation(s, f"{param}.{t.attr} = …"))
                elif isinstance(s, ast.AugAssign) and isinstance(t, ast.Name) and t.id == param and not fresh:
                    out.append(Mutation(s, f"{param} {type(s.op).__name__}= … (in-place for mutable objects)"))
            return fresh
        if isinstance(s, ast.Delete):
            for t in s.targets:
                if isinstance(t, ast.Subscript) and isinstance(t.value, ast.Name) and t.value.id == param and not fresh:
                    out.append(Mutation(s, f"del {param}[…]"))
            return fresh
        if isinstance(s, ast.If):
            expr_mutations(s.test, fresh)
            a = block(s.body, fresh)
            b = block(s.orelse, fresh)
            from .cfg import always_exits
            if always_exits(s.body):
                return b
            if s.orelse and always_exits(s.orelse):
                return a
            return a and b
        if isinstance(s, (ast.For, ast.While)):
            if isinstance(s, ast.For):
                expr_mutations(s.iter, fresh)
            else:
                expr_mutations(s.test, fresh)
            a = block(s.body, fresh)
            block(s.orelse, fresh and a)
            return fresh and a
        if isinstance(s, ast.With):
            for it in s.items:
                expr_mutations(it.context_expr, fresh)
            return block(s.body, fresh)
        if isinstance(s, ast.Try):
            a = block(s.body, fresh)
            for h in s.handlers:
                a = block(h.body, fresh) and a
            a = block(s.orelse, a)
            return block(s.finalbody, a)
        if isinstance(s, (ast.FunctionDef, ast.AsyncFunctionDef, ast.ClassDef)):
            return fresh
        for ch in ast.iter_child_nodes(s):
            if isinstance(ch, ast.expr):
                expr_mutations(ch, fresh)
        return fresh

    block(fn.body, False)
    return out


from .core import AnalysisError as _AE, dotted as _dotted, norm as _norm, walk_ordered as _wo


def stateless_rule(ctx, model, rid: str, modules, floor: int, what: str, allowed=None) -> None:
    """No function of the given modules reads or writes a module-level mutable container or carries a memoising
    decorator: results are functions of the call's arguments (a cache keyed on less than all inputs, or one whose
    entries are mutated in place, would hand one call the state of another)."""
    n = 0
    for mod in modules:
        m = ctx.repo.modules[mod]
        mutable = {}
        for st in m.tree.body:
            if isinstance(st, (ast.Assign, ast.AnnAssign)) and st.value is not None:
                t = st.targets[0] if isinstance(st, ast.Assign) else st.target
                if isinstance(t, ast.Name) and (isinstance(st.value, (ast.Dict, ast.List, ast.Set, ast.DictComp, ast.ListComp, ast.SetComp))
                                                or (isinstance(st.value, ast.Call) and _dotted(st.value.func).split(".")[-1] in ("dict", "list", "set", "defaultdict", "OrderedDict", "WeakKeyDictionary", "WeakValueDictionary"))):
                    mutable[t.id] = st
        # a module-level container is state only if something in the module mutates it; tables that are only read are constants
        MUT = {"append", "extend", "insert", "pop", "remove", "clear", "update", "setdefault", "popitem", "add", "discard", "sort", "reverse", "__setitem__", "appendleft", "popleft"}
        written = set()
        for x in walk_ordered(m.tree, into_functions=True):
            if isinstance(x, ast.Subscript) and isinstance(x.ctx, (ast.Store, ast.Del)) and isinstance(x.value, ast.Name):
                written.add(x.value.id)
            elif isinstance(x, ast.Call) and isinstance(x.func, ast.Attribute) and x.func.attr in MUT and isinstance(x.func.value, ast.Name):
                written.add(x.func.value.id)
            elif isinstance(x, ast.Global):
                written.update(x.names)
            elif isinstance(x, ast.AugAssign) and isinstance(x.target, ast.Name):
                written.add(x.target.id)
        for name in list(mutable):
            if name not in written:
                del mutable[name]
        for name in list(mutable):
            if allowed and (mod, name) in allowed:
                ctx.note(f"{mod}.{name}: module-level container exempt from the stateless rule — {allowed[(mod, name)]}")
                del mutable[name]
        for q, fi in sorted(model.funcs.items()):
            if fi.module != mod:
                continue
            n += 1
            deco = [norm(d) for d in fi.node.decorator_list]
            bad = [d for d in deco if any(k in d for k in ("cache", "lru_cache", "memoize"))]
            glob = [x for x in walk_ordered(fi.node) if isinstance(x, ast.Global) and not (allowed and all((mod, nm) in allowed for nm in x.names))]
            local = {a.arg for a in fi.node.args.args + fi.node.args.kwonlyargs} | {x.id for x in walk_ordered(fi.node) if isinstance(x, ast.Name) and isinstance(x.ctx, ast.Store)}
            uses = [x for x in walk_ordered(fi.node) if isinstance(x, ast.Name) and x.id in mutable and x.id not in local]
            if bad or glob or uses:
                what_ = bad[0] if bad else (f"global {', '.join(glob[0].names)}" if glob else f"module-level container {uses[0].id}")
                ctx.instance(rid, f"{fi.qual}: stateless")
                ctx.violation(rid, f"{mod.split('.')[-1]}:{fi.qual}:module-state", mod, (uses[0] if uses else fi.node),
                              f"{fi.qual} depends on {what_}: {what}")
    ctx.instance(rid, f"{n} functions of {', '.join(m.split('.')[-1] for m in modules)} use no module-level mutable state or memoising decorator")
    if n < floor:
        raise _AE(f"stateless rule: only {n} functions inspected")
    ctx.ok()




ALIASING_CALLS = {"asarray", "asanyarray", "ascontiguousarray", "atleast_1d", "atleast_2d", "ravel", "squeeze", "reshape", "transpose", "view"}


def array_param_writes(fn: ast.FunctionDef) -> List[Tuple[str, ast.AST, str]]:
    """(parameter, statement, how) for every statement that writes into an array the caller passed: through the parameter
    itself or through a local alias of it (plain rebinding, numpy's non-copying conversions, views and slices).  A name
    re-bound to a fresh value (arithmetic, copy(), array(), zeros…) stops being an alias."""
    params = [a for a in fn.args.posonlyargs + fn.args.args + fn.args.kwonlyargs if a.annotation is not None and "NDArray" in norm(a.annotation)
              or (a.annotation is not None and any(t in norm(a.annotation) for t in ("ComplexImpedances", "Frequencies", "Impedances", "TimeConstants", "Gammas")))]
    alias: Dict[str, str] = {a.arg: a.arg for a in params}
    out: List[Tuple[str, ast.AST, str]] = []

    def root_of(e: ast.AST) -> Optional[str]:
        """The parameter an expression aliases (None: a fresh object or unknown)."""
        if isinstance(e, ast.Name):
            return alias.get(e.id)
        if isinstance(e, ast.Attribute) and e.attr in ("T", "real", "imag", "flat"):
            return root_of(e.value)
        if isinstance(e, ast.Subscript):
            if isinstance(e.slice, (ast.Slice,)) or (isinstance(e.slice, ast.Tuple) and any(isinstance(x, ast.Slice) for x in e.slice.elts)):
                return root_of(e.value)  # basic slicing gives a view
            return None
        if isinstance(e, ast.Call):
            f = e.func
            name = f.attr if isinstance(f, ast.Attribute) else (f.id if isinstance(f, ast.Name) else "")
            if name in ALIASING_CALLS:
                src = f.value if isinstance(f, ast.Attribute) and not isinstance(f.value, ast.Name) or (isinstance(f, ast.Attribute) and isinstance(f.value, ast.Name) and f.value.id in alias) else (e.args[0] if e.args else None)
                if isinstance(f, ast.Attribute) and isinstance(f.value, ast.Name) and f.value.id not in alias and e.args:
                    src = e.args[0]  # numpy.asarray(x)
                return root_of(src) if src is not None else None
            return None
        return None

    for s in walk_ordered(fn):
        if isinstance(s, (ast.Assign, ast.AnnAssign)) and getattr(s, "value", None) is not None:
            targets = s.targets if isinstance(s, ast.Assign) else [s.target]
            for t in targets:
                if isinstance(t, ast.Name):
                    r = root_of(s.value)
                    if r is not None:
                        alias[t.id] = r
                    else:
                        alias.pop(t.id, None)
                elif isinstance(t, ast.Subscript):
                    r = root_of(t.value)
                    if r is not None:
                        out.append((r, s, f"stores into {norm(t)[:40]}"))
                elif isinstance(t, ast.Attribute) and t.attr in ("real", "imag"):
                    r = root_of(t.value)
                    if r is not None:
                        out.append((r, s, f"stores into {norm(t)[:40]}"))
        elif isinstance(s, ast.AugAssign):
            t = s.target
            base = t.value if isinstance(t, (ast.Subscript, ast.Attribute)) else t
            r = root_of(base) if not isinstance(t, ast.Name) else alias.get(t.id)
            if r is not None:
                out.append((r, s, f"updates {norm(t)[:40]} in place"))
        elif isinstance(s, ast.Call) and isinstance(s.func, ast.Attribute) and s.func.attr in ("fill", "sort", "resize", "put", "partition", "itemset", "setfield"):
            r = root_of(s.func.value)
            if r is not None:
                out.append((r, s, f"calls {norm(s.func)[:40]}(…)"))
        if isinstance(s, ast.Call):
            for k in s.keywords:
                if k.arg == "out":
                    r = root_of(k.value)
                    if r is not None:
                        out.append((r, s, f"writes the result into {norm(k.value)[:30]} (out=)"))
    return out
