"""Engine B — statement-level CFG and structured guard analysis."""
from __future__ import annotations

import ast
from dataclasses import dataclass, field
from typing import Callable, Dict, Iterable, List, Optional, Set, Tuple

from .core import AnalysisError, parent, walk_ordered


@dataclass
class Node:
    id: int
    kind: str  # entry, exit, raise, stmt, test, loop, handler, join
    ast: Optional[ast.AST] = None

    def __hash__(self):
        return self.id


class CFG:
    """Control-flow graph of one function body.

    Nodes are simple statements, the tests of If/While, the header of For, and
    exception handlers.  Edges out of a test are labelled True/False.
    Exceptions: every statement inside a `try` body gets an edge to each of its
    handlers (conservative); explicit `raise` outside any matching try goes to
    the RAISE exit.  Implicit exceptions are not modelled (callers that need
    them use the effect engine)."""

    def __init__(self, fn: ast.AST, body: Optional[List[ast.stmt]] = None):
        self.fn = fn
        self.nodes: List[Node] = []
        self.succ: Dict[int, List[Tuple[int, Optional[bool]]]] = {}
        self.pred: Dict[int, List[int]] = {}
        self.entry = self._new("entry")
        self.exit = self._new("exit")
        self.raise_exit = self._new("raise")
        self._loop_stack: List[Tuple[int, List[int]]] = []  # (continue target, break sources)
        self._try_stack: List[List[int]] = []  # handler entry ids
        self.stmt_node: Dict[int, int] = {}  # id(ast stmt) -> node id
        body = body if body is not None else fn.body  # type: ignore[attr-defined]
        ends = self._block(body, [(self.entry.id, None)])
        for e, lab in ends:
            self._edge(e, self.exit.id, lab)

    def _new(self, kind: str, node: Optional[ast.AST] = None) -> Node:
        n = Node(len(self.nodes), kind, node)
        self.nodes.append(n)
        self.succ[n.id] = []
        self.pred[n.id] = []
        if node is not None:
            self.stmt_node[id(node)] = n.id
        return n

    def _edge(self, a: int, b: int, label: Optional[bool] = None) -> None:
        if (b, label) not in self.succ[a]:
            self.succ[a].append((b, label))
            self.pred[b].append(a)

    def _connect(self, froms: List[Tuple[int, Optional[bool]]], to: int) -> None:
        for a, lab in froms:
            self._edge(a, to, lab)

    def _exc_edges(self, nid: int) -> None:
        if self._try_stack:
            for h in self._try_stack[-1]:
                self._edge(nid, h, None)

    def _block(self, stmts: List[ast.stmt], froms):
        cur = froms
        for s in stmts:
            cur = self._stmt(s, cur)
        return cur

    def _stmt(self, s: ast.stmt, froms):
        if isinstance(s, ast.If):
            t = self._new("test", s)
            self._connect(froms, t.id)
            self._exc_edges(t.id)
            a = self._block(s.body, [(t.id, True)])
            b = self._block(s.orelse, [(t.id, False)]) if s.orelse else [(t.id, False)]
            return a + b
        if isinstance(s, ast.While):
            t = self._new("test", s)
            self._connect(froms, t.id)
            self._exc_edges(t.id)
            self._loop_stack.append((t.id, []))
            body_end = self._block(s.body, [(t.id, True)])
            self._connect(body_end, t.id)
            _, breaks = self._loop_stack.pop()
            is_true = isinstance(s.test, ast.Constant) and s.test.value is True
            out = [] if is_true else [(t.id, False)]
            if s.orelse:
                out = self._block(s.orelse, out)
            return out + [(b, None) for b in breaks]
        if isinstance(s, (ast.For, ast.AsyncFor)):
            t = self._new("loop", s)
            self._connect(froms, t.id)
            self._exc_edges(t.id)
            self._loop_stack.append((t.id, []))
            body_end = self._block(s.body, [(t.id, True)])
            self._connect(body_end, t.id)
            _, breaks = self._loop_stack.pop()
            out = [(t.id, False)]
            if s.orelse:
                out = self._block(s.orelse, out)
            return out + [(b, None) for b in breaks]
        if isinstance(s, (ast.With, ast.AsyncWith)):
            t = self._new("stmt", s)
            self._connect(froms, t.id)
            self._exc_edges(t.id)
            return self._block(s.body, [(t.id, None)])
        if isinstance(s, ast.Try):
            handlers = [self._new("handler", h) for h in s.handlers]
            fin = None
            self._try_stack.append([h.id for h in handlers])
            body_end = self._block(s.body, froms)
            self._try_stack.pop()
            if s.orelse:
                body_end = self._block(s.orelse, body_end)
            ends = list(body_end)
            for h, hn in zip(s.handlers, handlers):
                self._exc_edges(hn.id)
                ends += self._block(h.body, [(hn.id, None)])
            if s.finalbody:
                ends = self._block(s.finalbody, ends)
            return ends
        if isinstance(s, ast.Return):
            n = self._new("stmt", s)
            self._connect(froms, n.id)
            self._exc_edges(n.id)
            self._edge(n.id, self.exit.id)
            return []
        if isinstance(s, ast.Raise):
            n = self._new("stmt", s)
            self._connect(froms, n.id)
            if self._try_stack:
                self._exc_edges(n.id)
                # may also escape if no handler matches: conservative
                self._edge(n.id, self.raise_exit.id)
            else:
                self._edge(n.id, self.raise_exit.id)
            return []
        if isinstance(s, ast.Break):
            n = self._new("stmt", s)
            self._connect(froms, n.id)
            if not self._loop_stack:
                raise AnalysisError("break outside loop")
            self._loop_stack[-1][1].append(n.id)
            return []
        if isinstance(s, ast.Continue):
            n = self._new("stmt", s)
            self._connect(froms, n.id)
            if not self._loop_stack:
                raise AnalysisError("continue outside loop")
            self._edge(n.id, self._loop_stack[-1][0])
            return []
        if isinstance(s, (ast.FunctionDef, ast.AsyncFunctionDef, ast.ClassDef)):
            n = self._new("stmt", s)
            self._connect(froms, n.id)
            return [(n.id, None)]
        if isinstance(s, ast.Match):
            raise AnalysisError("match statement not supported by the CFG builder")
        n = self._new("stmt", s)
        self._connect(froms, n.id)
        self._exc_edges(n.id)
        return [(n.id, None)]

    # -- queries -----------------------------------------------------------
    def node_of(self, stmt: ast.AST) -> Node:
        nid = self.stmt_node.get(id(stmt))
        if nid is None:
            raise AnalysisError(f"statement at line {getattr(stmt, 'lineno', '?')} has no CFG node")
        return self.nodes[nid]

    def reachable_from(self, start: int, blocked: Set[int] = frozenset(), follow=None) -> Set[int]:
        seen: Set[int] = set()
        stack = [start]
        while stack:
            n = stack.pop()
            if n in seen or n in blocked:
                continue
            seen.add(n)
            for m, lab in self.succ[n]:
                if follow is not None and not follow(n, m, lab):
                    continue
                stack.append(m)
        return seen

    def must_pass(self, target: int, pred: Callable[[Node], bool], start: Optional[int] = None) -> bool:
        """Every path from start (default entry) to target passes through a
        node satisfying pred (target itself excluded)."""
        blocked = {n.id for n in self.nodes if n.id != target and pred(n)}
        start = self.entry.id if start is None else start
        if start in blocked:
            return True
        return target not in self.reachable_from(start, blocked)

    def stmts(self) -> Iterable[Node]:
        return [n for n in self.nodes if n.ast is not None]

    def returns(self) -> List[Node]:
        return [n for n in self.nodes if isinstance(n.ast, ast.Return)]

    def max_count(self, weight: Callable[[Node], int], start: Optional[int] = None,
                  ends: Optional[Set[int]] = None) -> int:
        """Maximum total weight over acyclic paths from start to any end;
        raises AnalysisError if a cycle with positive weight is reachable."""
        import networkx as nx
        g = nx.DiGraph()
        for n in self.nodes:
            g.add_node(n.id)
            for m, _ in self.succ[n.id]:
                g.add_edge(n.id, m)
        start = self.entry.id if start is None else start
        reach = self.reachable_from(start)
        sub = g.subgraph(reach)
        for comp in nx.strongly_connected_components(sub):
            if len(comp) > 1 or any(sub.has_edge(c, c) for c in comp):
                if any(weight(self.nodes[c]) for c in comp):
                    raise AnalysisError("weighted statement inside a loop: unbounded count")
        cond = nx.condensation(sub)
        order = list(nx.topological_sort(cond))
        best: Dict[int, int] = {}
        w = {c: sum(weight(self.nodes[m]) for m in cond.nodes[c]["members"]) for c in cond.nodes}
        mapping = cond.graph["mapping"]
        s = mapping[start]
        best[s] = w[s]
        for c in order:
            if c not in best:
                continue
            for d in cond.successors(c):
                best[d] = max(best.get(d, -1), best[c] + w[d])
        end_ids = ends if ends is not None else {self.exit.id, self.raise_exit.id}
        vals = [best[mapping[e]] for e in end_ids if e in reach and mapping[e] in best]
        return max(vals) if vals else 0


# ---------------------------------------------------------------------------
# Structured guard analysis (syntax-directed)
# ---------------------------------------------------------------------------

def always_exits(stmts: List[ast.stmt]) -> bool:
    """The block cannot complete normally (ends in raise/return/continue/break
    on every path)."""
    if not stmts:
        return False
    last = stmts[-1]
    if isinstance(last, (ast.Raise, ast.Return, ast.Continue, ast.Break)):
        return True
    if isinstance(last, ast.If):
        return bool(last.orelse) and always_exits(last.body) and always_exits(last.orelse)
    if isinstance(last, (ast.With,)):
        return always_exits(last.body)
    return False


def fallthrough_conditions(s: ast.If) -> List[Tuple[ast.expr, bool]]:
    """Conditions that hold whenever the if statement completes normally."""
    body_exits = always_exits(s.body)
    else_exits = bool(s.orelse) and always_exits(s.orelse)
    if body_exits and not else_exits:
        out = [(s.test, False)]
        if len(s.orelse) == 1 and isinstance(s.orelse[0], ast.If):
            out += fallthrough_conditions(s.orelse[0])
        return out
    if else_exits and not body_exits:
        return [(s.test, True)]
    return []


def block_of(stmt: ast.AST) -> Tuple[Optional[ast.AST], Optional[str], List[ast.stmt]]:
    p = parent(stmt)
    if p is None:
        return None, None, []
    for fld in ("body", "orelse", "finalbody", "handlers"):
        blk = getattr(p, fld, None)
        if isinstance(blk, list) and any(x is stmt for x in blk):
            return p, fld, blk
    return p, None, []


def stmt_of(node: ast.AST) -> ast.stmt:
    n = node
    while n is not None and not isinstance(n, ast.stmt):
        n = parent(n)
    if n is None:
        raise AnalysisError("expression outside a statement")
    return n


def dominating_conditions(node: ast.AST, stop: Optional[ast.AST] = None) -> List[Tuple[ast.expr, bool]]:
    """Conditions known to hold when `node` starts executing, derived from the
    block structure: enclosing if/while tests (with polarity), earlier sibling
    `if c: <always exits>` (→ not c), earlier `assert c`, and short-circuit
    position inside BoolOp / IfExp / comprehension conditions.
    `while` tests are reported as holding (true at the start of the iteration);
    the caller decides whether the body may invalidate them.
    Stops at the enclosing function (or at `stop`)."""
    out: List[Tuple[ast.expr, bool]] = []
    cur: ast.AST = node
    # expression-level short circuit
    while not isinstance(cur, ast.stmt):
        p = parent(cur)
        if p is None:
            break
        if isinstance(p, ast.BoolOp):
            idx = [i for i, v in enumerate(p.values) if v is cur]
            if idx:
                for v in p.values[: idx[0]]:
                    out.append((v, isinstance(p.op, ast.And)))
        elif isinstance(p, ast.IfExp):
            if cur is p.body:
                out.append((p.test, True))
            elif cur is p.orelse:
                out.append((p.test, False))
        elif isinstance(p, ast.comprehension):
            if cur in p.ifs:
                for v in p.ifs[: p.ifs.index(cur)]:
                    out.append((v, True))
        elif isinstance(p, (ast.ListComp, ast.SetComp, ast.GeneratorExp, ast.DictComp)):
            if not isinstance(cur, ast.comprehension):
                for g in p.generators:
                    for v in g.ifs:
                        out.append((v, True))
        cur = p
    while cur is not None and cur is not stop:
        if isinstance(cur, (ast.FunctionDef, ast.AsyncFunctionDef, ast.Lambda, ast.ClassDef, ast.Module)) and cur is not node:
            break
        p, fld, blk = block_of(cur)
        if p is None:
            break
        if blk and fld != "handlers":
            for s in blk:
                if s is cur:
                    break
                if isinstance(s, ast.If):
                    out.extend(fallthrough_conditions(s))
                elif isinstance(s, ast.Assert):
                    out.append((s.test, True))
        if isinstance(p, ast.If):
            if fld == "body":
                out.append((p.test, True))
            elif fld == "orelse":
                out.append((p.test, False))
        elif isinstance(p, ast.While):
            if fld == "body":
                out.append((p.test, True))
            elif fld == "orelse":
                out.append((p.test, False))
        cur = p
    return out


def flatten_conditions(conds: List[Tuple[ast.expr, bool]]) -> List[Tuple[ast.expr, bool]]:
    """Split conjunctions that hold / disjunctions that fail, strip `not`."""
    out: List[Tuple[ast.expr, bool]] = []
    work = list(conds)
    while work:
        e, pol = work.pop(0)
        if isinstance(e, ast.UnaryOp) and isinstance(e.op, ast.Not):
            work.insert(0, (e.operand, not pol))
        elif isinstance(e, ast.BoolOp) and isinstance(e.op, ast.And) and pol:
            work = [(v, True) for v in e.values] + work
        elif isinstance(e, ast.BoolOp) and isinstance(e.op, ast.Or) and not pol:
            work = [(v, False) for v in e.values] + work
        else:
            out.append((e, pol))
    return out


def own_expr(nd: Node) -> Optional[ast.AST]:
    """The part of the source evaluated AT this CFG node (not the bodies of compound statements)."""
    a = nd.ast
    if a is None:
        return None
    if isinstance(a, (ast.If, ast.While)):
        return a.test
    if isinstance(a, (ast.For, ast.AsyncFor)):
        return a.iter
    if isinstance(a, (ast.With, ast.AsyncWith)):
        return ast.Tuple(elts=[i.context_expr for i in a.items], ctx=ast.Load())
    if isinstance(a, ast.ExceptHandler):
        return a.type
    if isinstance(a, (ast.FunctionDef, ast.AsyncFunctionDef, ast.ClassDef)):
        return None
    return a


def returns_not_passing(fn: ast.AST, pred: Callable[[ast.AST], bool]) -> List[ast.AST]:
    """Return statements (and the implicit fall-off exit) reachable from the
    entry without first passing a statement satisfying pred(stmt_ast).
    Used for 'recomputed on every call' rules: a path that returns without the
    primary computation is a memoised / short-cut path."""
    cfg = CFG(fn)

    def p(nd: Node) -> bool:
        o = own_expr(nd)
        return o is not None and pred(o)

    bad: List[ast.AST] = []
    for nd in cfg.nodes:
        if isinstance(nd.ast, ast.Return):
            if p(nd):
                continue
            if not cfg.must_pass(nd.id, p):
                bad.append(nd.ast)
    # implicit return
    fall = [a for a in cfg.pred[cfg.exit.id] if not isinstance(cfg.nodes[a].ast, ast.Return)]
    if fall and not cfg.must_pass(cfg.exit.id, lambda nd: p(nd) or isinstance(nd.ast, ast.Return)):
        bad.append(fn)
    return bad
