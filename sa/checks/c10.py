"""C10 — automatic Kramers-Kronig testing (partial: the containment clause).

The statistical clauses (noise tracking, drift margin) quantify over optimiser
outcomes and random noise and are not decided.  The clause "the suggested
number of RC elements lies inside the limits it reports" is structural: the
suggestion is drawn from the list of tests after it was filtered with the very
limits that are returned."""
from __future__ import annotations

import ast
from typing import List

from ..cfg import stmt_of
from ..core import AnalysisError, Ctx, calls_in, dotted, norm, parent, walk_ordered
from ..model import get_model

LEVEL = "other"
ALG = "pyimpspec.analysis.kramers_kronig.algorithms"
SINGLE = "pyimpspec.analysis.kramers_kronig.single"


def _binds(fn: ast.AST, name: str) -> List[ast.AST]:
    out = []
    for n in walk_ordered(fn):
        if isinstance(n, (ast.Assign, ast.AnnAssign)) and n.value is not None:
            t = n.targets[0] if isinstance(n, ast.Assign) else n.target
            if any(isinstance(x, ast.Name) and x.id == name and isinstance(x.ctx, ast.Store) for x in ast.walk(t)):
                out.append(n)
        elif isinstance(n, (ast.For, ast.comprehension)) and any(isinstance(x, ast.Name) and x.id == name for x in ast.walk(n.target)) and isinstance(n, ast.For):
            out.append(n)
    return out


def check(ctx: Ctx) -> None:
    model = get_model(ctx.repo)
    ctx.modules_consulted.update({ALG, SINGLE})
    ctx.rule("R10.1", "containment (default path): _suggest_using_default filters the tests with lower_limit <= num_RC <= upper_limit, draws every candidate for the suggestion from that filtered list, and returns those same limits")
    ctx.rule("R10.2", "routing: suggest_num_RC without explicit methods returns _suggest_using_default's (test, scores, lower, upper) unchanged; perform_kramers_kronig_test returns a suggested test (or the best of the suggestions), never one outside the suggestion")
    ctx.assumptions += ["the statistical clauses of C10 (estimated noise of the order of the injected one, drift margin) are not decided"]

    ctx.rule("R10.3", "representation choice: the scores are computed over one list of candidates (sorted by pseudo chi-squared) and the returned candidate is taken from that same list — indices computed for one ordering are not applied to another")
    REP = "pyimpspec.analysis.kramers_kronig.algorithms.representation"
    ctx.modules_consulted.add(REP)
    sr = model.fi(REP, "_suggest_representation")
    spaces = set()
    for n in walk_ordered(sr.node):
        if isinstance(n, (ast.ListComp, ast.GeneratorExp)) and len(n.generators) == 1 and isinstance(n.generators[0].iter, ast.Name):
            spaces.add(n.generators[0].iter.id)
        if isinstance(n, ast.For) and isinstance(n.iter, ast.Call) and dotted(n.iter.func) == "enumerate" and n.iter.args and isinstance(n.iter.args[0], ast.Name):
            spaces.add(n.iter.args[0].id)
    rets3 = [n for n in walk_ordered(sr.node) if isinstance(n, ast.Return) and isinstance(n.value, ast.Subscript) and isinstance(n.value.value, ast.Name)]
    ctx.instance("R10.3", f"_suggest_representation: scores over {sorted(spaces)}, result taken from {sorted({r.value.value.id for r in rets3})}")
    if not rets3 or not spaces:
        raise AnalysisError("_suggest_representation: score lists / indexed returns not found")
    srt = [n for n in walk_ordered(sr.node) if isinstance(n, (ast.Assign, ast.AnnAssign)) and n.value is not None and isinstance(n.value, ast.Call) and dotted(n.value.func) == "sorted"
           and "pseudo_chisqr" in norm(n.value)]
    sorted_name = norm(srt[0].targets[0] if isinstance(srt[0], ast.Assign) else srt[0].target) if len(srt) == 1 else None
    bad3 = [r for r in rets3 if r.value.value.id != sorted_name]
    if sorted_name is None:
        ctx.violation("R10.3", "_suggest_representation:unsorted", REP, sr.node, "the candidates are not sorted by pseudo chi-squared before the better one is taken")
    elif spaces != {sorted_name} or bad3:
        ctx.violation("R10.3", "_suggest_representation:index-space", REP, (bad3[0] if bad3 else sr.node),
                      f"scores are computed over {sorted(spaces)} but the result is taken from {sorted({r.value.value.id for r in rets3})}; the list sorted by pseudo chi-squared is `{sorted_name}`: an index (or 'the first') of one ordering is applied to another, so the worse representation can be returned")
    else:
        ctx.ok()

    sd = model.fi(ALG, "_suggest_using_default")
    order = [id(x) for x in walk_ordered(sd.node)]
    pos = lambda n: order.index(id(n))
    lim = [n for n in _binds(sd.node, "lower_limit") if isinstance(n, (ast.Assign, ast.AnnAssign))]
    limu = [n for n in _binds(sd.node, "upper_limit") if isinstance(n, (ast.Assign, ast.AnnAssign))]
    ctx.instance("R10.1", "limits are bound once, from suggest_num_RC_limits, and lower < upper is enforced")
    guard = [n for n in walk_ordered(sd.node) if isinstance(n, ast.If) and norm(n.test) == "lower_limit >= upper_limit" and any(isinstance(s, ast.Raise) for s in n.body)]
    if len(lim) == 1 and len(limu) == 1 and lim[0] is limu[0] and isinstance(lim[0].value, ast.Call) and dotted(lim[0].value.func) == "suggest_num_RC_limits" \
            and norm(lim[0].targets[0]) in ("(lower_limit, upper_limit)", "lower_limit, upper_limit") and len(guard) == 1 and pos(guard[0]) > pos(lim[0]):
        ctx.ok()
    else:
        ctx.violation("R10.1", "_suggest_using_default:limits", ALG, sd.node, "the limits must be bound once from suggest_num_RC_limits(…) as (lower_limit, upper_limit) and an empty range refused")
    filt = [n for n in _binds(sd.node, "tests") if isinstance(n, ast.Assign) and isinstance(n.value, ast.ListComp)]
    ctx.instance("R10.1", "tests is rebound to the tests inside the limits")
    f_ok = len(filt) == 1 and len(filt[0].value.generators) == 1 and norm(filt[0].value.generators[0].iter) == "tests" \
        and [norm(c) for c in filt[0].value.generators[0].ifs] == ["lower_limit <= t.num_RC <= upper_limit"] and norm(filt[0].value.elt) == norm(filt[0].value.generators[0].target)
    if f_ok:
        ctx.ok()
    else:
        ctx.violation("R10.1", "_suggest_using_default:filter", ALG, sd.node, "the candidate tests must be filtered with lower_limit <= t.num_RC <= upper_limit before a suggestion is drawn")
        return
    sb = _binds(sd.node, "suggested_test")
    if not sb:
        raise AnalysisError("_suggest_using_default: no binding of suggested_test")
    for b in sb:
        ctx.instance("R10.1", f"suggested_test ← {norm(b.value)[:70]} (line {b.lineno})")
        v = b.value
        ok = False
        if isinstance(v, ast.Subscript) and norm(v.slice) == "0":
            src = v.value
            if isinstance(src, ast.Call) and dotted(src.func) == "sorted" and src.args and norm(src.args[0]) == "tests":
                ok = True
            if isinstance(src, ast.ListComp) and len(src.generators) == 1 and norm(src.generators[0].iter) == "tests" and norm(src.elt) == norm(src.generators[0].target):
                ok = True
        if ok and pos(b) > pos(filt[0]):
            ctx.ok()
        else:
            ctx.violation("R10.1", "_suggest_using_default:candidate-source", ALG, b,
                          f"the suggestion {norm(v)[:80]} is not drawn from the tests filtered by the reported limits: the suggested number of RC elements can lie outside the limits it is returned with")
    rets = [n for n in walk_ordered(sd.node) if isinstance(n, ast.Return)]
    ctx.instance("R10.1", "returns (suggested_test, relative_scores, lower_limit, upper_limit) with the filter's limits")
    later = [n for n in walk_ordered(sd.node) if isinstance(n, ast.Name) and n.id in ("lower_limit", "upper_limit", "tests") and isinstance(n.ctx, ast.Store) and pos(n) > pos(filt[0]) and stmt_of(n) is not filt[0]]
    if len(rets) == 1 and isinstance(rets[0].value, ast.Tuple) and [norm(e) for e in rets[0].value.elts][0] == "suggested_test" \
            and [norm(e) for e in rets[0].value.elts][2:] == ["lower_limit", "upper_limit"] and not later:
        ctx.ok()
    else:
        ctx.violation("R10.1", "_suggest_using_default:return", ALG, sd.node, "the limits returned must be the ones the candidates were filtered with (no rebinding after the filter)")

    # ---------------- R10.2 ---------------------------------------------------------
    sn = model.fi(ALG, "suggest_num_RC")
    calls = [c for c in calls_in(sn.node) if dotted(c.func) == "_suggest_using_default"]
    ctx.instance("R10.2", "suggest_num_RC: methods empty → _suggest_using_default, result returned unchanged")
    good = len(calls) == 1
    if good:
        st = stmt_of(calls[0])
        good = isinstance(st, ast.Assign) and norm(st.targets[0]).strip("()") == "suggested_test, total_scores, lower_limit, upper_limit" \
            and isinstance(parent(st), ast.If) and norm(parent(st).test) == "len(methods) == 0" \
            and [norm(a) for a in calls[0].args] == ["tests", "lower_limit", "upper_limit", "limit_delta"]
        rets = [n for n in walk_ordered(sn.node) if isinstance(n, ast.Return)]
        good = good and len(rets) == 1 and [norm(e) for e in rets[0].value.elts] == ["suggested_test", "total_scores", "lower_limit", "upper_limit"]
        o2 = [id(x) for x in walk_ordered(sn.node)]
        after = [n for n in walk_ordered(sn.node) if isinstance(n, ast.Name) and n.id in ("suggested_test", "lower_limit", "upper_limit") and isinstance(n.ctx, ast.Store)
                 and o2.index(id(n)) > o2.index(id(st)) and stmt_of(n) is not st]
        good = good and not after
        dflt = dict(zip([a.arg for a in sn.node.args.args][-len(sn.node.args.defaults):], sn.node.args.defaults))
        good = good and norm(dflt.get("methods")) == "None" and "methods = []" in norm(sn.node)
    if good:
        ctx.ok()
    else:
        ctx.violation("R10.2", "suggest_num_RC:default-route", ALG, sn.node, "with default settings suggest_num_RC must return _suggest_using_default(tests, lower_limit, upper_limit, limit_delta, …) unchanged")
    pk = model.fi(SINGLE, "perform_kramers_kronig_test")
    t = norm(pk.node)
    ctx.instance("R10.2", "perform_kramers_kronig_test returns the suggested test of suggest_num_RC (best representation)")
    rets = [norm(n.value) for n in walk_ordered(pk.node) if isinstance(n, ast.Return) and n.value is not None]
    if "results.append(suggest_num_RC(tests, **kwargs))" in t and set(rets) <= {"results[0]", "min(results, key=lambda t: t.pseudo_chisqr)", "results[0][0]", "suggest_representation(results)[0]"} and len(rets) >= 3:
        ctx.ok()
    else:
        ctx.violation("R10.2", "perform_kramers_kronig_test:result", SINGLE, pk.node, f"perform_kramers_kronig_test must return one of the collected suggestions (returns {rets})")
