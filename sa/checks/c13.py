"""C13 — DRT results carry the physics (partial: kernels, closed forms,
scaling degrees of the formulas the library itself encodes)."""
from __future__ import annotations

import ast
from typing import Any, Dict, List, Optional

import sympy as sp

from ..core import AnalysisError, Ctx, calls_in, dotted, norm, parent, walk_ordered
from ..elements import registered_elements
from ..model import get_model
from ..numeric import RepoInterp, canon
from ..terms import TermInterp, Unsupported, parse_equation

LEVEL = "other"
DRT = "pyimpspec.analysis.drt"
NN = f"{DRT}.tr_nnls"
LM = f"{DRT}.lm"
MRQ = f"{DRT}.mrq_fit"

W = sp.Symbol("omega", positive=True)
TAU = sp.Symbol("tau", positive=True)
DLT = sp.Symbol("delta_ln_tau", positive=True)
G = sp.Symbol("g_tau", positive=True)


def _loop_term(model, fi, target: str, consts: Dict[str, Any], extra_env: Dict[str, Any]) -> sp.Expr:
    """Right-hand side stored into `target[i…]` inside the row loop, as a term (one symbolic row)."""
    ti = RepoInterp(model, decide=lambda t, e: consts.get(norm(t)))._interp(fi, 0)
    env: Dict[str, Any] = {"tau": TAU, "delta_ln_tau": DLT, "g_tau": G}
    env.update(consts)
    env.update(extra_env)
    loop = next((n for n in walk_ordered(fi.node) if isinstance(n, ast.For) and "omega.size" in norm(n.iter)), None)
    if loop is None:
        # vectorised form: no row loop; interpret the straight-line statements entry-wise (ω for omega, τ for tau,
        # outer(a, b) → a·b) and take the last value bound to the target
        def xc(cur, name, node, args, kwargs, env_):
            if name == "outer" and len(args) == 2:
                return args[0] * args[1]
            if name in ("array_sum", "sum") and args:
                return args[0]
            return NotImplemented
        ti2 = RepoInterp(model, decide=lambda t, e: consts.get(norm(t)), extra_call=xc)._interp(fi, 0)
        env["omega"] = W
        out2 = None
        for s in fi.node.body:
            if isinstance(s, (ast.Assign, ast.AnnAssign)) and s.value is not None:
                t = s.targets[0] if isinstance(s, ast.Assign) else s.target
                base = t.value if isinstance(t, ast.Subscript) else t
                if not isinstance(base, ast.Name):
                    continue
                class B(ast.NodeTransformer):
                    # x[:, None], x[None, :], x[:, newaxis]: broadcasting reshapes — entry-wise the value itself
                    def visit_Subscript(self, n):
                        n = self.generic_visit(n)
                        sl = n.slice.elts if isinstance(n.slice, ast.Tuple) else [n.slice]
                        full = lambda x: (isinstance(x, ast.Slice) and x.lower is None and x.upper is None and x.step is None) or \
                            (isinstance(x, ast.Constant) and x.value is None) or (isinstance(x, ast.Name) and x.id == "newaxis")
                        if len(sl) >= 2 and all(full(x) for x in sl):
                            return n.value
                        return n
                try:
                    v = ti2.ev(B().visit(ast.parse(norm(s.value), mode="eval").body), env)
                except Unsupported:
                    env.pop(base.id, None)
                    continue
                env[base.id] = v
                if base.id == target:
                    out2 = v
        if out2 is None:
            raise AnalysisError(f"{fi.qual}: neither a row loop over omega nor an entry-wise expression for {target} found")
        return sp.sympify(out2)
    out = None
    for s in loop.body:
        if isinstance(s, (ast.Assign, ast.AnnAssign)) and s.value is not None:
            t = s.targets[0] if isinstance(s, ast.Assign) else s.target
            # omega[i] → ω
            class R(ast.NodeTransformer):
                def visit_Subscript(self, n):
                    if norm(n.value) == "omega":
                        return ast.Name(id="__omega__", ctx=ast.Load())
                    return self.generic_visit(n)

                def visit_Call(self, n):
                    if dotted(n.func) == "array_sum" and len(n.args) == 1:
                        return self.visit(n.args[0])  # the sum over τ: one symbolic summand
                    return self.generic_visit(n)
            val_node = R().visit(ast.parse(norm(s.value), mode="eval").body)
            env["__omega__"] = W
            try:
                v = ti.ev(val_node, env)
            except Unsupported as e:
                raise AnalysisError(f"{fi.qual}: {norm(s.value)[:60]} outside the term fragment: {e}")
            if isinstance(t, ast.Name):
                env[t.id] = v
            elif isinstance(t, ast.Subscript) and norm(t.value) == target:
                out = sp.sympify(v)
    if out is None:
        raise AnalysisError(f"{fi.qual}: no store into {target}[…] found in the row loop")
    return out


def check(ctx: Ctx) -> None:
    model = get_model(ctx.repo)
    ctx.modules_consulted.update({NN, LM, MRQ, "pyimpspec.circuit.kramers_kronig"})
    ctx.rule("R13.1", "TR-NNLS: the rows of the design matrix and of the model impedance are Δlnτ·Re 1/(1+jωτ) (real) and Δlnτ·(−Im 1/(1+jωτ)) (imaginary), from the K element equation; right-hand side has the matching part and sign; γ = g·R_pol; g comes from scipy.optimize.nnls")
    ctx.rule("R13.2", "Loewner: with τ = |−1/λ| and γ = Re(−res/λ), res/(s−λ) ≡ γ/(1+sτ) for a stable real pole")
    ctx.rule("R13.3", "m(RQ)fit: the (RQ) branch is Boukamp's closed form, the (RC) branch a Gaussian in ln τ of area R; τ₀ = (RY)^(1/n)")
    ctx.rule("R13.4", "scaling: γ scales with Z and not with f; τ scales as 1/f and not with Z (formulas of TR-NNLS, Loewner peak extraction and m(RQ)fit)")
    ctx.assumptions += ["non-negativity of g is scipy.optimize.nnls' contract", "regularisation, λ selection and model-order selection are not decided"]

    eds = {e.cls: e for e in registered_elements(ctx.repo)}
    f = sp.Symbol("f")
    K = canon(parse_equation(eds["KramersKronigRC"].equation)).subs({sp.Symbol("R"): 1, f: W / (2 * sp.pi), sp.Symbol("tau"): TAU})
    K = sp.simplify(K)
    kre = sp.simplify(sp.re(sp.expand_complex(K)))
    kim = sp.simplify(-sp.im(sp.expand_complex(K)))

    # ---------------- R13.1 ---------------------------------------------------------
    ga = model.fi(NN, "_generate_A_matrix")
    gm = model.fi(NN, "_generate_model_impedance")
    for imag in (False, True):
        want = DLT * (kim if imag else kre)
        row = _loop_term(model, ga, "A", {"is_imaginary": imag}, {})
        ctx.instance("R13.1", f"_generate_A_matrix[{'imaginary' if imag else 'real'}] row = {row}")
        if sp.simplify(row - want) == 0:
            ctx.ok()
        else:
            ctx.violation("R13.1", f"_generate_A_matrix:{'imaginary' if imag else 'real'}", NN, ga.node,
                          f"the {'imaginary' if imag else 'real'}-mode kernel is {row}; the relaxation kernel derived from the K element is {want}")
        mrow = _loop_term(model, gm, "Z_re_im", {"is_imaginary": imag}, {})
        ctx.instance("R13.1", f"_generate_model_impedance[{'imaginary' if imag else 'real'}] summand = {mrow}")
        if sp.simplify(mrow - want * G) == 0:
            ctx.ok()
        else:
            ctx.violation("R13.1", f"_generate_model_impedance:{'imaginary' if imag else 'real'}", NN, gm.node,
                          f"the model impedance sums {mrow} per time constant, the design matrix encodes {want}·g: the reported impedance is not the fitted model")
    # signs/parts of the model impedance assembly
    ctx.instance("R13.1", "model impedance: real mode adds R_inf and keeps Im Z; imaginary mode returns −Σ as the imaginary part")
    t = norm(gm.node)

    def complex_parts(imag: bool):
        """(real part, imaginary part) of the value _generate_model_impedance returns in one mode, whatever way the complex
        array is put together: complex(*pair) over zip(re, im), re + 1j*im, or X.real = re; X.imag = im."""
        parts: Dict[str, Dict[str, str]] = {}
        result = []

        def walk(stmts) -> bool:
            for st in stmts:
                if isinstance(st, ast.If) and norm(st.test) in ("is_imaginary", "not is_imaginary"):
                    take = st.body if (norm(st.test) == "is_imaginary") == imag else st.orelse
                    if walk(take):
                        return True
                elif isinstance(st, ast.Assign) and isinstance(st.targets[0], ast.Attribute) and st.targets[0].attr in ("real", "imag") and isinstance(st.targets[0].value, ast.Name):
                    parts.setdefault(st.targets[0].value.id, {})[st.targets[0].attr] = norm(st.value)
                elif isinstance(st, ast.Return) and st.value is not None:
                    v = st.value
                    if isinstance(v, ast.Name) and v.id in parts:
                        result.append((parts[v.id].get("real"), parts[v.id].get("imag")))
                    else:
                        z = [c for c in calls_in(v) if dotted(c.func) == "zip" and len(c.args) == 2]
                        if z and "complex(*" in norm(v):
                            result.append((norm(z[0].args[0]), norm(z[0].args[1])))
                        elif isinstance(v, ast.BinOp) and isinstance(v.op, ast.Add) and isinstance(v.right, ast.BinOp) and norm(v.right.left) == "1j":
                            result.append((norm(v.left), norm(v.right.right)))
                        else:
                            result.append((None, norm(v)))
                    return True
            return False
        walk(gm.node.body)
        return result[0] if result else (None, None)
    scaled = "Z_re_im = R_pol * Z_re_im" in t or "Z_re_im *= R_pol" in t or "Z_re_im = Z_re_im * R_pol" in t
    pi_, pr_ = complex_parts(True), complex_parts(False)
    if scaled and tuple(x.replace(" ", "") if x else x for x in pi_) == ("Z.real", "-Z_re_im") \
            and tuple(x.replace(" ", "") if x else x for x in pr_) in (("Z_re_im+R_inf", "Z.imag"), ("R_inf+Z_re_im", "Z.imag")):
        ctx.ok()
    else:
        ctx.violation("R13.1", "_generate_model_impedance:assembly", NN, gm.node, "the model impedance must be R_inf + R_pol·Σ (real mode) / −R_pol·Σ (imaginary mode)")
    gb = model.fi(NN, "_generate_b_vector")
    ctx.instance("R13.1", "right-hand side uses Re Z_norm (real) and −Im Z_norm (imaginary)")
    r = [n for n in walk_ordered(gb.node) if isinstance(n, ast.Return)]
    if len(r) == 1 and norm(r[0].value) == "A.T @ (-Z_norm.imag if is_imaginary else Z_norm.real)":
        ctx.ok()
    else:
        ctx.violation("R13.1", "_generate_b_vector:parts", NN, gb.node, "the right-hand side must pair −Im Z with the imaginary kernel and Re Z with the real kernel")
    ni = model.fi(NN, "_normalize_impedance")
    ctx.instance("R13.1", "normalisation: R_inf = Re Z(high f), R_pol = Re Z(low f) − Re Z(high f), Z_norm = (Z − R_inf)/R_pol")
    # interpreted on a symbolic spectrum of three points (sa.miniinterp + sa.nplite): the function is rational in the entries
    from ..miniinterp import InterpRaise as _IR, Mini as _Mini, module_globals as _mg
    from ..nplite import NP_STUBS as _NPS, NArr as _NArr
    aa = [sp.Symbol(f"a{i}", real=True) for i in range(3)]
    bb = [sp.Symbol(f"b{i}", real=True) for i in range(3)]
    Zs = _NArr([a_ + sp.I * b_ for a_, b_ in zip(aa, bb)])
    norm_ok = False
    try:
        out_ = _Mini(_mg(ctx.repo.modules[NN].tree, dict(_NPS))).call_function(ni.node, {"Z": Zs})
        Zn, Rinf, Rpol = out_
        norm_ok = sp.simplify(Rinf - aa[0]) == 0 and sp.simplify(Rpol - (aa[2] - aa[0])) == 0 \
            and all(sp.simplify(z_ - ((aa[i] + sp.I * bb[i]) - aa[0]) / (aa[2] - aa[0])) == 0 for i, z_ in enumerate(Zn))
    except (_IR, AnalysisError, ValueError, TypeError):
        norm_ok = False
    if norm_ok:
        ctx.ok()
    else:
        ctx.violation("R13.1", "_normalize_impedance:definition", NN, ni.node, "the normalisation of the impedance no longer defines R_inf / R_pol as the high-frequency intercept and the polarisation resistance")
    ent = model.fi(NN, "calculate_drt_tr_nnls")
    ctx.instance("R13.1", "γ = g·R_pol with g from scipy.optimize.nnls")
    t = norm(ent.node)
    sv = norm(model.fi(NN, "_solve").node)
    gdef = [n for n in walk_ordered(ent.node) if isinstance(n, (ast.Assign, ast.AnnAssign)) and n.value is not None and norm(n.targets[0] if isinstance(n, ast.Assign) else n.target) == "gamma"]
    g_ok = False
    for n_ in gdef:
        try:
            g_ok = g_ok or sp.simplify(sp.sympify(norm(n_.value), locals={"g_tau": sp.Symbol("g_tau"), "R_pol": sp.Symbol("R_pol")}) - sp.Symbol("g_tau") * sp.Symbol("R_pol")) == 0
        except Exception:
            pass
    if g_ok and "g_tau = _solve(A_tikh, b, maxiter)" in t and "from scipy.optimize import nnls" in sv and "return nnls(A, b, maxiter=maxiter)[0]" in sv:
        ctx.ok()
    else:
        ctx.violation("R13.1", "calculate_drt_tr_nnls:gamma", NN, ent.node, "γ must be the non-negative least-squares solution times R_pol")
    dl = model.fi(NN, "_calculate_delta_ln_tau")
    ctx.instance("R13.1", "Δlnτ: central differences inside, one-sided halves at the ends (trapezoidal weights)")
    # interpreted on symbolic arrays of length 2..7 (sa.miniinterp.SymArray): the function is linear in ln τ, so equality
    # of the symbolic entries is exact for each length
    from ..miniinterp import InterpRaise, Mini, SymArray, module_globals
    wit = None
    for n_ in range(2, 8):
        xs = [sp.Symbol(f"x{i}", real=True) for i in range(n_)]
        stubs = {"ln": lambda a: a, "log": lambda a: a, "zeros": lambda n, **k: SymArray([sp.Integer(0)] * (n if isinstance(n, int) else n[0])),
                 "float64": float, "diff": lambda a: SymArray([a[i + 1] - a[i] for i in range(len(a) - 1)]), "empty": lambda n, **k: SymArray([sp.Symbol(f"uninit{i}") for i in range(n if isinstance(n, int) else n[0])]),
                 "zeros_like": lambda a, **k: SymArray([sp.Integer(0)] * len(a)), "empty_like": lambda a, **k: SymArray([sp.Symbol(f"uninit{i}") for i in range(len(a))])}
        try:
            out_ = Mini(module_globals(ctx.repo.modules[NN].tree, stubs)).call_function(dl.node, {"tau": SymArray(xs)})
            got_ = [sp.simplify(e) for e in out_]
        except InterpRaise as e:
            got_ = e.kind
        want_ = [sp.Rational(1, 2) * (xs[1] - xs[0])] + [sp.Rational(1, 2) * (xs[i + 1] - xs[i - 1]) for i in range(1, n_ - 1)] + [sp.Rational(1, 2) * (xs[-1] - xs[-2])]
        if n_ == 2:
            want_ = [sp.Rational(1, 2) * (xs[1] - xs[0])] * 2
        if isinstance(got_, str) or len(got_) != n_ or any(sp.simplify(a_ - b_) != 0 for a_, b_ in zip(got_, want_)):
            wit = wit or (n_, got_, want_)
    if wit is None:
        ctx.ok()
    else:
        ctx.violation("R13.1", "_calculate_delta_ln_tau:weights", NN, dl.node, f"the integration weights in ln τ are no longer the trapezoidal ones (the area of γ would not be R_pol): for {wit[0]} points with x = ln τ they are {wit[1]} instead of {wit[2]}")

    # ---------------- R13.2 ---------------------------------------------------------
    ep = model.fi(LM, "_extract_peaks")
    lam = sp.Symbol("lam", negative=True)
    res = sp.Symbol("res", real=True)
    s_ = sp.Symbol("s")
    ti = RepoInterp(model)._interp(ep, 0)
    env = {"eigenvalues": lam, "residues": res}
    terms: Dict[str, sp.Expr] = {}
    for n in walk_ordered(ep.node):
        if isinstance(n, (ast.Assign, ast.AnnAssign)) and n.value is not None:
            nm = norm(n.targets[0] if isinstance(n, ast.Assign) else n.target)
            if nm in ("time_constants", "gammas"):
                try:
                    terms[nm] = sp.sympify(ti.ev(n.value, env))
                except Unsupported as e:
                    raise AnalysisError(f"_extract_peaks: {nm} outside the term fragment: {e}")
    if set(terms) != {"time_constants", "gammas"}:
        raise AnalysisError("_extract_peaks: definitions of time_constants/gammas not found")
    ctx.instance("R13.2", f"τ = {terms['time_constants']}, γ = {terms['gammas']}")
    lhs = res / (s_ - lam)
    rhs = terms["gammas"] / (1 + s_ * terms["time_constants"])
    if sp.simplify(lhs - rhs) == 0:
        ctx.ok()
    else:
        ctx.violation("R13.2", "_extract_peaks:partial-fraction", LM, ep.node,
                      f"for a real negative pole λ, res/(s−λ) is {sp.simplify(lhs)} but γ/(1+sτ) with the extracted τ, γ is {sp.simplify(rhs)}: the (τ_k, R_k) pairs are not those of the ladder")
    ctx.instance("R13.2", "residues = (X⁻¹E⁻¹B) ∘ (C X)ᵀ for the generalised eigenproblem (A, E)")
    t = norm(ep.node)
    if "eig(Ak, Ek)" in t and "Bt: NDArray[complex128] = solve(eigenvectors, solve(Ek, Bk))" in t and "Ct: NDArray[complex128] = Ck @ eigenvectors" in t and "residues: NDArray[complex128] = Bt * Ct.T" in t:
        ctx.ok()
    else:
        ctx.violation("R13.2", "_extract_peaks:residues", LM, ep.node, "poles/residues must come from eig(Ak, Ek) with B̃ = X⁻¹E⁻¹B and C̃ = C X")

    ctx.instance("R13.2", "eigenvalue k stays paired with eigenvector column k between eig(…) and the residues")
    eg = [n for n in walk_ordered(ep.node) if isinstance(n, (ast.Assign, ast.AnnAssign)) and n.value is not None and isinstance(n.value, ast.Call) and dotted(n.value.func).split(".")[-1] == "eig"]
    if len(eg) != 1 or not isinstance(eg[0].targets[0] if isinstance(eg[0], ast.Assign) else eg[0].target, ast.Tuple):
        raise AnalysisError("_extract_peaks: (eigenvalues, eigenvectors) = eig(…) not found")
    vals, vecs = [norm(e) for e in (eg[0].targets[0] if isinstance(eg[0], ast.Assign) else eg[0].target).elts]
    seq2 = [id(x) for x in walk_ordered(ep.node)]
    reb = {}
    for n in walk_ordered(ep.node):
        if isinstance(n, (ast.Assign, ast.AnnAssign, ast.AugAssign)) and n is not eg[0] and seq2.index(id(n)) > seq2.index(id(eg[0])):
            tg_ = n.targets[0] if isinstance(n, ast.Assign) else n.target
            if norm(tg_) in (vals, vecs) or (isinstance(tg_, ast.Subscript) and norm(tg_.value) in (vals, vecs)):
                reb.setdefault(norm(tg_.value) if isinstance(tg_, ast.Subscript) else norm(tg_), []).append(n)
    paired = True
    why = ""
    if reb:
        # the only admissible rebinding is one common permutation: vals = vals[idx]; vecs = vecs[:, idx]
        a, b = reb.get(vals, []), reb.get(vecs, [])
        paired = len(a) == 1 and len(b) == 1 and isinstance(a[0], (ast.Assign, ast.AnnAssign)) and isinstance(b[0], (ast.Assign, ast.AnnAssign)) \
            and isinstance(a[0].value, ast.Subscript) and isinstance(b[0].value, ast.Subscript) and norm(a[0].value.value) == vals and norm(b[0].value.value) == vecs \
            and isinstance(b[0].value.slice, ast.Tuple) and len(b[0].value.slice.elts) == 2 and norm(b[0].value.slice.elts[0]) == ":" \
            and norm(b[0].value.slice.elts[1]) == norm(a[0].value.slice)
        why = f"{[norm(x) for x in a + b]}"
    if paired:
        ctx.ok()
    else:
        ctx.violation("R13.2", "_extract_peaks:eig-pairing", LM, (reb.get(vecs) or reb.get(vals))[0],
                      f"after eig(…) the eigenvalues and the eigenvector matrix are re-arranged inconsistently ({why}): eigenvalue k must stay with column k (vals[idx] with vecs[:, idx]), otherwise the residues belong to other poles")

    # ---------------- R13.3 / R13.4 (m(RQ)fit) ------------------------------------------
    tg = model.fi(MRQ, "_calculate_tau_gamma")
    R_, Y_, n_, Wd = sp.symbols("R Y n W", positive=True)
    ti2 = RepoInterp(model)._interp(tg, 0)
    env2 = {"R": R_, "Y": Y_, "n": n_, "W": Wd, "tau": TAU, "pi": sp.pi, "parameters": {"R": R_, "Y": Y_, "C": Y_, "n": n_}}
    tau0 = None
    branches: List[sp.Expr] = []
    for n in walk_ordered(tg.node):
        if isinstance(n, (ast.Assign, ast.AnnAssign)) and n.value is not None and isinstance(n.targets[0] if isinstance(n, ast.Assign) else n.target, ast.Name) \
                and norm(n.targets[0] if isinstance(n, ast.Assign) else n.target) not in ("tau_0", "R", "Y", "n", "W", "tau", "gamma", "parameters"):
            # auxiliary locals (e.g. a hoisted ln(tau)) are bound when they evaluate in the term fragment
            try:
                env2[norm(n.targets[0] if isinstance(n, ast.Assign) else n.target)] = ti2.ev(n.value, env2)
            except Exception:
                pass
        if isinstance(n, (ast.Assign, ast.AnnAssign)) and n.value is not None and norm(n.targets[0] if isinstance(n, ast.Assign) else n.target) == "tau_0":
            tau0 = sp.sympify(ti2.ev(n.value, env2))
            env2["tau_0"] = tau0
        if isinstance(n, ast.AugAssign) and norm(n.target) == "gamma":
            v = n.value

            class D(ast.NodeTransformer):
                def visit_IfExp(self, x):
                    if "n < 0" in norm(x.test):
                        return self.visit(x.orelse)  # n > 0 in the element's limit box
                    return self.generic_visit(x)
            try:
                branches.append(sp.sympify(ti2.ev(D().visit(ast.parse(norm(v), mode="eval").body), {**env2, "ln": None} if False else env2)))
            except Unsupported as e:
                raise AnalysisError(f"_calculate_tau_gamma: γ branch outside the term fragment: {e}")
    # the closed form of the (RQ) distribution degenerates to an unsampled delta for n → 1: it may only be used under a
    # guard that keeps n away from 1 (the Gaussian replacement handles that case)
    from ..cfg import dominating_conditions as _dc, flatten_conditions as _fc
    for aug_ in walk_ordered(tg.node):
        if isinstance(aug_, ast.AugAssign) and norm(aug_.target) == "gamma" and "cosh" in norm(aug_.value):
            conds_ = [(norm(c_), pol_) for c_, pol_ in _fc(_dc(aug_))]
            guarded = any(("isclose" in t_ and "n" in t_ and "1" in t_ and not pol_) or ("abs(" in t_ and "n" in t_ and ("<" in t_ or ">" in t_)) for t_, pol_ in conds_)
            ctx.instance("R13.3", "(RQ) closed form only away from n = 1")
            if guarded:
                ctx.ok()
            else:
                ctx.violation("R13.3", "_calculate_tau_gamma:rq-guard", MRQ, aug_, f"the (RQ) closed form is used under {conds_ or 'no condition'}: for an exponent n close to 1 it collapses to a delta between the samples, so the element's area is lost")
    if tau0 is None or len(branches) != 2:
        raise AnalysisError(f"_calculate_tau_gamma: τ₀ or the two γ branches not found ({len(branches)})")
    ctx.instance("R13.3", f"τ₀ = {tau0}")
    if sp.simplify(tau0 - (R_ * Y_) ** (1 / n_)) == 0:
        ctx.ok()
    else:
        ctx.violation("R13.3", "_calculate_tau_gamma:tau0", MRQ, tg.node, f"τ₀ is {tau0}, expected (R·Y)^(1/n)")
    x = sp.Symbol("x", real=True)
    gauss, rq = branches
    ctx.instance("R13.3", "(RC) branch: Gaussian in ln τ with area R")
    gx = gauss.subs(TAU, tau0 * sp.exp(x))
    area = sp.simplify(sp.integrate(sp.simplify(gx), (x, -sp.oo, sp.oo)))
    if sp.simplify(area - R_) == 0:
        ctx.ok()
    else:
        ctx.violation("R13.3", "_calculate_tau_gamma:RC-area", MRQ, tg.node, f"the (RC) distribution integrates over ln τ to {area}, not to R")
    ctx.instance("R13.3", "(RQ) branch: Boukamp's closed form")
    want = (R_ / (2 * sp.pi)) * sp.sin((1 - n_) * sp.pi) / (sp.cosh(n_ * sp.log(TAU / tau0)) - sp.cos((1 - n_) * sp.pi))
    if sp.simplify(rq - want) == 0:
        ctx.ok()
    else:
        ctx.violation("R13.3", "_calculate_tau_gamma:RQ-form", MRQ, tg.node, f"the (RQ) distribution is {rq}; the closed form is {want}")
    # area of the (RQ) form by quadrature on the term (random interpretation of the IR, not of the program)
    import mpmath as mp
    ctx.instance("R13.3", "(RQ) branch: area R (quadrature of the extracted term at sample exponents)")
    ok = True
    for nv in (0.6, 0.8, 0.95):
        fx = sp.lambdify(x, rq.subs(TAU, tau0 * sp.exp(x)).subs({R_: 3, Y_: sp.Rational(1, 1000), n_: sp.Rational(str(nv))}), "mpmath")
        val = mp.quad(fx, [-80, -20, -5, 0, 5, 20, 80])
        if abs(val - 3) > 1e-6:
            ok = False
    if ok:
        ctx.ok()
    else:
        ctx.violation("R13.3", "_calculate_tau_gamma:RQ-area", MRQ, tg.node, "the (RQ) distribution does not integrate over ln τ to the element's resistance")
    # each (RQ)/(RC) pair contributes with its own parameters: the dictionary the values are collected in is fresh per pair
    ctx.instance("R13.3", "each parallel pair is evaluated with its own parameter values (no values carried over from the previous pair)")
    ups = [c for c in calls_in(tg.node) if isinstance(c.func, ast.Attribute) and c.func.attr == "update" and c.args and "get_values()" in norm(c.args[0])]
    outer = [n for n in walk_ordered(tg.node) if isinstance(n, ast.For) and norm(n.iter) == "connections"]
    if len(ups) != 1 or len(outer) != 1:
        raise AnalysisError("_calculate_tau_gamma: parameter collection loop not found")
    D_ = norm(ups[0].func.value)
    binds = [n for n in walk_ordered(tg.node) if isinstance(n, (ast.Assign, ast.AnnAssign)) and n.value is not None and norm(n.targets[0] if isinstance(n, ast.Assign) else n.target) == D_]
    seq = [id(x) for x in walk_ordered(tg.node)]
    fresh = [b for b in binds if any(x is b for x in outer[0].body) and norm(b.value) in ("{}", "dict()") and seq.index(id(b)) < seq.index(id(ups[0]))]
    reads = [n for n in walk_ordered(outer[0]) if isinstance(n, (ast.Assign, ast.AnnAssign)) and n.value is not None and f"{D_}[" in norm(n.value) or
             (isinstance(n, (ast.Assign, ast.AnnAssign)) and n.value is not None and f"{D_}.get(" in norm(n.value))]
    if fresh and len(reads) >= 3:
        ctx.ok()
    else:
        ctx.violation("R13.3", "_calculate_tau_gamma:stale-parameters", MRQ, ups[0],
                      f"the dictionary {D_} that collects an (RQ)/(RC) pair's values is not re-created for every pair: an (RC) pair that follows an (RQ) pair is evaluated with the previous pair's Y and n")
    # numerical helpers of the DRT methods do not write into the arrays they are given: the regularisation searches call
    # them repeatedly with trial parameters, and a helper that updates its argument in place makes each call depend on the
    # previous ones (alias-aware: through asarray/views/slices as well)
    from ..effects import array_param_writes
    n_fn = 0
    for q, f_ in sorted(model.funcs.items()):
        if not f_.module.startswith("pyimpspec.analysis.drt"):
            continue
        n_fn += 1
        for p_, st_, how_ in array_param_writes(f_.node):
            ctx.instance("R13.1", f"{f_.qual}: array argument {p_} is not written")
            ctx.violation("R13.1", f"{f_.module.split('.')[-1]}:{f_.qual}:{p_}:written-in-place", f_.module, st_,
                          f"{f_.qual} {how_}, i.e. into the caller's array `{p_}`: repeated calls (λ search, model-order search) accumulate instead of starting from the same matrix")
    control = sum(len(array_param_writes(f_.node)) for q, f_ in model.funcs.items() if f_.module.startswith("pyimpspec.analysis.kramers_kronig"))
    ctx.instance("R13.1", f"{n_fn} DRT functions write into none of their array arguments (positive control: {control} such writes are seen in the Kramers-Kronig matrix fillers, which are output parameters by design)")
    if n_fn < 40 or control < 10:
        raise AnalysisError(f"array-argument rule: {n_fn} functions / {control} control writes (floors 40 / 10)")
    ctx.ok()
    # R13.4 degrees: Z→cZ means R→cR, Y→Y/c; f→kf means τ→τ/k, Y→Y/k^n
    c, k = sp.symbols("c k", positive=True)
    for name, term in (("(RC) γ", gauss), ("(RQ) γ", rq)):
        ctx.instance("R13.4", f"{name}: degree 1 in Z, 0 in f")
        z = sp.simplify(term.subs({R_: c * R_, Y_: Y_ / c}, simultaneous=True) / term)
        fr = sp.simplify(term.subs({TAU: TAU / k, Y_: Y_ / k ** n_}, simultaneous=True) / term)
        if sp.simplify(z - c) == 0 and sp.simplify(fr - 1) == 0:
            ctx.ok()
        else:
            ctx.violation("R13.4", f"mrq_fit:{name}:degree", MRQ, tg.node, f"{name} scales by {z} under Z→cZ and by {fr} under f→kf (expected c and 1)")
    tdef = [n for n in walk_ordered(tg.node) if isinstance(n, (ast.Assign, ast.AnnAssign)) and norm(n.targets[0] if isinstance(n, ast.Assign) else n.target) == "tau"]
    ctx.instance("R13.4", "m(RQ)fit τ = 1/(2π f_interp)")
    if tdef and norm(tdef[0].value).replace(" ", "") == "1/(_interpolate(f,num_per_decade=num_per_decade)*2*pi)":
        ctx.ok()
    else:
        ctx.violation("R13.4", "mrq_fit:tau", MRQ, tg.node, "τ must be 1/(2π f) on the interpolated frequency grid")
    ctx.instance("R13.4", "TR-NNLS τ = 1/ω, ω = 2πf; Loewner τ = |−1/λ| (degree −1 in f), γ = Re(−res/λ)")
    t = norm(ent.node)
    lam_k = sp.Symbol("lam", negative=True)
    td = sp.simplify(terms["time_constants"].subs(lam, k * lam) / terms["time_constants"])
    gd = sp.simplify(terms["gammas"].subs({lam: k * lam, res: c * k * res}, simultaneous=True) / terms["gammas"])
    if "omega: NDArray[float64] = 2 * pi * f" in t and "tau: TimeConstants = 1 / omega" in t and sp.simplify(td - 1 / k) == 0 and sp.simplify(gd - c) == 0:
        ctx.ok()
    else:
        ctx.violation("R13.4", "tau-definitions", NN, ent.node, "τ must scale inversely with frequency and γ with impedance in TR-NNLS and in the Loewner peak extraction")
    ctx.sample({"kernel_real": str(kre), "kernel_imag": str(kim), "loewner": {k_: str(v) for k_, v in terms.items()}})
