"""C12 — circuit fitting respects constraints (partial: the invariants'
wiring; recovery of generating parameters is not decided)."""
from __future__ import annotations

import ast
from typing import Dict, List, Optional

from ..cfg import CFG, always_exits, own_expr
from ..core import AnalysisError, Ctx, calls_in, dotted, enclosing, norm, parent, walk_ordered
from ..model import get_model
from ..prov import MutationSummaries, Resolver, assignments, return_tuples, unpack_of_param

LEVEL = "other"
FIT = "pyimpspec.analysis.fitting"


class _Params:
    """Stand-in for lmfit.Parameters: remembers what was added; an expression naming a parameter that has not been added
    yet raises NameError (as asteval does)."""

    def __init__(self):
        self.added = {}

    def add(self, name=None, **kw):
        import re as _re
        if name is None:
            raise TypeError("add() missing name")
        expr = kw.get("expr")
        if expr is not None:
            for tok in _re.findall(r"[A-Za-z_]\w*", str(expr)):
                if tok not in self.added and tok != name:
                    raise NameError(f"name '{tok}' is not defined")
        self.added[name] = dict(kw)

    def valuesdict(self):
        return {k: v.get("value") for k, v in self.added.items()}


class _El:
    def __init__(self, values, lower, upper, fixed):
        self.v, self.l, self.u, self.f, self.set = values, lower, upper, fixed, []

    def get_values(self): return dict(self.v)
    def get_lower_limits(self): return dict(self.l)
    def get_upper_limits(self): return dict(self.u)
    def are_fixed(self): return dict(self.f)
    def get_value(self, k): return self.v[k]
    def get_lower_limit(self, k): return self.l[k]
    def get_upper_limit(self, k): return self.u[k]
    def is_fixed(self, k): return self.f[k]

    def set_values(self, *a, **kw):
        pairs = dict(zip(a[0::2], a[1::2]))
        pairs.update(kw)
        self.set.append(pairs)
        return self


def _interp_lmfit(ctx: Ctx, model):
    """_to_lmfit and _from_lmfit interpreted (sa.miniinterp) with stand-ins for lmfit.Parameters and two elements."""
    import math
    from ..miniinterp import ExcValue, InterpRaise, Mini, module_globals
    tl, fl = model.fi(FIT, "_to_lmfit"), model.fi(FIT, "_from_lmfit")
    st = {"Parameters": _Params, "inf": math.inf, "FittingError": lambda *a: ExcValue("FittingError", a), "Element": _El, "FitIdentifiers": dict}
    g = module_globals(ctx.repo.modules[FIT].tree, st)
    g.update(st)

    def world():
        a = _El({"R": 5.0, "C": 2e-6}, {"R": 0.0, "C": 1e-9}, {"R": math.inf, "C": 1.0}, {"R": False, "C": True})
        b = _El({"R": 7.0}, {"R": -math.inf}, {"R": 10.0}, {"R": False})
        return a, b, {a: {"R": "R_0", "C": "C_0"}, b: {"R": "R_1"}}
    to_p: List[str] = []
    a, b, ids = world()
    try:
        res = Mini(g, max_steps=100000).call_function(tl.node, {"identifiers": ids, "constraint_expressions": {"R_0": "2 * R_1 + k"}, "constraint_variables": {"k": {"value": 3.0, "min": 0}}})
        want = {"k": {"value": 3.0, "min": 0}, "C_0": {"value": 2e-6, "min": 1e-9, "max": 1.0, "vary": False}, "R_1": {"value": 7.0, "min": -math.inf, "max": 10.0, "vary": True},
                "R_0": {"value": 5.0, "min": 0.0, "max": math.inf, "vary": True, "expr": "2 * R_1 + k"}}
        got = res.added if isinstance(res, _Params) else res
        if isinstance(got, dict):
            # only what the property speaks of is compared: value, bounds, vary and the constraint (None ≡ not given)
            got = {k: {a: b for a, b in v.items() if a in ("value", "min", "max", "vary", "expr") and b is not None} if isinstance(v, dict) else v for k, v in got.items()}
        if got != want:
            diff = {k: (got.get(k) if isinstance(got, dict) else got, want[k]) for k in want if not isinstance(got, dict) or got.get(k) != want[k]}
            to_p.append(f"for two elements with a constraint R_0 = 2*R_1 + k lmfit receives {str(diff)[:260]} (got, expected): every parameter must be added once with its own value, limits, vary = not fixed and its constraint")
    except InterpRaise as e:
        to_p.append(f"_to_lmfit raises {e.kind} for a valid circuit with a constraint that refers to a parameter defined later")
    for label, mutate, exprs, want_kind in (("a value above its upper limit", lambda a_, b_: b_.v.update({"R": 11.0}), {}, "ValueError"), ("a value below its lower limit", lambda a_, b_: a_.v.update({"C": 1e-12}), {}, "ValueError"),
                                            ("a constraint naming an undefined variable", lambda a_, b_: None, {"R_0": "missing_name * 2"}, "FittingError")):
        a, b, ids = world()
        mutate(a, b)
        try:
            Mini(g, max_steps=100000).call_function(tl.node, {"identifiers": ids, "constraint_expressions": exprs, "constraint_variables": {}})
            to_p.append(f"_to_lmfit accepts {label}")
        except InterpRaise as e:
            if e.kind != want_kind:
                to_p.append(f"_to_lmfit raises {e.kind} instead of {want_kind} for {label}")
    from_p: List[str] = []
    a, b, ids = world()
    ps = _Params()
    for k_, v_ in (("R_0", 1.5), ("C_0", 2.5), ("R_1", 3.5), ("k", 9.0)):
        ps.add(name=k_, value=v_)
    try:
        Mini(g, max_steps=100000).call_function(fl.node, {"parameters": ps, "identifiers": ids})
        merged_a, merged_b = {}, {}
        for d in a.set:
            merged_a.update(d)
        for d in b.set:
            merged_b.update(d)
        if merged_a != {"R": 1.5, "C": 2.5} or merged_b != {"R": 3.5}:
            from_p.append(f"the elements receive {merged_a} and {merged_b} instead of {{'R': 1.5, 'C': 2.5}} and {{'R': 3.5}}")
    except InterpRaise as e:
        from_p.append(f"_from_lmfit raises {e.kind}")
    return to_p, from_p


def check(ctx: Ctx) -> None:
    model = get_model(ctx.repo)
    ctx.modules_consulted.add(FIT)
    ctx.rule("R12.1", "_to_lmfit hands lmfit, for every parameter of every element, value/min/max/vary from get_values/get_lower_limits/get_upper_limits/not are_fixed of that element and expr from the user's constraint; values outside their limits are refused before fitting")
    ctx.rule("R12.2", "_fit_process works on a deep copy of the input circuit; identifiers come from the copy; every path to the success return passes the final _from_lmfit(fit.params, identifiers)")
    ctx.rule("R12.3", "FitResult.parameters = _extract_parameters(circuit, fit) for the same circuit and fit that fill the result; fixed parameters are read from the circuit, varied ones from fit.params")
    ctx.rule("R12.4", "fit_circuit does not modify its circuit or data set and validates method and weight against the tables it iterates before any work")
    ctx.rule("R12.5", "winner selection: ordered fan-in, key increasing in pseudo chi-squared for successful fits and inf for failed ones, index 0 returned; _from_lmfit's lookup inverts the identifier map")
    ctx.assumptions += ["lmfit honours min/max/vary/expr of Parameters (library contract)"]

    # ---------------- R12.1 ---------------------------------------------------------
    tl = model.fi(FIT, "_to_lmfit")
    lm_interpreted = True
    try:
        to_p, from_p = _interp_lmfit(ctx, model)
    except AnalysisError as e:
        lm_interpreted = False
        ctx.note(f"_to_lmfit/_from_lmfit not interpretable ({e}); decided from their shape instead")
    if lm_interpreted:
        ctx.instance("R12.1", "_to_lmfit interpreted with stand-ins for lmfit.Parameters and two elements: every parameter added once with value/min/max/vary/expr of its own element; out-of-limit values and unsatisfiable constraints refused")
        if to_p:
            ctx.violation("R12.1", "_to_lmfit:semantics", FIT, tl.node, "_to_lmfit: " + to_p[0])
        else:
            ctx.ok()
    _r12_rest(ctx, model, tl, lm_interpreted, from_p if lm_interpreted else None)


def _r12_rest(ctx: Ctx, model, tl, lm_interpreted: bool, from_p) -> None:
    if not lm_interpreted:
        _to_lmfit_shape(ctx, model, tl)
    _r12_after(ctx, model, lm_interpreted, from_p)


def _to_lmfit_shape(ctx: Ctx, model, tl) -> None:
    loop = next((n for n in walk_ordered(tl.node) if isinstance(n, ast.For) and norm(n.iter) == "identifiers.items()"), None)
    if loop is None:
        raise AnalysisError("_to_lmfit: loop over identifiers.items() not found")
    elem, mapping = [norm(e) for e in loop.target.elts]
    inner = next((n for n in walk_ordered(loop) if isinstance(n, ast.For) and norm(n.iter) == f"{elem}.get_values().items()"), None)
    if inner is None:
        raise AnalysisError("_to_lmfit: loop over element.get_values().items() not found")
    sym, val = [norm(e) for e in inner.target.elts]
    defs = {}
    for n in loop.body:
        if isinstance(n, (ast.Assign, ast.AnnAssign)) and n.value is not None:
            defs[norm(n.targets[0] if isinstance(n, ast.Assign) else n.target)] = norm(n.value)
    kw_call = next((n for n in walk_ordered(inner) if isinstance(n, ast.Assign) and norm(n.targets[0]) == "kwargs" and isinstance(n.value, ast.Call) and dotted(n.value.func) == "dict"), None)
    if kw_call is None:
        raise AnalysisError("_to_lmfit: kwargs = dict(...) not found")
    kws = {k.arg: norm(k.value) for k in kw_call.value.keywords}
    name_def = next((norm(n.value) for n in walk_ordered(inner) if isinstance(n, (ast.Assign, ast.AnnAssign)) and norm(n.targets[0] if isinstance(n, ast.Assign) else n.target) == "name" and n.value is not None), None)

    def src(dname: str) -> Optional[str]:
        return defs.get(dname)

    want = {
        "value": (kws.get("value") == val, f"value={kws.get('value')} (expected the current value `{val}`)"),
        "min": (kws.get("min", "").endswith(f"[{sym}]") and src(kws.get("min", "").split("[")[0]) == f"{elem}.get_lower_limits()", f"min={kws.get('min')}"),
        "max": (kws.get("max", "").endswith(f"[{sym}]") and src(kws.get("max", "").split("[")[0]) == f"{elem}.get_upper_limits()", f"max={kws.get('max')}"),
        "vary": (kws.get("vary", "").startswith("not ") and kws.get("vary", "").endswith(f"[{sym}]") and src(kws.get("vary", "")[4:].split("[")[0]) == f"{elem}.are_fixed()", f"vary={kws.get('vary')}"),
        "name": (kws.get("name") == "name" and name_def == f"{mapping}[{sym}]", f"name={kws.get('name')} ← {name_def}"),
    }
    for k, (ok, txt) in want.items():
        ctx.instance("R12.1", f"_to_lmfit: {txt}")
        if ok:
            ctx.ok()
        else:
            ctx.violation("R12.1", f"_to_lmfit:{k}", FIT, kw_call,
                          f"_to_lmfit passes {txt} to lmfit: the parameter's {k} does not come from the element's own {('limits' if k in ('min', 'max') else 'state')}")
    ctx.instance("R12.1", "_to_lmfit: constraint expression attached under the parameter's own name")
    ex = [n for n in walk_ordered(inner) if isinstance(n, ast.Assign) and norm(n.targets[0]) == "kwargs['expr']"]
    if len(ex) == 1 and norm(ex[0].value) == "constraint_expressions[name]" and isinstance(parent(ex[0]), ast.If) and norm(parent(ex[0]).test) == "name in constraint_expressions":
        ctx.ok()
    else:
        ctx.violation("R12.1", "_to_lmfit:expr", FIT, inner, "constraint expressions are not attached as expr=constraint_expressions[name] under `name in constraint_expressions`")
    ctx.instance("R12.1", "_to_lmfit: every parameter is added (directly or after queueing)")
    adds = [c for c in calls_in(tl.node) if norm(c.func) == "result.add"]
    q = [c for c in calls_in(inner) if norm(c.func) == "queued_kwargs.append"]
    direct = [c for c in calls_in(inner) if norm(c.func) == "result.add" and any(k.arg is None and norm(k.value) == "kwargs" for k in c.keywords)]
    requeue = "raise FittingError" in norm(tl.node) and "len(queued_kwargs) > 0" in norm(tl.node)
    if q and direct and requeue:
        ctx.ok()
    else:
        ctx.violation("R12.1", "_to_lmfit:add", FIT, tl.node, "a parameter can be dropped: each must be added with result.add(**kwargs), queued ones retried, leftovers refused")
    ctx.instance("R12.1", "_to_lmfit: a value outside its limits is refused before fitting")
    guard = [n for n in inner.body if isinstance(n, ast.If) and always_exits(n.body)]
    g_ok = False
    from ..prov import inline_call
    for g in guard:
        test_ = g.test
        # a predicate helper (`not _is_within_limits(value, lo, hi)`) is replaced by the expression it returns
        if isinstance(test_, ast.UnaryOp) and isinstance(test_.op, ast.Not) and isinstance(test_.operand, ast.Call):
            inl = inline_call(model, tl, test_.operand)
            if inl is not None:
                test_ = ast.UnaryOp(op=ast.Not(), operand=inl)
        t = norm(test_).replace(" ", "")
        lo, hi = kws.get("min", "?").replace(" ", ""), kws.get("max", "?").replace(" ", "")
        if t == f"not{lo}<={val}<={hi}" or t == f"not({lo}<={val}<={hi})":
            g_ok = g.lineno < kw_call.lineno
    if g_ok:
        ctx.ok()
    else:
        ctx.violation("R12.1", "_to_lmfit:limit-refusal", FIT, inner, "a parameter value outside [lower, upper] is not refused before the parameter is handed to lmfit")



def _r12_after(ctx: Ctx, model, lm_interpreted: bool, from_p) -> None:
    # ---------------- R12.2 ---------------------------------------------------------
    fp = model.fi(FIT, "_fit_process")
    unp = unpack_of_param(fp.node, "args")
    fc0 = model.fi(FIT, "fit_circuit")
    gen0 = [n for n in walk_ordered(fc0.node) if isinstance(n, ast.Assign) and norm(n.targets[0]) == "args" and isinstance(n.value, ast.GeneratorExp) and isinstance(n.value.elt, ast.Tuple)]
    if not unp or len(gen0) != 1 or len(gen0[0].value.elt.elts) != len(unp):
        raise AnalysisError("_fit_process / fit_circuit: worker tuple not found or arity mismatch")
    # which tuple position carries the caller's circuit?
    RC0 = Resolver(fc0.node)
    pos_c = [i for i, e in enumerate(gen0[0].value.elt.elts) if RC0.text(e, gen0[0]) == "circuit"]
    ctx.instance("R12.2", "_fit_process: the input circuit is only deep-copied")
    if len(pos_c) != 1:
        ctx.violation("R12.2", "fit_circuit:worker-tuple-circuit", FIT, gen0[0],
                      "fit_circuit does not hand the caller's circuit itself to each task (e.g. one shared working copy for all method/weight combinations): "
                      "tasks run serially then overwrite each other's parameters")
        cname_in = unp[0]
    else:
        cname_in = unp[pos_c[0]]
    uses = [n for n in walk_ordered(fp.node) if isinstance(n, ast.Name) and n.id == cname_in and isinstance(n.ctx, ast.Load)]
    bad = [n for n in uses if not (isinstance(parent(n), ast.Call) and dotted(parent(n).func) == "deepcopy")]
    if uses and not bad:
        ctx.ok()
    else:
        ctx.violation("R12.2", "_fit_process:original-used", FIT, (bad or [fp.node])[0],
                      "_fit_process uses the caller's circuit other than as the argument of deepcopy: fitting would modify the circuit passed in (serial mode)")
    ctx.instance("R12.2", "_fit_process: identifiers are generated from the copy, and the copy is what is fitted and returned")
    R = Resolver(fp.node)
    idef = [b for b in assignments(fp.node, "identifiers") if b[2] == "assign"]
    cdef = [b for b in assignments(fp.node, "circuit") if b[2] == "assign"]
    ok = len(idef) == 1 and norm(idef[0][0].value) == "generate_fit_identifiers(circuit)" and len(cdef) == 1 and norm(cdef[0][0].value) == f"deepcopy({cname_in})" \
        and cdef[0][0].lineno < idef[0][0].lineno
    mini = [c for c in calls_in(fp.node) if dotted(c.func) == "minimize"]
    if ok and len(mini) == 1:
        a = next((k.value for k in mini[0].keywords if k.arg == "args"), None)
        ok = isinstance(a, ast.Tuple) and norm(a.elts[0]) == "circuit" and norm(a.elts[-1]) == "identifiers" and norm(mini[0].args[0]) == "_residual" \
            and norm(mini[0].args[1]).startswith("_to_lmfit(identifiers,")
    else:
        ok = False
    if ok:
        ctx.ok()
    else:
        ctx.violation("R12.2", "_fit_process:wiring", FIT, fp.node, "_fit_process must fit the deep copy: identifiers = generate_fit_identifiers(copy); minimize(_residual, _to_lmfit(identifiers, …), args=(copy, …, identifiers))")
    ctx.instance("R12.2", "_fit_process: the success return is preceded by the final write-back on every path")
    cfg = CFG(fp.node)
    rets = [nd for nd in cfg.nodes if isinstance(nd.ast, ast.Return) and isinstance(nd.ast.value, ast.Tuple) and norm(nd.ast.value.elts[2]) == "fit"]
    if len(rets) != 1:
        raise AnalysisError("_fit_process: success return (…, fit, …) not found")
    wb = lambda nd: own_expr(nd) is not None and any(isinstance(c, ast.Call) and dotted(c.func) == "_from_lmfit" and norm(c.args[0]) == "fit.params" and norm(c.args[1]) == "identifiers" for c in ast.walk(own_expr(nd)))
    if cfg.must_pass(rets[0].id, wb):
        # nothing mutates the circuit between the write-back and the return
        ctx.ok()
    else:
        ctx.violation("R12.2", "_fit_process:no-writeback", FIT, rets[0].ast,
                      "a path reaches the success return without _from_lmfit(fit.params, identifiers): the returned circuit would hold the last trial values, not the fitted ones")
    res = model.fi(FIT, "_residual")
    ctx.instance("R12.2", "_residual evaluates the circuit after writing the trial parameters into it")
    calls = [c for c in calls_in(res.node)]
    wbi = [c.lineno for c in calls if dotted(c.func) == "_from_lmfit"]
    gi = [c.lineno for c in calls if norm(c.func) == "circuit.get_impedances"]
    if wbi and gi and min(wbi) < min(gi):
        ctx.ok()
    else:
        ctx.violation("R12.2", "_residual:order", FIT, res.node, "_residual must call _from_lmfit(params, identifiers) before circuit.get_impedances(f)")

    from .c14 import copy_carries_flags
    copy_carries_flags(ctx, model, "R12.2")

    # ---------------- R12.3 ---------------------------------------------------------
    cv = model.fi(FIT, "_convert_intermediate_result")
    ctor = [c for c in calls_in(cv.node) if dotted(c.func) == "FitResult"]
    if len(ctor) != 1:
        raise AnalysisError("_convert_intermediate_result: FitResult(...) not found")
    kw = {k.arg: norm(k.value) for k in ctor[0].keywords}
    ctx.instance("R12.3", f"FitResult(circuit={kw.get('circuit')}, parameters={kw.get('parameters')}, minimizer_result={kw.get('minimizer_result')})")
    if kw.get("parameters") == f"_extract_parameters({kw.get('circuit')}, {kw.get('minimizer_result')})":
        ctx.ok()
    else:
        ctx.violation("R12.3", "FitResult:parameters-source", FIT, ctor[0], "the parameter table is not extracted from the same circuit and minimizer result that the FitResult carries")
    ep = model.fi(FIT, "_extract_parameters")
    ctx.instance("R12.3", "_extract_parameters: varied ← fit.params[name].value, fixed ← element.get_values()")
    t = norm(ep.node)
    varied = "par = fit.params[variable_name]" in t and "value=par.value" in t and "fixed=False" in t
    fixed_loop = next((n for n in walk_ordered(ep.node) if isinstance(n, ast.For) and norm(n.iter) == "element.get_values().items()"), None)
    fixed_ok = fixed_loop is not None and "value=value" in norm(fixed_loop) and "fixed=True" in norm(fixed_loop) and "if name in parameters[element_name]:\n" in norm(fixed_loop).replace("        ", "")
    if varied and fixed_ok:
        ctx.ok()
    else:
        ctx.violation("R12.3", "_extract_parameters:sources", FIT, ep.node, "varied parameters must be reported from fit.params and the remaining (fixed) ones from the circuit's current values")

    # ---------------- R12.4 ---------------------------------------------------------
    fc = model.fi(FIT, "fit_circuit")
    ms = MutationSummaries(model)
    for p in ("circuit", "data"):
        ctx.instance("R12.4", f"fit_circuit does not modify `{p}`")
        if p in ms.mutates.get(fc.qname, set()):
            node, how = ms.why[(fc.qname, p)]
            ctx.violation("R12.4", f"fit_circuit:{p}", FIT, node, f"fit_circuit may modify its `{p}` argument: {how}")
        else:
            ctx.ok()
    withs = [n for n in walk_ordered(fc.node) if isinstance(n, ast.With)]
    if not withs:
        raise AnalysisError("fit_circuit: Progress block not found")
    for table, var in (("_METHODS", "methods"), ("_WEIGHT_FUNCTIONS", "weights")):
        ctx.instance("R12.4", f"fit_circuit validates {var} against {table} before work starts")
        guards = [n for n in fc.node.body if isinstance(n, ast.If) and always_exits(n.body) and table in norm(n.test) and var in norm(n.test) and n.lineno < withs[0].lineno]
        # the validated list is what is iterated (statement loop or comprehension), after the guard
        loops = [n for n in walk_ordered(fc.node) if isinstance(n, (ast.For, ast.comprehension)) and norm(n.iter) == var
                 and guards and getattr(n, "lineno", getattr(n.iter, "lineno", 0)) > guards[0].lineno]
        # … or handed to a combinator that enumerates it (itertools.product, zip)
        loops += [c for c in calls_in(fc.node) if dotted(c.func).split(".")[-1] in ("product", "zip") and any(norm(a) == var for a in c.args)
                  and guards and c.lineno > guards[0].lineno]
        if guards and loops:
            ctx.ok()
        else:
            ctx.violation("R12.4", f"fit_circuit:validate-{var}", FIT, fc.node, f"every entry of {var} must be checked against {table} before fitting starts, and {var} is what is iterated")
    fpw = [n for n in walk_ordered(fp.node) if isinstance(n, (ast.Assign, ast.AnnAssign)) and n.value is not None and norm(n.value) == "_WEIGHT_FUNCTIONS[weight]"]
    ctx.instance("R12.4", "_fit_process looks the weight function up in the validated table")
    if fpw:
        ctx.ok()
    else:
        ctx.violation("R12.4", "_fit_process:weight-lookup", FIT, fp.node, "the weight function must be taken from _WEIGHT_FUNCTIONS[weight]")

    # ---------------- R12.5 ---------------------------------------------------------
    ctx.instance("R12.5", "fit_circuit: candidates sorted by log(chi²) for successes, inf for failures; first one converted")
    sorts = [c for c in calls_in(fc.node) if norm(c.func) == "fits.sort"]
    good = len(sorts) == 1
    if good:
        key = next((k.value for k in sorts[0].keywords if k.arg == "key"), None)
        good = isinstance(key, ast.Lambda) and isinstance(key.body, ast.IfExp)
        if good:
            a = key.args.args[0].arg
            b = key.body
            good = norm(b.test) == f"{a}[2] is not None" and norm(b.body) in (f"log({a}[1])", f"{a}[1]") and norm(b.orelse) == "inf" \
                and not any(k.arg == "reverse" for k in sorts[0].keywords)
    rets = [n for n in walk_ordered(fc.node) if isinstance(n, ast.Return)]
    good = good and len(rets) == 1 and norm(rets[0].value) == "_convert_intermediate_result(fits[0], f, Z_exp)"
    if good:
        ctx.ok()
    else:
        ctx.violation("R12.5", "fit_circuit:winner", FIT, fc.node, "the returned fit must be the candidate with the smallest pseudo chi-squared among the successful ones (failed ones ranked last)")
    ctx.instance("R12.5", "_convert_intermediate_result refuses a failed winner")
    if any(isinstance(n, ast.If) and norm(n.test) == "fit is None" and always_exits(n.body) for n in walk_ordered(cv.node)):
        ctx.ok()
    else:
        ctx.violation("R12.5", "_convert_intermediate_result:failed", FIT, cv.node, "a failed fit (no minimizer result) must be refused, not returned")
    fl = model.fi(FIT, "_from_lmfit")
    ctx.instance("R12.5", "_from_lmfit: lookup is the inverse of the identifier map; values written with set_values")
    t = norm(fl.node)
    if lm_interpreted:
        if from_p:
            ctx.violation("R12.5", "_from_lmfit:lookup", FIT, fl.node, "_from_lmfit must map every lmfit name back to (element, symbol) through the identifiers it was given and write the value with set_values: " + from_p[0])
        else:
            ctx.ok()
    elif "lookup[key] = (element, symbol)" in t and "for symbol, key in mapping.items()" in t and "element, symbol = lookup[key]" in t \
            and "fitted_values[element][symbol] = value" in t and "element.set_values(**values)" in t:
        ctx.ok()
    else:
        ctx.violation("R12.5", "_from_lmfit:lookup", FIT, fl.node, "_from_lmfit must map every lmfit name back to (element, symbol) through the identifiers it was given and write the value with set_values")
    ctx.sample({"lmfit": "value, min, max, vary = not fixed, expr — per parameter of each element (interpreted)"})
