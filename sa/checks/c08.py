"""C08 — every analysis result is internally consistent with the data it came
from (provenance of the fields of each result object; definitions of residual
and pseudo chi-squared; masked points; inputs untouched)."""
from __future__ import annotations

import ast
from typing import Dict, List, Optional, Set, Tuple

import sympy as sp

from ..core import AnalysisError, Ctx, calls_in, dotted, enclosing, enclosing_function_name, norm, parent, walk_ordered
from ..model import get_model
from ..numeric import RepoInterp
from ..prov import MutationSummaries, Resolver, call_args, return_tuples, unpack_of_param
from ..terms import Unsupported

LEVEL = "other"
AN = "pyimpspec.analysis"
UT = f"{AN}.utility"

SITES = [
    (f"{AN}.kramers_kronig.exploratory", "evaluate_log_F_ext", "KramersKronigResult"),
    (f"{AN}.zhit", "perform_zhit", "ZHITResult"),
    (f"{AN}.drt.tr_nnls", "calculate_drt_tr_nnls", "TRNNLSResult"),
    (f"{AN}.drt.tr_rbf", "calculate_drt_tr_rbf", "TRRBFResult"),
    (f"{AN}.drt.bht", "calculate_drt_bht", "BHTResult"),
    (f"{AN}.drt.mrq_fit", "calculate_drt_mrq_fit", "MRQFitResult"),
    (f"{AN}.drt.lm", "calculate_drt_lm", "LMResult"),
    (f"{AN}.fitting", "_convert_intermediate_result", "FitResult"),
]
FREQ_OK = {"data.get_frequencies()", "data.get_frequencies(masked=False)"}
IMP_OK = {"data.get_impedances()", "data.get_impedances(masked=False)"}


def _strip_identity_pow(s: str) -> str:
    return s


def check(ctx: Ctx) -> None:
    model = get_model(ctx.repo)
    ctx.rule("R8.1", "same pair at every result-construction site: frequencies = data.get_frequencies(); residuals = _calculate_residuals(A, B) and pseudo_chisqr = _calculate_pseudo_chisqr(A, B) for A = data.get_impedances() and B = the reported impedances")
    ctx.rule("R8.2", "identity: |_calculate_residuals|² is the summand of _calculate_pseudo_chisqr with the default weight; the three Boukamp weight functions are the same term")
    ctx.rule("R8.3", "masked points never enter: every read of a DataSet in analysis/ uses the default (unmasked) view or metadata getters; the getters' default is masked=False")
    ctx.rule("R8.4", "inputs untouched: no public analysis entry point may mutate its data set or circuit argument (inter-procedural mutation summaries, worker tuples followed)")
    ctx.assumptions += ["multiprocessing workers receive pickled copies, the serial twin receives the caller's objects: mutation summaries treat both alike"]

    # ---------------- R8.1 -------------------------------------------------------------
    res_fi = model.fi(UT, "_calculate_residuals")
    chi_fi = model.fi(UT, "_calculate_pseudo_chisqr")
    for mod, fn, cls in SITES:
        fi0 = model.fi(mod, fn)
        ctx.modules_consulted.add(mod)
        # helpers extracted from the site (same module, private, one return expression) are inlined into a clone
        from ..prov import inlined_function
        import copy as _copy
        fi = _copy.copy(fi0)
        if not [c for c in calls_in(fi0.node) if dotted(c.func) == cls]:
            fi.node = inlined_function(model, fi0)
        ctor = [c for c in calls_in(fi.node) if dotted(c.func) == cls]
        if len(ctor) != 1:
            raise AnalysisError(f"{fn}: expected exactly one {cls}(…) construction, found {len(ctor)}")
        c = ctor[0]
        kw = {k.arg: k.value for k in c.keywords}
        for need in ("frequencies", "impedances", "residuals", "pseudo_chisqr"):
            if need not in kw:
                raise AnalysisError(f"{fn}: {cls}(…) has no {need}= keyword")
        R = Resolver(fi.node)
        site = f"{fn}→{cls}"
        # the data side: in _convert_intermediate_result, f and Z_exp are parameters bound by fit_circuit
        bind: Dict[str, str] = {}
        if fn == "_convert_intermediate_result":
            caller = model.fi(mod, "fit_circuit")
            call = [x for x in calls_in(caller.node) if dotted(x.func) == "_convert_intermediate_result"]
            if len(call) != 1:
                raise AnalysisError("fit_circuit: call of _convert_intermediate_result not found")
            RC = Resolver(caller.node)
            b = call_args(call[0], fi.node)
            bind = {p: RC.text(v, call[0]) for p, v in b.items()}

        def RES(e: ast.AST) -> ast.AST:
            node = R.resolve(e, c)

            class N(ast.NodeTransformer):
                def visit_Call(self, n):
                    n = self.generic_visit(n)
                    # flip(flip(x)) → x (orientation typestate: two flips cancel)
                    if isinstance(n.func, ast.Name) and n.func.id == "flip" and len(n.args) == 1 and isinstance(n.args[0], ast.Call) \
                            and isinstance(n.args[0].func, ast.Name) and n.args[0].func.id == "flip" and len(n.args[0].args) == 1:
                        return n.args[0].args[0]
                    return n

                def visit_Name(self, n):
                    if bind and n.id in bind and n.id in ("f", "Z_exp"):
                        return ast.parse(bind[n.id], mode="eval").body
                    return n
            out_ = ast.fix_missing_locations(N().visit(node))
            if "proj(" in ast.unparse(out_):
                from ..prov import inline_projections
                out_ = inline_projections(model, fi0, out_)
            return out_

        def T(e: ast.AST) -> str:
            return ast.unparse(RES(e))

        f_t = T(kw["frequencies"])
        ctx.instance("R8.1", f"{site}: frequencies = {f_t[:60]}")
        if f_t in FREQ_OK:
            ctx.ok()
        else:
            ctx.violation("R8.1", f"{site}:frequencies", mod, c, f"{site}: frequencies are {f_t[:80]}, not the unmasked frequencies of the input data set")
        B = T(kw["impedances"])
        # where the result also carries the circuit: the reported impedances are that circuit's response at the reported
        # frequencies (every reaching definition of them), not a response remembered from elsewhere
        if "circuit" in kw:
            C_t = T(kw["circuit"])
            ctx.instance("R8.1", f"{site}: impedances = response of the reported circuit at the reported frequencies")
            B_all = RES(kw["impedances"])
            alts_ = list(B_all.args) if isinstance(B_all, ast.Call) and isinstance(B_all.func, ast.Name) and B_all.func.id == "phi" else [B_all]
            okc = True
            bad_alt = ""
            for alt in alts_:
                t_ = ast.unparse(alt)
                F_ok = [f_t] + sorted(FREQ_OK)
                forms = [f"{C_t}.get_impedances({F})" for F in F_ok] + [f"simulate_spectrum({C_t}, {F}).get_impedances()" for F in F_ok] \
                    + [f"simulate_spectrum({C_t}, {F}, label='').get_impedances()" for F in F_ok]
                if t_ not in forms:
                    okc = False
                    bad_alt = t_
            if okc:
                ctx.ok()
            else:
                ctx.violation("R8.1", f"{site}:impedances-source", mod, kw["impedances"],
                              f"{site}: the reported impedances can be {bad_alt[:90]}, which is not the response of the reported circuit ({C_t[:50]}) at the reported frequencies")
        # residuals
        rv = RES(kw["residuals"])
        ctx.instance("R8.1", f"{site}: residuals = {norm(kw['residuals'])[:60]}")
        if isinstance(rv, ast.Call) and dotted(rv.func) == "_calculate_residuals":
            a = call_args(rv, res_fi.node)
            A_t, B_t = ast.unparse(a["Z_exp"]), ast.unparse(a["Z_fit"])
            if A_t not in IMP_OK:
                ctx.violation("R8.1", f"{site}:residuals-data", mod, kw["residuals"], f"{site}: residuals are computed against {A_t[:80]}, not data.get_impedances()")
            elif B_t != B:
                ctx.violation("R8.1", f"{site}:residuals-model", mod, kw["residuals"], f"{site}: residuals use model impedances {B_t[:60]} but the result reports {B[:60]}")
            else:
                ctx.ok()
        else:
            ctx.violation("R8.1", f"{site}:residuals-source", mod, kw["residuals"],
                          f"{site}: residuals are taken from {ast.unparse(rv)[:80]} instead of _calculate_residuals(data.get_impedances(), <reported impedances>)")
        # pseudo chi-squared
        pv0 = kw["pseudo_chisqr"]
        pv = RES(pv0)
        ctx.instance("R8.1", f"{site}: pseudo_chisqr = {norm(pv0)[:60]}")
        def _alts(node):
            return list(node.args) if isinstance(node, ast.Call) and isinstance(node.func, ast.Name) and node.func.id == "phi" else [node]
        B_node = RES(kw["impedances"])
        pv_alts, B_alts = _alts(pv), _alts(B_node)
        if len(pv_alts) > 1 and len(pv_alts) == len(B_alts) and all(isinstance(x, ast.Call) and dotted(x.func) == "_calculate_pseudo_chisqr" for x in pv_alts):
            # the value and the model impedances are (re)computed together on each of several paths: pair them path by path
            bad_i = None
            for x, b_ in zip(pv_alts, B_alts):
                a = call_args(x, chi_fi.node)
                w = a.get("weight")
                if ast.unparse(a["Z_exp"]) not in IMP_OK or ast.unparse(a["Z_fit"]) != ast.unparse(b_) or (w is not None and not (isinstance(w, ast.Constant) and w.value is None)):
                    bad_i = (ast.unparse(a["Z_exp"]), ast.unparse(a["Z_fit"]), ast.unparse(b_))
            if bad_i is None:
                ctx.ok()
            else:
                ctx.violation("R8.1", f"{site}:chisqr-model", mod, pv0, f"{site}: on one path the pseudo chi-squared is computed from ({bad_i[0][:50]}, {bad_i[1][:50]}) while the result reports {bad_i[2][:50]}")
        elif isinstance(pv, ast.Call) and dotted(pv.func) == "_calculate_pseudo_chisqr":
            a = call_args(pv, chi_fi.node)
            A_t, B_t = ast.unparse(a["Z_exp"]), ast.unparse(a["Z_fit"])
            w = a.get("weight")
            if A_t not in IMP_OK:
                ctx.violation("R8.1", f"{site}:chisqr-data", mod, pv0, f"{site}: pseudo chi-squared is computed against {A_t[:80]}, not data.get_impedances()")
            elif B_t != B:
                ctx.violation("R8.1", f"{site}:chisqr-model", mod, pv0, f"{site}: pseudo chi-squared uses model impedances {B_t[:60]} but the result reports {B[:60]}")
            elif w is not None and not (isinstance(w, ast.Constant) and w.value is None):
                ctx.violation("R8.1", f"{site}:chisqr-weight", mod, pv0, f"{site}: pseudo chi-squared is computed with an explicit weight {ast.unparse(w)[:60]}")
            else:
                ctx.ok()
        else:
            _producer(ctx, model, mod, fn, site, fi, c, pv0, B, T)
    ctx.floor("R8.1", 24)

    # ---------------- R8.2 -------------------------------------------------------------
    a1, a2, b1, b2 = sp.symbols("a1 a2 b1 b2", real=True)
    A, Bz = a1 + sp.I * a2, b1 + sp.I * b2
    interp = RepoInterp(model, extra_call=lambda fi, name, node, args, kwargs, env: (sp.Integer(0) if name in ("_is_complex_array", "_is_floating_array") else (args[0] if name in ("float", "array_sum") else NotImplemented)))

    def paths_of(fi, env):
        try:
            ps = interp.paths(fi, env)
        except Unsupported as e:
            raise AnalysisError(f"{fi.qual}: outside the term fragment: {e}")
        return [p for p in ps if p.kind == "return"]

    r_paths = paths_of(res_fi, {"Z_exp": A, "Z_fit": Bz})
    if len(r_paths) != 1:
        raise AnalysisError("_calculate_residuals: expected a single return path")
    r = r_paths[0].value
    bw = model.fi(UT, "_boukamp_weight")
    w_paths = paths_of(bw, {"Z_exp": A})
    w_def = sp.simplify(w_paths[-1].value)
    ctx.instance("R8.2", "default weight is 1/|Z_exp|²")
    if sp.simplify(w_def - 1 / (a1 ** 2 + a2 ** 2)) == 0:
        ctx.ok()
    else:
        ctx.violation("R8.2", "_boukamp_weight:term", UT, bw.node, f"analysis.utility._boukamp_weight is {w_def}, not 1/|Z|²")
    # summand of pseudo chi-squared: interpret the return expression with weight bound to the default
    c_paths = paths_of(chi_fi, {"Z_exp": A, "Z_fit": Bz, "weight": sp.Symbol("w", positive=True)})
    summ = c_paths[-1].value
    summ = summ.subs(sp.Symbol("w", positive=True), w_def)
    ctx.instance("R8.2", "|residual|² ≡ summand of pseudo chi-squared")
    lhs = sp.simplify(sp.re(r) ** 2 + sp.im(r) ** 2)
    if sp.simplify(lhs - summ) == 0:
        ctx.ok()
    else:
        ctx.violation("R8.2", "definitions:identity", UT, chi_fi.node,
                      f"sum of squared moduli of the residuals ({lhs}) is not the pseudo chi-squared summand ({sp.simplify(summ)})")
    # None → default weight
    ctx.instance("R8.2", "weight None → _boukamp_weight(Z_exp)")
    src = norm(chi_fi.node)
    if "if weight is None:\n        weight = _boukamp_weight(Z_exp)" in src:
        ctx.ok()
    else:
        ctx.violation("R8.2", "_calculate_pseudo_chisqr:default-weight", UT, chi_fi.node, "the default weight is no longer _boukamp_weight(Z_exp)")
    kkw = model.fi(f"{AN}.kramers_kronig.utility", "_boukamp_weight")

    def decide_adm(flag):
        def d(test, env):
            return flag if norm(test) == "admittance" else None
        return d
    it2 = RepoInterp(model, decide=decide_adm(False))
    try:
        k_paths = [p for p in it2.paths(kkw, {"Z": A, "admittance": False}) if p.kind == "return"]
    except Unsupported as e:
        raise AnalysisError(f"kramers_kronig.utility._boukamp_weight: {e}")
    ctx.instance("R8.2", "kramers_kronig.utility._boukamp_weight(Z, False) ≡ analysis.utility._boukamp_weight(Z)")
    if len(k_paths) == 1 and sp.simplify(k_paths[0].value - w_def) == 0:
        ctx.ok()
    else:
        ctx.violation("R8.2", "kk._boukamp_weight:term", kkw.module, kkw.node, "the Kramers-Kronig weight with admittance=False differs from the default pseudo chi-squared weight")
    fw = model.fi(f"{AN}.fitting", "_boukamp_weight")
    f_paths = paths_of(fw, {"Z_exp": A, "Z_fit": Bz})
    ctx.instance("R8.2", "fitting._boukamp_weight ≡ analysis.utility._boukamp_weight")
    if len(f_paths) == 1 and sp.simplify(f_paths[0].value - w_def) == 0:
        ctx.ok()
    else:
        ctx.violation("R8.2", "fitting._boukamp_weight:term", fw.module, fw.node, "fitting._boukamp_weight differs from 1/|Z_exp|²")

    # ---------------- R8.3 -------------------------------------------------------------
    ds = "pyimpspec.data.data_set"
    for g in ("get_frequencies", "get_impedances"):
        gfi = model.fi(ds, f"DataSet.{g}")
        ctx.instance("R8.3", f"DataSet.{g}: default masked=False")
        d = gfi.node.args.defaults
        if len(d) == 1 and isinstance(d[0], ast.Constant) and d[0].value is False:
            ctx.ok()
        else:
            ctx.violation("R8.3", f"DataSet.{g}:default", ds, gfi.node, f"DataSet.{g}: the default view is no longer the unmasked one")
    getters = {"get_frequencies", "get_impedances", "get_magnitudes", "get_phases", "get_num_points", "get_nyquist_data", "get_bode_data", "to_dataframe"}
    n_reads = 0
    for q, fi in sorted(model.funcs.items()):
        if not fi.module.startswith(AN):
            continue
        a = fi.node.args
        dnames = {x.arg for x in a.posonlyargs + a.args + a.kwonlyargs if x.annotation is not None and norm(x.annotation).strip("'\"") in ("DataSet", "Optional[DataSet]")}
        dnames |= {x.arg for x in a.posonlyargs + a.args + a.kwonlyargs if x.arg == "data"}
        if not dnames:
            continue
        for n in walk_ordered(fi.node):
            if isinstance(n, ast.Attribute) and isinstance(n.value, ast.Name) and n.value.id in dnames:
                if n.attr.startswith("_"):
                    n_reads += 1
                    ctx.instance("R8.3", f"{fi.qual}: {norm(n)}")
                    ctx.violation("R8.3", f"{fi.qual}:private:{n.attr}", fi.module, n, f"{fi.qual} reads the private state {norm(n)} of its data set (bypasses the mask)")
                elif n.attr in getters and isinstance(parent(n), ast.Call) and parent(n).func is n:
                    call = parent(n)
                    n_reads += 1
                    m = None
                    for k in call.keywords:
                        if k.arg == "masked":
                            m = k.value
                    if m is None and call.args and n.attr != "to_dataframe":
                        m = call.args[0]
                    ctx.instance("R8.3", f"{fi.qual}: {norm(call)}")
                    if m is None or (isinstance(m, ast.Constant) and m.value is False):
                        ctx.ok()
                    else:
                        ctx.violation("R8.3", f"{fi.qual}:{n.attr}:masked", fi.module, call,
                                      f"{fi.qual} reads {norm(call)}: masked points would enter the analysis")
    if n_reads < 20:
        raise AnalysisError(f"R8.3: only {n_reads} data-set reads found in analysis/ (floor 20)")

    # ---------------- R8.4 -------------------------------------------------------------
    ms = MutationSummaries(model)
    n_entry = 0
    for q, fi in sorted(model.funcs.items()):
        if not fi.module.startswith(AN) or "." in fi.qual:
            continue
        a = fi.node.args
        params = {x.arg: (norm(x.annotation).strip("'\"") if x.annotation is not None else "") for x in a.posonlyargs + a.args + a.kwonlyargs}
        watched = [p for p, t in params.items() if p in ("data", "circuit", "original_circuit") or t in ("DataSet", "Circuit")]
        if not watched or fi.node.name.startswith("_"):
            continue
        n_entry += 1
        for p in watched:
            ctx.instance("R8.4", f"{fi.qual}({p})")
            if p in ms.mutates.get(q, set()):
                node, how = ms.why[(q, p)]
                ctx.violation("R8.4", f"{fi.qual}:{p}", fi.module, node, f"{fi.qual} may modify its `{p}` argument: {how}")
            else:
                ctx.ok()
    if n_entry < 10:
        raise AnalysisError(f"R8.4: only {n_entry} public entry points with data/circuit parameters found (floor 10)")
    # internal helpers that legitimately mutate must receive fresh objects: listed for the record
    ctx.extra_cov["functions_that_mutate_a_parameter"] = {q.split(":")[1]: sorted(s) for q, s in ms.mutates.items() if s and q.startswith(AN)}
    ctx.sample({"site": "calculate_drt_tr_nnls→TRNNLSResult", "A": "data.get_impedances()", "B": "_generate_model_impedance(…)"})


# ---------------------------------------------------------------------------

def _producer(ctx: Ctx, model, mod: str, fn: str, site: str, fi, ctor: ast.Call, pv: ast.AST, B: str, T) -> None:
    """pseudo_chisqr arrives through a tuple / record from a producer function."""
    chi = model.fi(UT, "_calculate_pseudo_chisqr")

    def chi_calls(f):
        return [c for c in calls_in(f.node, into_functions=True) if dotted(c.func) == "_calculate_pseudo_chisqr"]

    if fn == "evaluate_log_F_ext":
        # zip(fits.circuits, fits.pseudo_chisqrs): both lists are built from the same sorted `fits` in each producer
        loop = enclosing(ctor, ast.For)
        paired = isinstance(loop, ast.For) and norm(loop.iter) in ("zip(fits.circuits, fits.pseudo_chisqrs)",) \
            and norm(loop.target) in ("(circuit, pseudo_chisqr)",) and norm(pv) == "pseudo_chisqr" \
            and B == "each(zip(fits.circuits, fits.pseudo_chisqrs), 0).get_impedances(data.get_frequencies())".replace("fits", _fits_text(T)) if False else \
            (isinstance(loop, ast.For) and norm(loop.iter) == "zip(fits.circuits, fits.pseudo_chisqrs)" and norm(loop.target) == "(circuit, pseudo_chisqr)" and norm(pv) == "pseudo_chisqr")
        zf = [n for n in walk_ordered(loop) if isinstance(n, (ast.Assign, ast.AnnAssign)) and norm(n.targets[0] if isinstance(n, ast.Assign) else n.target) == "Z_fit"] if isinstance(loop, ast.For) else []
        paired = paired and len(zf) == 1 and norm(zf[0].value) == "circuit.get_impedances(f)"
        if not paired:
            # comprehension form (possibly through inlined helpers): the circuit and its pseudo chi-squared are the two
            # components of one item of zip(fits.circuits, fits.pseudo_chisqrs)
            Z = "zip(fits.circuits, fits.pseudo_chisqrs)"
            kwc = {k.arg: ast.unparse(k.value) for k in ctor.keywords}
            paired = ast.unparse(pv) == f"each({Z}, 1)" and kwc.get("circuit") == f"each({Z}, 0)" and kwc.get("impedances", "").startswith(f"each({Z}, 0).get_impedances(")
            if not paired:
                # the same comparison on resolved values (names bound by the comprehension / by an inlined helper's
                # parameters): both components must come from one and the same iteration over the zip, i.e. exactly
                # one enclosing loop or generator iterates over it (two would make a cross product of the two lists)
                from ..core import parent as _parent
                iters = 0
                p_ = _parent(ctor)
                while p_ is not None and not isinstance(p_, (ast.FunctionDef, ast.AsyncFunctionDef)):
                    if isinstance(p_, ast.For) and norm(p_.iter) == Z:
                        iters += 1
                    if isinstance(p_, (ast.ListComp, ast.GeneratorExp, ast.SetComp, ast.DictComp)):
                        iters += sum(1 for g in p_.generators if norm(g.iter) == Z)
                    p_ = _parent(p_)
                kwn = {k.arg: k.value for k in ctor.keywords}
                paired = iters == 1 and T(pv) == f"each({Z}, 1)" and "circuit" in kwn and T(kwn["circuit"]) == f"each({Z}, 0)" \
                    and B.startswith(f"each({Z}, 0).get_impedances(")
        if not paired:
            ctx.violation("R8.1", f"{site}:chisqr-source", mod, pv, f"{site}: pseudo chi-squared {norm(pv)} is not the entry of fits.pseudo_chisqrs paired (zip) with the circuit whose impedances are reported")
            return
        ctx.ok()
        for prod in ("_use_matrix_inversion", "_use_cnls", "_use_least_squares_fitting"):
            pf = model.fi(mod, prod)
            ctx.instance("R8.1", f"{prod}: pseudo_chisqrs[i] belongs to circuits[i]")
            pc = [n for n in walk_ordered(pf.node) if isinstance(n, (ast.Assign, ast.AnnAssign)) and norm(n.targets[0] if isinstance(n, ast.Assign) else n.target) == "pseudo_chisqrs"]
            rets = [c for c in calls_in(pf.node) if dotted(c.func) == "_KKFits"]
            pcv = pc[0].value if len(pc) == 1 else None
            if isinstance(pcv, ast.Call) and not isinstance(pcv, ast.ListComp):
                from ..prov import inline_call
                inl = inline_call(model, pf, pcv)  # the comprehension may live in a helper shared by the three producers
                if inl is not None:
                    pcv = inl
            ok = len(pc) == 1 and len(rets) == 1 and isinstance(pcv, ast.ListComp)
            if ok:
                lc = pcv
                call = lc.elt
                ok = isinstance(call, ast.Call) and dotted(call.func) == "_calculate_pseudo_chisqr"
                if ok:
                    a = call_args(call, chi.node)
                    ok = norm(a["Z_exp"]) == "Z_exp" and norm(lc.generators[0].iter) == "fits" \
                        and ((norm(a["Z_fit"]) == "circuit.get_impedances(f)" and "circuit" in norm(lc.generators[0].target))
                             or norm(a["Z_fit"]) == "each(fits, 1).get_impedances(f)")  # resolver notation: second component of each item of fits
                    w = a.get("weight")
                    if ok and w is not None and not (isinstance(w, ast.Constant) and w.value is None):
                        Rw = Resolver(pf.node)
                        ok = (Rw.text(w, call) if pcv is pc[0].value else norm(w)) in ("_boukamp_weight(Z_exp, admittance=False)", "_boukamp_weight(Z_exp, False)", "_boukamp_weight(Z_exp)")
                kwr = {k.arg: norm(k.value) for k in rets[0].keywords}
                ok = ok and kwr.get("pseudo_chisqrs") == "pseudo_chisqrs" and kwr.get("circuits") in ("[f[1] for f in fits]", "[circuit for num_RC, circuit in fits]", "[circuit for (num_RC, circuit) in fits]")
                # no re-ordering of `fits` between the two comprehensions
                sorts = [c for c in calls_in(pf.node) if norm(c.func) == "fits.sort" and c.lineno > pc[0].lineno]
                ok = ok and not sorts
            if ok:
                ctx.ok()
            else:
                ctx.violation("R8.1", f"{prod}:pairing", mod, pf.node,
                              f"{prod}: pseudo_chisqrs must be [_calculate_pseudo_chisqr(Z_exp, circuit.get_impedances(f), <default weight>) for … in fits] in the same order as circuits")
        # Z_exp/f handed to the producers are the data set's unmasked arrays
        caller = model.fi(mod, "evaluate_log_F_ext")
        R2 = Resolver(caller.node)
        wk = [n for n in walk_ordered(caller.node) if isinstance(n, ast.Assign) and norm(n.targets[0]) == "wrapper_kwargs"]
        ctx.instance("R8.1", "evaluate_log_F_ext hands data.get_frequencies()/get_impedances() to the tests")
        ok = len(wk) == 1 and isinstance(wk[0].value, ast.Call)
        if ok:
            kws = {k.arg: R2.text(k.value, wk[0]) for k in wk[0].value.keywords}
            ok = kws.get("f") in FREQ_OK and kws.get("Z_exp") in IMP_OK
        if ok:
            ctx.ok()
        else:
            ctx.violation("R8.1", "evaluate_log_F_ext:inputs", mod, caller.node, "the Kramers-Kronig tests are not run on data.get_frequencies()/data.get_impedances()")
        return

    if fn == "_convert_intermediate_result":
        # Xps = intermediate[1]; producer: _fit_process returns (circuit, chisqr, fit, …)
        unp = [n for n in walk_ordered(fi.node) if isinstance(n, ast.Assign) and isinstance(n.targets[0], ast.Tuple) and norm(n.value) == "intermediate"]
        if len(unp) != 1:
            raise AnalysisError("_convert_intermediate_result: unpacking of the intermediate tuple not found")
        names = [norm(e) for e in unp[0].targets[0].elts]
        if norm(pv) not in names or "circuit" not in names:
            ctx.violation("R8.1", f"{site}:chisqr-source", mod, pv, f"{site}: pseudo chi-squared {norm(pv)} does not come from the intermediate result")
            return
        ip, ic = names.index(norm(pv)), names.index("circuit")
        fp = model.fi(mod, "_fit_process")
        ctx.instance("R8.1", "_fit_process: returned chi-squared belongs to the returned circuit at its final parameter values")
        rts = return_tuples(fp.node)
        good = True
        final = None
        for rt in rts:
            if len(rt) != len(names):
                good = False
                continue
            v = rt[ip]
            if norm(v) == "inf":
                continue
            final = (rt, v)
        if final is None:
            good = False
        else:
            rt, v = final
            good = good and isinstance(v, ast.Call) and dotted(v.func) == "_calculate_pseudo_chisqr"
            if good:
                a = call_args(v, chi.node)
                cname = norm(rt[ic])
                good = norm(a["Z_exp"]) == "Z_exp" and norm(a["Z_fit"]) == f"{cname}.get_impedances(f)"
                # after the last write-back of fitted values
                wb = [c for c in calls_in(fp.node) if dotted(c.func) == "_from_lmfit"]
                good = good and bool(wb) and max(c.lineno for c in wb) < v.lineno
        # reported impedances = that circuit at the same frequencies
        good = good and B == f"proj(intermediate, {ic}).get_impedances(data.get_frequencies())"
        # every candidate owns its circuit: the returned circuit is created inside the worker (deep copy of its input),
        # otherwise serial candidates overwrite each other's parameters and the winner's numbers describe another fit
        ctx.instance("R8.1", "_fit_process: each candidate returns a circuit of its own")
        own = False
        if final is not None:
            cname = norm(final[0][ic])
            from ..prov import assignments as _asg
            b = [x for x in _asg(fp.node, cname) if x[2] == "assign"]
            own = bool(b) and all(isinstance(x[0].value, ast.Call) and dotted(x[0].value.func) in ("deepcopy", "parse_cdc") for x in b)
        if own:
            ctx.ok()
        else:
            ctx.violation("R8.1", f"{site}:shared-circuit", mod, fp.node,
                          "_fit_process returns a circuit it did not create (no per-candidate deep copy): with several method/weight combinations run serially "
                          "all candidates share one circuit, so the returned impedances/residuals belong to the last fit while pseudo chi-squared and parameters belong to the best one")
        # worker tuple: f and Z_exp positions
        unpw = unpack_of_param(fp.node, "args")
        caller = model.fi(mod, "fit_circuit")
        gen = [n for n in walk_ordered(caller.node) if isinstance(n, ast.Assign) and norm(n.targets[0]) == "args" and isinstance(n.value, ast.GeneratorExp)]
        if unpw and gen and isinstance(gen[0].value.elt, ast.Tuple):
            el = gen[0].value.elt.elts
            RC = Resolver(caller.node)
            pos = {nm: i for i, nm in enumerate(unpw)}
            good = good and RC.text(el[pos["f"]], gen[0]) in FREQ_OK and RC.text(el[pos["Z_exp"]], gen[0]) in IMP_OK
        else:
            good = False
        if good:
            ctx.ok()
        else:
            ctx.violation("R8.1", f"{site}:chisqr-producer", mod, fp.node,
                          "the pseudo chi-squared reported by fit_circuit is not _calculate_pseudo_chisqr(data impedances, returned circuit's impedances) computed after the final parameter write-back")
        return

    if fn == "calculate_drt_bht":
        t = T(pv)
        ctx.instance("R8.1", "BHT: chi-squared produced by the worker from the input impedances")
        wk = model.fi(mod, "_hilbert_transform_process")
        cc = chi_calls(wk)
        unpw = unpack_of_param(wk.node, "args")
        pa = model.fi(mod, "_perform_attempts")
        good = "_perform_attempts(" in t and len(cc) == 1 and unpw is not None
        if good:
            a = call_args(cc[0], chi.node)
            zname = norm(a["Z_exp"])
            good = zname in unpw
            # position of Z in the worker tuple ↔ _perform_attempts' generator ↔ call argument
            gen = [n for n in walk_ordered(pa.node) if isinstance(n, ast.Assign) and norm(n.targets[0]) == "args" and isinstance(n.value, ast.GeneratorExp)]
            good = good and len(gen) == 1 and isinstance(gen[0].value.elt, ast.Tuple)
            if good:
                el = gen[0].value.elt.elts
                pname = norm(el[unpw.index(zname)])
                call = [x for x in calls_in(fi.node) if dotted(x.func) == "_perform_attempts"][0]
                b = call_args(call, pa.node)
                R = Resolver(fi.node)
                good = pname in b and R.text(b[pname], call) in IMP_OK
                # worker returns the chi-squared in position 0 and _perform_attempts returns the best tuple
                rts = [rt for rt in return_tuples(wk.node) if len(rt) == 4]
                good = good and bool(rts) and all(norm(rt[0]) == "pseudo_chisqr" for rt in rts)
                good = good and any(norm(r[0]) == "results[0]" for r in return_tuples(pa.node))
        if good:
            ctx.ok()
            ctx.note("BHT: the worker's model impedance and _calculate_model_impedance are built from the same data_real/data_imag record; their term equality is not decided")
        else:
            ctx.violation("R8.1", f"{site}:chisqr-producer", mod, pv, "BHT pseudo chi-squared is not computed by the worker from data.get_impedances()")
        return

    if fn == "perform_zhit":
        t = T(pv)
        ctx.instance("R8.1", "Z-HIT: chi-squared of the winning candidate vs. the reported pair")
        ctx.violation("R8.1", f"{site}:chisqr-source", mod, pv,
                      f"{site}: pseudo chi-squared is taken from the offset-adjustment stage ({t[:70]}), where it is computed on the (possibly shifted) "
                      f"working representation, while residuals/impedances are recomputed from the unshifted data: the reported value is not Σ|residual|² "
                      f"when admittance=True and min Re(Y) < 0")
        return

    ctx.violation("R8.1", f"{site}:chisqr-source", mod, pv,
                  f"{site}: pseudo chi-squared comes from {T(pv)[:80]}; expected _calculate_pseudo_chisqr(data.get_impedances(), <reported impedances>)")
