"""C05: the DataSet as a small state machine, explored exhaustively up to a bound on the AST's own semantics.

A data set of n <= 3 points is constructed by interpreting DataSet.__init__ (sa.miniinterp + sa.nplite) from descending
or ascending input and every initial mask; then every sequence of up to three operations from a small alphabet
(set_mask with several dictionaries including the empty one, low_pass/high_pass with cut-offs between the points,
subtract_impedances, and the getters) is applied to the interpreted object, and after every step its observable state
(get_mask, get_frequencies/get_impedances for masked in {None, False, True}, get_num_points) is compared with a reference
model written from the documented behaviour:

  * points are kept in descending order of frequency; input given in ascending order is reversed together with its
    impedances and the keys of its mask (i -> n-1-i);
  * set_mask({}) clears the mask; otherwise the in-range keys are updated, out-of-range keys ignored, the caller's
    dictionary left untouched;
  * low_pass(c) additionally masks f > c, high_pass(c) f < c;
  * subtract_impedances(z) subtracts from every point, masked or not;
  * get_x(masked) selects, in order, the points whose flag equals `masked` (None: all).

The impedances are symbols, the frequencies powers of ten; the behaviour depends on the frequencies only through their
order and on the impedances only through copying and subtraction, so the exploration is exhaustive for the bound."""
from __future__ import annotations

import itertools
from typing import Any, Dict, List, Optional, Tuple

import sympy as sp

from ..core import AnalysisError
from ..miniinterp import InterpRaise, Mini, Obj, module_globals
from ..nplite import NP_STUBS, NArr

DS = "pyimpspec.data.data_set"


def _stubs(ctx):
    st = dict(NP_STUBS)
    st.update({
        "_is_floating_array": lambda x: True, "_is_complex_array": lambda x: True, "_cast_to_floating_array": lambda x: x, "_cast_to_complex_array": lambda x: x,
        "_is_integer": lambda x: isinstance(x, int) and not isinstance(x, bool), "_is_boolean": lambda x: isinstance(x, bool),
        "_is_floating": lambda x: isinstance(x, float), "flip": lambda a, **k: NArr(list(a)[::-1]),
        "uuid4": lambda: type("U", (), {"hex": "u"})(), "splitext": lambda p: (p, ""), "basename": lambda p: p, "NDArray": None,
    })
    g = module_globals(ctx.repo.modules[DS].tree, st)
    g.update(st)
    return g


class _Ref:
    def __init__(self, f: List[float], Z: List[Any], mask: Dict[int, bool]):
        n = len(f)
        if n > 1 and f[-1] > f[0]:
            f, Z = f[::-1], Z[::-1]
            mask = {n - 1 - i: v for i, v in mask.items()}
        self.f, self.Z, self.n = list(f), list(Z), n
        self.mask = {i: False for i in range(n)}
        self.set_mask(mask, init=True)

    def set_mask(self, m, init=False):
        if len(m) == 0:
            if not init:
                self.mask = {i: False for i in range(self.n)}
            return
        for k, v in m.items():
            if 0 <= k < self.n:
                self.mask[k] = v

    def observe(self):
        out = {"mask": dict(self.mask)}
        for masked in (None, False, True):
            sel = [i for i in range(self.n) if masked is None or self.mask[i] == masked]
            out[f"f{masked}"] = [self.f[i] for i in sel]
            out[f"Z{masked}"] = [self.Z[i] for i in sel]
        return out


def _obs(mi, me, methods) -> Dict[str, Any]:
    out: Dict[str, Any] = {"mask": dict(mi.call_bound(methods["get_mask"], me, (), {}))}
    for masked in (None, False, True):
        out[f"f{masked}"] = list(mi.call_bound(methods["get_frequencies"], me, (), {"masked": masked}))
        out[f"Z{masked}"] = list(mi.call_bound(methods["get_impedances"], me, (), {"masked": masked}))
    return out


def _same(a, b) -> bool:
    if a["mask"] != b["mask"]:
        return False
    for k in a:
        if k == "mask":
            continue
        if len(a[k]) != len(b[k]):
            return False
        for x, y in zip(a[k], b[k]):
            if isinstance(x, sp.Basic) or isinstance(y, sp.Basic):
                if sp.simplify(sp.sympify(x) - sp.sympify(y)) != 0:
                    return False
            elif x != y:
                return False
    return True


def run(ctx, model, max_len: int = 2) -> Tuple[List[str], int, int]:
    g = _stubs(ctx)
    cls = model.classes[f"{DS}:DataSet"]
    methods = {n: m.node for n, m in cls.methods.items()}
    problems: List[str] = []
    n_states = 0
    n_steps = 0
    for n in (1, 2, 3):
        for asc in (False, True):
            freqs = [float(10 ** (n - i)) for i in range(n)]  # descending
            if asc:
                freqs = freqs[::-1]
            Zs = [sp.Symbol(f"Z{i}") for i in range(n)]
            masks0 = [{i: True for i in combo} for r in range(0, n + 1) for combo in itertools.combinations(range(n), r)]
            cuts = sorted({(a + b) / 2 for a, b in zip(sorted(freqs), sorted(freqs)[1:])} | {min(freqs) / 10, max(freqs) * 10})
            sub = NArr([sp.Symbol(f"s{i}") for i in range(n)])
            ops: List[Tuple[str, Any]] = [("set_mask", {})] + [("set_mask", {i: True}) for i in range(n)] + [("set_mask", {0: False})] + [("set_mask", {n + 3: True, 0: True})] \
                + [("low_pass", c) for c in cuts] + [("high_pass", c) for c in cuts] + [("subtract_impedances", sub), ("observe", None)]
            for m0 in masks0:
                caller_mask = dict(m0)
                mi = Mini(g, max_steps=2_000_000)
                me = Obj(mi, methods, {})
                try:
                    mi.call_bound(methods["__init__"], me, (NArr(list(freqs)), NArr(list(Zs))), {"mask": caller_mask})
                except InterpRaise as e:
                    problems.append(f"DataSet({freqs}, …, mask={m0}) raises {e.kind}")
                    continue
                ref = _Ref(list(freqs), list(Zs), dict(m0))
                n_states += 1
                if caller_mask != m0 and not any("caller's mask" in p for p in problems):
                    problems.append(f"DataSet.__init__ changes the caller's mask dictionary ({m0} → {caller_mask})")
                try:
                    if not _same(_obs(mi, me, methods), ref.observe()) and len(problems) < 4:
                        problems.append(f"after DataSet(frequencies={'ascending' if asc else 'descending'} {freqs}, mask={m0}) the object shows {_short(_obs(mi, me, methods))} instead of {_short(ref.observe())}")
                        continue
                except InterpRaise as e:
                    problems.append(f"observing a fresh DataSet raises {e.kind}")
                    continue
                # sequences of operations: depth-first from this state, re-creating the object for each sequence
                for seq in itertools.product(ops, repeat=max_len):
                    mi2 = Mini(g, max_steps=2_000_000)
                    me2 = Obj(mi2, methods, {})
                    mi2.call_bound(methods["__init__"], me2, (NArr(list(freqs)), NArr(list(Zs))), {"mask": dict(m0)})
                    ref2 = _Ref(list(freqs), list(Zs), dict(m0))
                    trace = []
                    ok = True
                    for name, arg in seq:
                        n_steps += 1
                        trace.append(f"{name}({arg if not isinstance(arg, NArr) else 'z'})" if name != "observe" else "read")
                        try:
                            if name == "set_mask":
                                a = dict(arg)
                                mi2.call_bound(methods["set_mask"], me2, (a,), {})
                                if a != arg:
                                    problems.append(f"set_mask changes the caller's dictionary ({arg} → {a})")
                                ref2.set_mask(arg)
                            elif name == "low_pass":
                                mi2.call_bound(methods["low_pass"], me2, (arg,), {})
                                ref2.set_mask({i: True for i, f_ in enumerate(ref2.f) if f_ > arg} or {-1: True})
                            elif name == "high_pass":
                                mi2.call_bound(methods["high_pass"], me2, (arg,), {})
                                ref2.set_mask({i: True for i, f_ in enumerate(ref2.f) if f_ < arg} or {-1: True})
                            elif name == "subtract_impedances":
                                mi2.call_bound(methods["subtract_impedances"], me2, (NArr(list(arg)),), {})
                                ref2.Z = [z - s for z, s in zip(ref2.Z, list(arg))]
                            got = _obs(mi2, me2, methods)
                        except InterpRaise as e:
                            got = {"raises": e.kind}
                        if "raises" in got or not _same(got, ref2.observe()):
                            if len(problems) < 4:
                                problems.append(f"DataSet({'ascending' if asc else 'descending'} {n} point(s), mask={m0}) then {' ; '.join(trace)}: the object shows {_short(got)} instead of {_short(ref2.observe())}")
                            ok = False
                            break
                    if not ok and len(problems) >= 4:
                        return problems, n_states, n_steps
    return problems, n_states, n_steps


def _short(o) -> str:
    if "raises" in o:
        return f"raises {o['raises']}"
    return "{" + ", ".join(f"{k}: {[str(x) for x in v] if isinstance(v, list) else v}" for k, v in o.items() if k in ("mask", "fFalse", "ZFalse")) + "}"
