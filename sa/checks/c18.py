"""C18 — every documented option combination completes or is refused up front
(progress budgets, option tables, escape types, callback payload)."""
from __future__ import annotations

import ast
import os
from concurrent.futures import ProcessPoolExecutor
from typing import Dict, List, Optional, Set, Tuple

from ..cfg import always_exits, dominating_conditions, flatten_conditions
from ..core import AnalysisError, Ctx, Repo, calls_in, dotted, enclosing, norm, parent, walk_ordered
from ..effects import exc_is, exc_name
from ..elements import fold_const
from ..model import get_model

LEVEL = "other"
AN = "pyimpspec.analysis"
PROG = "pyimpspec.progress"

# blocks analysed under an assumption (the other branch is reported as not analysed)
FORCE = {
    "evaluate_log_F_ext": ({"num_F_ext_evaluations == 0": True},
                           "only the fixed-extension branch (num_F_ext_evaluations == 0) is analysed; the optimisation of log F_ext drives "
                           "its increments from lmfit callbacks and a two-stage search (not in the fragment)"),
}
AT_LEAST_ONE = ("len(_WINDOW_FUNCTIONS)",)


def _blocks(model):
    out = []
    for q, fi in sorted(model.funcs.items()):
        if not fi.module.startswith(AN):
            continue
        for n in walk_ordered(fi.node):
            if isinstance(n, ast.With) and any(isinstance(i.context_expr, ast.Call) and dotted(i.context_expr.func) == "Progress" for i in n.items):
                out.append((fi, n))
    return out


def _analyse_one(args):
    root, qname, lineno = args
    from ..budget import Unsupported, analyse_block
    repo = Repo(root)
    model = get_model(repo)
    fi = model.funcs[qname]
    node = next(n for n in walk_ordered(fi.node) if isinstance(n, ast.With) and n.lineno == lineno)
    name = fi.qual
    force, _ = FORCE.get(name, (None, ""))
    try:
        res = analyse_block(model, fi, node, max_paths=20000, force=force, at_least_one=AT_LEAST_ONE)
    except Unsupported as e:
        return dict(q=qname, line=lineno, error=str(e))
    bad = [r for r in res if r.ok is not True]
    worst = None
    if bad:
        r = bad[0]
        worst = dict(count=str(r.count), total=str(r.total), slack=str(r.slack), decided=r.ok,
                     trace=[f"{t}={v}" for t, v in r.trace if "isinstance" not in t][-10:])
    lemmas = sorted({l for r in res for l in r.lemmas})
    return dict(q=qname, line=lineno, paths=len(res), bad=len(bad), worst=worst, slacks=sorted({str(r.slack) for r in res})[:8], lemmas=lemmas,
                max_count=sorted({str(r.count) for r in res}, key=len)[-1] if res else "0")


def check(ctx: Ctx) -> None:
    model = get_model(ctx.repo)
    ctx.rule("R18.1", "progress budget: on every path through a `with Progress(total=T)` block (callees that receive the progress object inlined) the number of increment() calls is at most T-1, symbolically in the sizes of the option lists actually iterated")
    ctx.rule("R18.2", "option tables: values expanded for 'auto' ⊆ values the dispatcher handles; validated tables ⊆ handled values; a dispatch chain ends in a raise of the library's error type")
    ctx.rule("R18.3", "escape types: explicit raises in public analysis entry points are TypeError/ValueError/library errors; argument validation precedes the Progress block")
    ctx.rule("R18.4", "callback payload: Progress.increment refuses i > total before emitting; every emission carries progress and message")
    ctx.assumptions += [
        "a generator/map/imap yields exactly one item per source item; a filtered comprehension at most as many",
        "the window-function registry of Z-HIT is non-empty after _initialize_window_functions()",
        "exceptions end the run (the budget question is about runs that would otherwise complete)",
    ]

    # ---------------- R18.1 -------------------------------------------------------------
    blocks = _blocks(model)
    if len(blocks) < 10:
        raise AnalysisError(f"R18.1: only {len(blocks)} Progress blocks found (floor 10; 12 on the reviewed tree)")
    jobs = [(str(ctx.repo.root), fi.qname, n.lineno) for fi, n in blocks]
    workers = min(len(jobs), os.cpu_count() or 4)
    with ProcessPoolExecutor(max_workers=workers) as ex:
        results = list(ex.map(_analyse_one, jobs))
    analysed = 0
    for (fi, node), r in zip(blocks, results):
        ctx.modules_consulted.add(fi.module)
        name = fi.qual
        if "error" in r:
            ctx.instance("R18.1", f"{name}: NOT ANALYSED — {r['error']}")
            ctx.note(f"R18.1 {name}: not analysed ({r['error']})")
            continue
        analysed += 1
        partial = f" [{FORCE[name][1]}]" if name in FORCE else ""
        ctx.instance("R18.1", f"{name}: {r['paths']} paths, max increments {r['max_count']}, slacks {r['slacks'][:4]}{partial}")
        if name in FORCE:
            ctx.note(f"R18.1 {name}: {FORCE[name][1]}")
        if r["bad"]:
            w = r["worst"]
            ctx.violation("R18.1", f"{name}:budget", fi.module, node,
                          f"{name}: a path performs {w['count']} increments inside a Progress block with total={w['total']} "
                          f"(needs ≤ total-1; slack {w['slack']}): Progress.increment raises ValueError part-way through the analysis. Path: {w['trace']}",
                          **{"path": w["trace"]})
        else:
            ctx.ok()
        ctx.sample({"block": name, "paths": r["paths"], "max_increments": r["max_count"], "slacks": r["slacks"][:4], "lemmas": r["lemmas"]}, cap=14)
    if analysed < len(blocks) - 1 or analysed < 9:
        raise AnalysisError(f"R18.1: only {analysed} of {len(blocks)} Progress blocks could be analysed")
    ctx.extra_cov["progress_blocks"] = {"found": len(blocks), "analysed": analysed}

    # ---------------- R18.2 -------------------------------------------------------------
    _option_tables(ctx, model)

    # ---------------- R18.3 -------------------------------------------------------------
    allowed_builtin = {"TypeError", "ValueError", "NotImplementedError", "ImportError", "KeyError"}
    n_raise = 0
    for fi, node in blocks:
        # public entry point enclosing or equal to the function
        for n in walk_ordered(fi.node):
            if not isinstance(n, ast.Raise) or n.exc is None:
                continue
            name = exc_name(n.exc)
            n_raise += 1
            ok = name in ("TypeError", "ValueError", "NotImplementedError") or any(exc_is(model, fi.module, name, b) for b in
                                                           ("KramersKronigError", "FittingError", "DRTError", "ZHITError", "ImpedanceError", "ParsingError"))
            if name.startswith("errors.pop") or name == "err" or "." in name:
                ok = True  # re-raising a collected worker exception
            ctx.instance("R18.3", f"{fi.qual}: raise {name}")
            if ok:
                ctx.ok()
            else:
                ctx.violation("R18.3", f"{fi.qual}:raise:{name}", fi.module, n, f"{fi.qual} raises {name}: not a TypeError/ValueError nor one of the library's error types")
        # argument validation (isinstance/_is_* refusals) happens before the block
        late = []
        for n in walk_ordered(node):
            if isinstance(n, ast.If) and always_exits(n.body) and any(isinstance(x, ast.Raise) and exc_name(x.exc) == "TypeError" for x in n.body):
                t = norm(n.test)
                if ("isinstance(" in t or "_is_" in t) and any(p.arg in t for p in fi.node.args.args):
                    late.append(n)
        ctx.instance("R18.3", f"{fi.qual}: type validation precedes the Progress block")
        if late:
            ctx.violation("R18.3", f"{fi.qual}:late-validation", fi.module, late[0],
                          f"{fi.qual} validates the type of an argument ({norm(late[0].test)[:60]}) inside its Progress block, after work has started")
        else:
            ctx.ok()
    if n_raise < 25:
        raise AnalysisError(f"R18.3: only {n_raise} raise statements found in the entry points (floor 25)")

    # ---------------- R18.4 -------------------------------------------------------------
    inc = model.fi(PROG, "Progress.increment")
    ctx.modules_consulted.add(PROG)
    ctx.instance("R18.4", "Progress.increment refuses i > total before emitting")
    upd = [c for c in calls_in(inc.node) if dotted(c.func) == "self._update"]
    guard = [n for n in inc.node.body if isinstance(n, ast.If) and always_exits(n.body) and norm(n.test).replace(" ", "") in
             ("not(self._i<=self._total)", "notself._i<=self._total", "self._i>self._total")]
    if upd and guard and guard[0].lineno < upd[0].lineno:
        ctx.ok()
    else:
        ctx.violation("R18.4", "Progress.increment:guard", PROG, inc.node, "Progress.increment must refuse i > total before notifying the callbacks (fraction ≤ 1)")
    st = model.fi(PROG, "Progress.set")
    ctx.instance("R18.4", "Progress.set refuses i > total")
    if any(isinstance(n, ast.If) and always_exits(n.body) and "self._total" in norm(n.test) for n in st.node.body):
        ctx.ok()
    else:
        ctx.violation("R18.4", "Progress.set:guard", PROG, st.node, "Progress.set must refuse i > total")
    up = model.fi(PROG, "Progress._update")
    ctx.instance("R18.4", "every emission carries i, total and message")
    kws = {k.arg for c in calls_in(up.node) for k in c.keywords if k.arg}
    if {"i", "total", "message"} <= kws:
        ctx.ok()
    else:
        ctx.violation("R18.4", "Progress._update:payload", PROG, up.node, f"Progress._update passes {sorted(kws)}; i, total and message are required")
    ev = model.fi(PROG, "_update_every_N_percent")
    ctx.instance("R18.4", "emitted fraction is i/total or the last emitted step (both ≤ 1 under the guard)")
    def values_of(e: ast.AST, depth: int = 0) -> set:
        """All expressions a name may stand for in _update_every_N_percent (every assignment; None dropped)."""
        if isinstance(e, ast.Name) and depth < 4:
            bs = [n.value for n in walk_ordered(ev.node) if isinstance(n, (ast.Assign, ast.AnnAssign)) and n.value is not None
                  and norm(n.targets[0] if isinstance(n, ast.Assign) else n.target) == e.id]
            if bs and e.id != "_RECENT_PROGRESS":
                out = set()
                for b in bs:
                    if isinstance(b, ast.Constant) and b.value is None:
                        continue
                    out |= values_of(b, depth + 1)
                return out
        return {norm(e).replace(" ", "")}
    emitted = set()
    for c_ in calls_in(ev.node):
        if dotted(c_.func) == "_update":
            for k_ in c_.keywords:
                if k_.arg == "progress":
                    emitted |= values_of(k_.value)
    if emitted and emitted <= {"i/total", "_RECENT_PROGRESS", "0.0", "0"} and "i/total" in emitted | {norm(n.value).replace(" ", "") for n in walk_ordered(ev.node) if isinstance(n, (ast.Assign, ast.AnnAssign)) and n.value is not None}:
        ctx.ok()
    else:
        ctx.violation("R18.4", "_update_every_N_percent:fraction", PROG, ev.node, "the emitted progress must be i/total (or the last emitted multiple of the step)")


def _chain_values(fn: ast.AST, var: str) -> Tuple[Set[str], bool, Optional[ast.AST]]:
    """String constants `var` is compared with in an if/elif chain; whether the fall-through raises."""
    vals: Set[str] = set()
    first = None
    for n in walk_ordered(fn):
        if isinstance(n, ast.If) and isinstance(n.test, ast.Compare) and norm(n.test.left) == var and isinstance(n.test.ops[0], ast.Eq) \
                and isinstance(n.test.comparators[0], ast.Constant) and isinstance(n.test.comparators[0].value, str):
            vals.add(n.test.comparators[0].value)
            first = first or n
    raises = False
    if first is not None:
        p = parent(first)
        body = getattr(p, "body", [])
        idx = [i for i, s in enumerate(body) if s is first]
        if idx:
            rest = body[idx[0] + 1:]
            raises = any(isinstance(s, ast.Raise) for s in rest)
        cur = first
        while len(cur.orelse) == 1 and isinstance(cur.orelse[0], ast.If):
            cur = cur.orelse[0]
        if cur.orelse and always_exits(cur.orelse):
            raises = True
    return vals, raises, first


def _option_tables(ctx: Ctx, model) -> None:
    Z = f"{AN}.zhit"
    pairs = [
        (f"{Z}.smoothing", "_generate_smoothing_options", "_smooth_phase", "smoothing"),
        (f"{Z}.interpolation", "_generate_interpolation_options", "_interpolate_phase", "interpolation"),
    ]
    n = 0
    for mod, gen, disp, var in pairs:
        g = model.fi(mod, gen)
        d = model.fi(mod, disp)
        ctx.modules_consulted.add(mod)
        auto = None
        for x in walk_ordered(g.node):
            if isinstance(x, ast.IfExp) and norm(x.test) == f"{var} == 'auto'" and isinstance(x.body, ast.List):
                auto = [e.value for e in x.body.elts if isinstance(e, ast.Constant)]
        from ..elements import module_consts
        mc = module_consts(ctx.repo, mod)

        def table_keys(e: ast.AST):
            """keys of a module-level dictionary referred to as T, T.keys(), list(T), list(T.keys()), sorted(T), tuple(T)"""
            while isinstance(e, ast.Call) and isinstance(e.func, ast.Name) and e.func.id in ("list", "tuple", "sorted") and len(e.args) == 1:
                e = e.args[0]
            if isinstance(e, ast.Call) and isinstance(e.func, ast.Attribute) and e.func.attr == "keys":
                e = e.func.value
            if isinstance(e, ast.Name) and isinstance(mc.get(e.id), ast.Dict):
                return [k.value for k in mc[e.id].keys if isinstance(k, ast.Constant)]
            if isinstance(e, ast.Name) and isinstance(mc.get(e.id), (ast.List, ast.Tuple)):
                return [k.value for k in mc[e.id].elts if isinstance(k, ast.Constant)]
            return None
        if auto is None:
            for x in walk_ordered(g.node):
                if isinstance(x, ast.IfExp) and norm(x.test) == f"{var} == 'auto'":
                    auto = table_keys(x.body)
        if auto is None:
            raise AnalysisError(f"{gen}: the list expanded for '{var}=auto' was not found")
        handled, raises, first = _chain_values(d.node, var)
        if not handled:
            # table dispatch: `if var not in T: raise …` followed by a look-up T[var]
            for x in walk_ordered(d.node):
                if isinstance(x, ast.If) and isinstance(x.test, ast.Compare) and isinstance(x.test.ops[0], ast.NotIn) and norm(x.test.left) == var and always_exits(x.body):
                    ks = table_keys(x.test.comparators[0])
                    T_ = norm(x.test.comparators[0])
                    if ks is not None and any(isinstance(y, ast.Subscript) and norm(y.value) == T_ and norm(y.slice) == var for y in walk_ordered(d.node)):
                        handled, raises, first = set(ks), any(isinstance(b_, ast.Raise) for b_ in x.body), x
        n += 1
        ctx.instance("R18.2", f"{var}: auto list {auto} ⊆ handled {sorted(handled)}")
        missing = [v for v in auto if v not in handled]
        if missing:
            ctx.violation("R18.2", f"{var}:auto-not-handled", mod, g.node, f"{var}='auto' expands to {missing}, which {disp} does not handle: the run aborts part-way with an 'unsupported' error")
        else:
            ctx.ok()
        ctx.instance("R18.2", f"{disp}: unknown value is refused with the library's error")
        if raises:
            ctx.ok()
        else:
            ctx.violation("R18.2", f"{disp}:fallthrough", mod, d.node, f"{disp} falls through for an unknown {var} (returns None) instead of raising")
        # documented values ⊆ handled ∪ {auto}
        ent = model.fi(Z, "perform_zhit")
        doc = ast.get_docstring(ent.node) or ""
        import re
        para = re.search(rf"{var}: str, optional\n(.*?)\n\n", doc, re.S)
        if para:
            documented = set(re.findall(r'"([a-z]+)"', para.group(1)))
            ctx.instance("R18.2", f"{var}: documented {sorted(documented)} ⊆ handled ∪ auto")
            und = documented - handled - {"auto"}
            if und:
                ctx.violation("R18.2", f"{var}:documented-not-handled", Z, ent.node, f"perform_zhit documents {var} values {sorted(und)} that {disp} does not handle")
            else:
                ctx.ok()
    # table-validated options: every value of the validation table has a handler
    tables = [
        (f"{AN}.fitting", "_WEIGHT_FUNCTIONS", "dict"),
        (f"{AN}.drt.tr_rbf", "_CROSS_VALIDATION_METHODS", "dict"),
    ]
    for mod, tname, kind in tables:
        node = model.const(mod, tname)
        ctx.modules_consulted.add(mod)
        if not isinstance(node, ast.Dict):
            raise AnalysisError(f"{mod}:{tname} is not a dictionary display")
        n += 1
        ctx.instance("R18.2", f"{tname}: every validated key maps to a function defined in the module")
        bad = [norm(v) for v in node.values if not (isinstance(v, ast.Name) and model.resolve(mod, v.id) and model.resolve(mod, v.id)[0] == "func")]
        if bad:
            ctx.violation("R18.2", f"{tname}:handler", mod, node, f"{tname} maps to {bad}, which are not functions of the module")
        else:
            ctx.ok()
    # DRT method dispatch
    drt = f"{AN}.drt"
    methods = fold_const(model.const(drt, "_METHODS"))
    cd = model.fi(drt, "calculate_drt")
    handled, raises, first = _chain_values(cd.node, "method")
    for x in walk_ordered(cd.node):
        # dispatch through a dictionary display subscripted by the option
        if isinstance(x, ast.Subscript) and isinstance(x.value, ast.Dict) and norm(x.slice) == "method":
            handled |= {k.value for k in x.value.keys if isinstance(k, ast.Constant)}
    n += 1
    ctx.modules_consulted.add(drt)
    ctx.instance("R18.2", f"calculate_drt: validated methods {methods} ⊆ dispatched {sorted(handled)}")
    miss = [m for m in methods if m not in handled]
    if miss and not raises:
        ctx.violation("R18.2", "calculate_drt:methods", drt, cd.node, f"methods {miss} pass validation but have no dispatch arm")
    elif miss:
        # the last method may be the fall-through arm
        if len(miss) == 1:
            ctx.ok()
        else:
            ctx.violation("R18.2", "calculate_drt:methods", drt, cd.node, f"methods {miss} pass validation but have no dispatch arm")
    else:
        ctx.ok()
    # tr_rbf switches: the code itself asserts set(_RBF_TYPES) == set(switch.keys()); decide it statically
    rbf = f"{AN}.drt.tr_rbf"
    types = set(fold_const(model.const(rbf, "_RBF_TYPES")))
    for q, fi in sorted(model.funcs.items()):
        if fi.module != rbf:
            continue
        for x in walk_ordered(fi.node):
            if isinstance(x, (ast.Assign, ast.AnnAssign)) and norm(x.targets[0] if isinstance(x, ast.Assign) else x.target) == "switch" and isinstance(x.value, ast.Dict):
                keys = {k.value for k in x.value.keys if isinstance(k, ast.Constant)}
                n += 1
                ctx.instance("R18.2", f"{fi.qual}: switch keys == _RBF_TYPES")
                if keys == types:
                    ctx.ok()
                else:
                    ctx.violation("R18.2", f"{fi.qual}:switch", rbf, x, f"{fi.qual}: switch handles {sorted(keys)} but _RBF_TYPES validates {sorted(types)} (difference {sorted(keys ^ types)}): a validated rbf_type aborts the run part-way")
    if n < 8:
        raise AnalysisError(f"R18.2: only {n} option tables examined (floor 8)")
