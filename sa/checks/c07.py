"""C07 — Kramers-Kronig tests reproduce exactly any spectrum of their own model.

Translation validation: the linear system each implementation solves IS the
model circuit.  For every configuration (implementation × test × {Z,Y} ×
capacitance × inductance) the design-matrix columns extracted from the source,
combined with the variable→parameter mapping extracted from _update_circuit,
are proved (sympy) to equal the immittance of the circuit that
_generate_circuit builds from the registered element equations."""
from __future__ import annotations

import ast
import itertools
from typing import Any, Dict, List, Optional, Tuple

import sympy as sp

from ..core import enclosing, AnalysisError, Ctx, calls_in, dotted, norm, parent, walk_ordered
from ..elements import registered_elements
from ..model import get_model
from ..numeric import RepoInterp, canon
from ..terms import TermInterp, Unsupported, parse_equation

LEVEL = "translation_validation"
KK = "pyimpspec.analysis.kramers_kronig"
LS = f"{KK}.least_squares"
MI = f"{KK}.matrix_inversion"
UT = f"{KK}.utility"

W = sp.Symbol("omega", positive=True)
TAU = sp.Symbol("tau", positive=True)
XR, XK, XC, XL = sp.symbols("x_R x_k x_C x_L", real=True)


def _interp(model, consts: Dict[str, Any]) -> RepoInterp:
    def decide(test, env):
        t = norm(test)
        if t in consts and isinstance(consts[t], bool):
            return consts[t]
        if isinstance(test, ast.Compare) and isinstance(test.left, ast.Name) and test.left.id in consts and isinstance(test.comparators[0], ast.Constant):
            v = consts[test.left.id] == test.comparators[0].value
            return v if isinstance(test.ops[0], ast.Eq) else (not v if isinstance(test.ops[0], ast.NotEq) else None)
        if isinstance(test, ast.Compare) and isinstance(test.ops[0], ast.Eq) and isinstance(test.comparators[0], ast.Constant) and test.comparators[0].value == 0.0:
            return False  # generic (non-zero) fit variable
        if _tolerant(test):
            return False  # reported by zero_guard_rule; the generic fit variable is far from zero
        return None
    return RepoInterp(model, decide=decide)


def _tolerant(test: ast.AST) -> bool:
    if isinstance(test, ast.Call) and dotted(test.func).split(".")[-1] in ("isclose", "allclose") and len(test.args) >= 2:
        return True
    if isinstance(test, ast.Compare) and isinstance(test.left, ast.Call) and dotted(test.left.func) in ("abs", "fabs") and isinstance(test.ops[0], (ast.Lt, ast.LtE)):
        return True
    return False


def stateless_rule(ctx: Ctx, model, rid: str) -> None:
    from ..effects import stateless_rule as _sr
    _sr(ctx, model, rid, (LS, MI, UT), 20, "its result is no longer a function of the frequencies/time constants/options it is called with")


def zero_guard_rule(ctx: Ctx, model, rid: str, why: str) -> None:
    """In _update_circuit a fitted coefficient may only be replaced by a stand-in constant when it is exactly zero
    (`V == 0.0`): a tolerance (isclose, abs(V) < eps) replaces small but non-zero coefficients, so the circuit no longer
    carries the fitted values and the threshold is a bare number in whatever unit the data happen to use."""
    n = 0
    for impl, mod in (("least_squares", LS), ("matrix_inversion", MI)):
        upd = model.fi(mod, "_update_circuit")
        for iff in [x for x in walk_ordered(upd.node) if isinstance(x, ast.If)]:
            lits = [a for a in iff.body if isinstance(a, ast.Assign) and isinstance(a.targets[0], ast.Name)
                    and ((isinstance(a.value, ast.Constant) and isinstance(a.value.value, (int, float))) or norm(a.value) in ("inf", "-inf"))]
            if not lits:
                continue
            V = lits[0].targets[0].id
            n += 1
            ctx.instance(rid, f"{impl}._update_circuit: stand-in {V} = {norm(lits[0].value)} only under the exact guard {V} == 0.0")
            t = iff.test
            exact = isinstance(t, ast.Compare) and len(t.ops) == 1 and isinstance(t.ops[0], ast.Eq) and norm(t.left) == V \
                and isinstance(t.comparators[0], ast.Constant) and t.comparators[0].value == 0
            if exact:
                ctx.ok()
            else:
                ctx.violation(rid, f"{impl}:_update_circuit:zero-guard:{V}", mod, iff,
                              f"{impl}._update_circuit replaces the fitted coefficient {V} by {norm(lits[0].value)} under `{norm(t)}` instead of `{V} == 0.0`: {why}")
        # conditional-expression form: V = <stand-in> if <test> else <expr>  (or the mirror image)
        for asg in [x for x in walk_ordered(upd.node) if isinstance(x, (ast.Assign, ast.AnnAssign)) and isinstance(getattr(x, "value", None), ast.IfExp)]:
            tgt = asg.targets[0] if isinstance(asg, ast.Assign) else asg.target
            ife = asg.value
            is_lit = lambda e: (isinstance(e, ast.Constant) and isinstance(e.value, (int, float))) or norm(e) in ("inf", "-inf")
            if not isinstance(tgt, ast.Name) or not (is_lit(ife.body) or is_lit(ife.orelse)):
                continue
            V = tgt.id
            n += 1
            lit, t = (ife.body, ife.test) if is_lit(ife.body) else (ife.orelse, ife.test)
            ctx.instance(rid, f"{impl}._update_circuit: stand-in {V} = {norm(lit)} only under the exact guard {V} == 0.0")
            if is_lit(ife.body):
                exact = isinstance(t, ast.Compare) and len(t.ops) == 1 and isinstance(t.ops[0], ast.Eq) and norm(t.left) == V and isinstance(t.comparators[0], ast.Constant) and t.comparators[0].value == 0
            else:
                exact = isinstance(t, ast.Compare) and len(t.ops) == 1 and isinstance(t.ops[0], ast.NotEq) and norm(t.left) == V and isinstance(t.comparators[0], ast.Constant) and t.comparators[0].value == 0
            if exact:
                ctx.ok()
            else:
                ctx.violation(rid, f"{impl}:_update_circuit:zero-guard:{V}", mod, asg,
                              f"{impl}._update_circuit replaces the fitted coefficient {V} by {norm(lit)} under `{norm(t)}` instead of `{V} == 0.0`: {why}")
    if n < 4:
        raise AnalysisError(f"zero-guard rule: only {n} stand-in guards found in _update_circuit (floor 4, confirmed by reading)")


def columns_of(model, fi, consts: Dict[str, Any]) -> Dict[str, Dict[str, sp.Expr]]:
    """{matrix name: {row block: term}} stored by one `_add_*` function in one configuration: by interpreting the function
    on a small matrix stand-in (helpers, slice objects and offset tables included); by reading its stores when that fails."""
    try:
        return _columns_by_interpretation(model, fi, consts)
    except AnalysisError:
        return _columns_by_shape(model, fi, consts)


def _columns_by_interpretation(model, fi, consts: Dict[str, Any]) -> Dict[str, Dict[str, sp.Expr]]:
    from ..miniinterp import InterpRaise, Mini, module_globals
    from ..nplite import NP_STUBS, Mat, NArr
    test = consts.get("test")
    n_w = 2
    ws = [sp.Symbol(f"w{r}", positive=True) for r in range(n_w)]
    m = 2 * n_w if test == "complex" else n_w
    mats: Dict[str, Mat] = {}
    args: Dict[str, Any] = {}
    for a in fi.node.args.args:
        nm = a.arg
        if nm in ("A", "A_re", "A_im"):
            mats[nm] = args[nm] = Mat(m if nm == "A" else n_w, 6)
        elif nm == "w":
            args[nm] = NArr(ws)
        elif nm == "tau":
            args[nm] = TAU
        elif nm == "taus":
            args[nm] = NArr([TAU])
        elif nm == "i":
            args[nm] = 2
        elif nm in consts:
            args[nm] = consts[nm]
        else:
            raise AnalysisError(f"{fi.qual}: parameter {nm} has no stand-in")
    if not mats:
        raise AnalysisError(f"{fi.qual}: no matrix parameter")
    st = dict(NP_STUBS)
    st.update({"NDArray": None, "float64": float, "complex128": complex, "pi": sp.pi})
    g = module_globals(model.repo.modules[fi.module].tree, st)
    g.update(st)
    try:
        Mini(g, max_steps=100000).call_function(fi.node, args)
    except InterpRaise as e:
        raise AnalysisError(f"{fi.qual}: raises {e.kind} on the matrix stand-in")
    out: Dict[str, Dict[str, sp.Expr]] = {}
    for nm, M in mats.items():
        cols = {c for _, c in M.written}
        if len(cols) > 1:
            raise AnalysisError(f"{fi.qual}: writes {len(cols)} columns of {nm} in one call")
        for c in cols:
            rows = sorted(r for r, c2 in M.written if c2 == c)
            blocks: Dict[str, List[int]] = {}
            for r in rows:
                if nm == "A":
                    blk = ("re" if r < n_w else "im") if test == "complex" else ("re" if test == "real" else "im")
                else:
                    blk = "re" if nm == "A_re" else "im"
                blocks.setdefault(blk, []).append(r)
            for blk, rs in blocks.items():
                if len(rs) != n_w:
                    raise AnalysisError(f"{fi.qual}: only rows {rs} of the {blk} block of {nm} are written")
                terms = set()
                for r in rs:
                    v = sp.sympify(M.cells[r][c])
                    terms.add(sp.simplify(v.subs({ws[r % n_w]: W})))
                if len(terms) != 1 or any(t.has(*ws) for t in terms):
                    raise AnalysisError(f"{fi.qual}: the rows of the {blk} block of {nm} do not hold one term of their own frequency: {terms}")
                out.setdefault(nm, {})[blk] = terms.pop()
    return out


def _columns_by_shape(model, fi, consts: Dict[str, Any]) -> Dict[str, Dict[str, sp.Expr]]:
    out: Dict[str, Dict[str, sp.Expr]] = {}
    interp = _interp(model, consts)
    ti = interp._interp(fi, 0)
    env: Dict[str, Any] = {"w": W, "tau": TAU, "taus": [TAU], "m": sp.Symbol("m"), "i": sp.Symbol("i")}
    env.update(consts)

    def block(stmts):
        for s in stmts:
            if isinstance(s, ast.If):
                d = ti.decide(s.test, env)
                if d is None:
                    raise AnalysisError(f"{fi.qual}: undecidable test {norm(s.test)} in configuration {consts}")
                block(s.body if d else s.orelse)
            elif isinstance(s, ast.For):
                # one symbolic iteration over the time constants
                if "taus" not in norm(s.iter):
                    raise AnalysisError(f"{fi.qual}: loop over {norm(s.iter)} not understood")
                tg = s.target
                names = [e.id for e in tg.elts] if isinstance(tg, ast.Tuple) else [tg.id]
                env[names[-1]] = TAU
                if len(names) == 2:
                    env[names[0]] = sp.Symbol("k")
                block(s.body)
            elif isinstance(s, (ast.Assign, ast.AnnAssign)):
                t = s.targets[0] if isinstance(s, ast.Assign) else s.target
                if s.value is None:
                    continue
                if isinstance(t, ast.Subscript) and isinstance(t.value, ast.Name) and isinstance(t.slice, ast.Tuple):
                    rows = norm(t.slice.elts[0]).replace(" ", "")
                    try:
                        val = ti.ev(s.value, env)
                    except Unsupported as e:
                        raise AnalysisError(f"{fi.qual}: column expression outside the term fragment: {e}")
                    mat = t.value.id
                    if rows in ("0:m//2", ":m//2"):
                        blk = "re"
                    elif rows in ("m//2:",):
                        blk = "im"
                    elif rows in (":", "0:m"):
                        blk = "re" if mat == "A_re" else "im" if mat == "A_im" else ("re" if consts.get("test") == "real" else "im")
                    else:
                        raise AnalysisError(f"{fi.qual}: row selection {rows} not understood")
                    out.setdefault(mat, {})[blk] = sp.sympify(val)
                elif isinstance(t, ast.Name):
                    try:
                        env[t.id] = ti.ev(s.value, env)
                    except Unsupported:
                        env[t.id] = sp.Symbol(t.id)
            elif isinstance(s, ast.AugAssign):
                continue
            elif isinstance(s, ast.Expr):
                continue
            else:
                raise AnalysisError(f"{fi.qual}: statement {type(s).__name__} at line {s.lineno} not understood")

    block(fi.node.body)
    return out


def mapping_of(model, fi, consts: Dict[str, Any], variables: List[sp.Symbol]) -> Dict[str, sp.Expr]:
    """{Class.param: term in the fit variables} applied by _update_circuit in one configuration."""
    interp = _interp(model, consts)
    ti = interp._interp(fi, 0)
    env: Dict[str, Any] = dict(consts)
    env["variables"] = list(variables)
    env["inf"] = sp.oo
    out: Dict[str, sp.Expr] = {}

    def cls_of(node: ast.AST) -> Optional[str]:
        p = parent(node)
        while p is not None and p is not fi.node:
            if isinstance(p, ast.If) and "isinstance(element" in norm(p.test):
                return norm(p.test).split(",")[1].strip(" )")
            if isinstance(p, ast.For) and "filter(" in norm(p.iter):
                return "KramersKronigAdmittanceRC" if consts["admittance"] else "KramersKronigRC"
            p = parent(p)
        return None

    def run(stmts):
        for s in stmts:
            if isinstance(s, ast.If):
                if "len(elements)" in norm(s.test):
                    continue
                d = ti.decide(s.test, env)
                if d is None:
                    raise AnalysisError(f"{fi.qual}: undecidable test {norm(s.test)}")
                run(s.body if d else s.orelse)
            elif isinstance(s, ast.For):
                local = dict(env)
                if isinstance(s.target, ast.Tuple):
                    local[s.target.elts[0].id] = 0  # the k-th loop addresses variables[i]: one representative

                def body(stmts2, loc, cls):
                    for t in stmts2:
                        if isinstance(t, ast.If) and "isinstance(element" in norm(t.test):
                            body(t.body, dict(loc), norm(t.test).split(",")[1].strip(" )"))
                        elif isinstance(t, ast.If):
                            d = ti.decide(t.test, loc)
                            if d is None:
                                raise AnalysisError(f"{fi.qual}: undecidable test {norm(t.test)}")
                            body(t.body if d else t.orelse, loc, cls)
                        elif isinstance(t, (ast.Assign, ast.AnnAssign, ast.AugAssign)):
                            try:
                                ps = ti.run([t], loc)
                                loc.clear()
                                loc.update(ps[-1].env)
                            except Unsupported as e:
                                raise AnalysisError(f"{fi.qual}: statement at line {t.lineno} outside the term fragment: {e}")
                        elif isinstance(t, ast.Expr) and isinstance(t.value, ast.Call) and isinstance(t.value.func, ast.Attribute) and t.value.func.attr == "set_values":
                            c = t.value
                            cl = cls or cls_of(c)
                            if cl is None:
                                raise AnalysisError(f"{fi.qual}: set_values at line {c.lineno} not attributable to an element class")
                            for k in c.keywords:
                                try:
                                    out[f"{cl}.{k.arg}"] = sp.sympify(ti.ev(k.value, loc))
                                except Unsupported as e:
                                    raise AnalysisError(f"{fi.qual}: value of {cl}.{k.arg} outside the term fragment: {e}")
                        elif isinstance(t, (ast.Break, ast.Expr, ast.Continue)):
                            continue
                        else:
                            raise AnalysisError(f"{fi.qual}: statement {type(t).__name__} at line {t.lineno} in an update loop not understood")

                body(s.body, local, None)
            elif isinstance(s, (ast.Assign, ast.AnnAssign, ast.AugAssign)):
                if isinstance(s, ast.AnnAssign) and s.value is None:
                    continue
                try:
                    paths = ti.run([s], env)
                except Unsupported as e:
                    tg = s.targets[0] if isinstance(s, ast.Assign) else s.target
                    if isinstance(tg, ast.Name) and tg.id not in ("R", "L", "C", "variables"):
                        env[tg.id] = sp.Symbol(f"opaque_{tg.id}")
                        continue
                    raise AnalysisError(f"{fi.qual}: statement at line {s.lineno} outside the term fragment: {e}")
                env.clear()
                env.update(paths[-1].env)
            elif isinstance(s, ast.Expr):
                continue
            else:
                raise AnalysisError(f"{fi.qual}: statement {type(s).__name__} at line {s.lineno} not understood")

    run(fi.node.body)
    return out


def check(ctx: Ctx) -> None:
    model = get_model(ctx.repo)
    ctx.modules_consulted.update({LS, MI, UT, "pyimpspec.circuit.kramers_kronig"})
    ctx.rule("R7.1", "model term: topology from _generate_circuit (series for Z, parallel for Y) over the registered element equations")
    ctx.rule("R7.2", "column terms and row blocks of every design-matrix builder, right-hand sides from the b-vector builder / the scaled X_exp expressions")
    ctx.rule("R7.3", "mapping terms: _update_circuit's variable → parameter map and the column order of the generators agree")
    ctx.rule("R7.4", "identity: block(X_model(ω; g(x))) ≡ Σ_j x_j · col_j(ω) in every configuration; both implementations agree; scaling is the same factor on both sides")
    ctx.rule("R7.5", "the circuit carries the fitted coefficients: stand-in constants replace a coefficient only when it is exactly zero; the design matrix is a function of its arguments (no module-level state)")
    zero_guard_rule(ctx, model, "R7.5", "a small non-zero coefficient (e.g. a 4 nF parallel capacitance) is silently discarded and the model no longer equals the fit")
    stateless_rule(ctx, model, "R7.5")
    # one writer: fitted coefficients reach the circuit only through _update_circuit, which applies the representation-aware
    # variable → parameter map; a value written to an element elsewhere bypasses it (e.g. a conductance stored as a resistance)
    for impl, mod in (("least_squares", LS), ("matrix_inversion", MI)):
        writers = {}
        for q, fi_ in sorted(model.funcs.items()):
            if fi_.module != mod:
                continue
            for c_ in calls_in(fi_.node, into_functions=True):
                if isinstance(c_.func, ast.Attribute) and c_.func.attr == "set_values" and not (isinstance(c_.func.value, ast.Call)):
                    writers.setdefault(fi_.qual, []).append(c_)
        ctx.instance("R7.5", f"{impl}: element values are written only by _update_circuit ({sorted(writers)})")
        extra = {k: v for k, v in writers.items() if k != "_update_circuit"}
        if "_update_circuit" not in writers:
            raise AnalysisError(f"{impl}: _update_circuit writes no element value")
        if not extra:
            ctx.ok()
        else:
            k0 = sorted(extra)[0]
            ctx.violation("R7.5", f"{impl}:{k0}:direct-write", mod, extra[k0][0],
                          f"{impl}.{k0} writes {norm(extra[k0][0])[:60]} into the circuit itself instead of going through _update_circuit: the value skips the impedance/admittance conversion of the fitted coefficient")
    ctx.assumptions += ["one symbolic RC element stands for the k-th (columns are uniform in k)", "the design matrix has full column rank (conditioning is not decided)"]
    ctx.trusted += ["sympy simplify on rational functions of real symbols", "sa.terms interpreter"]

    # ---------------- R7.1 ---------------------------------------------------------
    eds = {e.cls: e for e in registered_elements(ctx.repo)}
    f = sp.Symbol("f")

    def Zel(cls: str, **params) -> sp.Expr:
        e = canon(parse_equation(eds[cls].equation))
        sub = {sp.Symbol(k): v for k, v in params.items()}
        sub[f] = W / (2 * sp.pi)
        return sp.simplify(e.subs(sub))

    gc = model.fi(UT, "_generate_circuit")
    src = norm(gc.node)
    topo_ok = all(s in src for s in (
        "elements.append(Resistor(R=1)", "if admittance:\n            elements.append(KramersKronigAdmittanceRC(tau=t))",
        "elements.append(KramersKronigRC(tau=t))", "if add_capacitance:\n        elements.append(Capacitor(", "if add_inductance:\n        elements.append(Inductor(",
        "if admittance:\n        return Circuit(Parallel(elements))", "return Circuit(Series(elements))"))
    ctx.instance("R7.1", "_generate_circuit topology")
    if not topo_ok:
        raise AnalysisError("_generate_circuit: topology not recognised (R + K/Ky per tau + optional C + optional L; Parallel for admittance, Series otherwise)")
    ctx.ok()

    def model_X(adm: bool, cap: bool, ind: bool, pars: Dict[str, sp.Expr]) -> sp.Expr:
        zs = [Zel("Resistor", R=pars["Resistor.R"])]
        if adm:
            zs.append(Zel("KramersKronigAdmittanceRC", C=pars["KramersKronigAdmittanceRC.C"], tau=TAU))
        else:
            zs.append(Zel("KramersKronigRC", R=pars["KramersKronigRC.R"], tau=TAU))
        if cap:
            zs.append(Zel("Capacitor", C=pars["Capacitor.C"]))
        if ind:
            zs.append(Zel("Inductor", L=pars["Inductor.L"]))
        return sum(1 / z for z in zs) if adm else sum(zs)

    programs = 0
    disagreements = 0
    for impl, mod in (("least_squares", LS), ("matrix_inversion", MI)):
        adders = {
            "R": model.fi(mod, "_add_resistance_to_A_matrix"),
            "k": model.fi(mod, "_add_kth_variables_to_A_matrix" if impl == "least_squares" else "_add_kth_variables_to_A_matrices"),
            "C": model.fi(mod, "_add_capacitance_to_A_matrix"),
            "L": model.fi(mod, "_add_inductance_to_A_matrix"),
        }
        upd = model.fi(mod, "_update_circuit")
        tests = ("complex", "real", "imaginary")
        for test, adm, cap, ind in itertools.product(tests, (False, True), (False, True), (False, True)):
            if impl == "matrix_inversion" and not ind:
                continue  # this implementation always carries the inductance column
            consts = {"test": test, "admittance": adm, "add_capacitance": cap, "add_inductance": ind}
            cfg = f"{impl}/{test}/{'Y' if adm else 'Z'}/C={int(cap)}/L={int(ind)}"
            programs += 1
            # columns present in this system
            cols: Dict[str, Dict[str, sp.Expr]] = {}
            for cid, fi in adders.items():
                if cid == "C" and not cap or cid == "L" and not ind:
                    continue
                c = columns_of(model, fi, consts)
                merged: Dict[str, sp.Expr] = {}
                for mat, blocks in c.items():
                    for b, t in blocks.items():
                        merged[b] = t
                cols[cid] = merged
            blocks = ("re", "im") if test == "complex" else (("re",) if test == "real" else ("im",))
            if impl == "matrix_inversion":
                # A_re and A_im are both built; the real test uses A_re only, the imaginary test A_im only
                pass
            variables = [XR, XK] + ([XC] if cap else []) + ([XL] if ind else [])
            var_of = {"R": XR, "k": XK, "C": XC, "L": XL}
            try:
                g = mapping_of(model, upd, consts, variables)
            except AnalysisError:
                raise
            need = ["Resistor.R", "KramersKronigAdmittanceRC.C" if adm else "KramersKronigRC.R"] + (["Capacitor.C"] if cap else []) + (["Inductor.L"] if ind else [])
            ctx.instance("R7.3", f"{cfg}: mapping {{{', '.join(f'{k}={g.get(k)}' for k in need)}}}")
            if any(k not in g for k in need):
                ctx.violation("R7.3", f"{impl}:{'Y' if adm else 'Z'}:mapping-missing", mod, upd.node,
                              f"{cfg}: _update_circuit sets no value for {[k for k in need if k not in g]}")
                continue
            ctx.ok()
            X = model_X(adm, cap, ind, g)
            parts = {"re": sp.re, "im": sp.im}
            for b in blocks:
                lhs = sp.simplify(parts[b](sp.expand_complex(X)))
                rhs = sp.Integer(0)
                present = []
                for cid, blk in cols.items():
                    if b in blk:
                        rhs += var_of[cid] * blk[b]
                        present.append(cid)
                # variables whose column is absent from this block must not influence this block of the model
                absent = [var_of[c] for c in cols if c not in present]
                lhs_cmp = lhs
                ctx.instance("R7.4", f"{cfg} [{b}]: columns {present}")
                diff = sp.simplify(lhs_cmp - rhs)
                if diff == 0:
                    ctx.ok()
                    ctx.sample({"configuration": cfg, "block": b, "model_block": str(lhs)[:120], "sum_x_col": str(sp.simplify(rhs))[:120]}, cap=6)
                else:
                    # in the single-part tests the other part's variables (R in the imaginary test; C, L in the real test) are
                    # fitted in a second step: they may not appear in this block at all
                    free = diff.free_symbols & set(absent)
                    if free and sp.simplify(diff.subs({v: 0 for v in absent}) if False else diff) != 0 and not (diff.free_symbols - set(absent) - {W, TAU}):
                        # difference involves only absent variables: the model block depends on a variable that has no column here
                        pass
                    disagreements += 1
                    ctx.violation("R7.4", f"{impl}:{test}:{'Y' if adm else 'Z'}:C{int(cap)}L{int(ind)}:{b}", mod, adders["k"].node,
                                  f"{cfg}: the {b} part of the model immittance is {lhs} but the design matrix encodes {sp.simplify(rhs)} "
                                  f"(difference {diff}): a spectrum of the test's own model is not reproduced")
        # R7.3 column order vs pop order
        _order(ctx, model, impl, mod)
    # R7.2 right-hand sides and scaling
    _rhs(ctx, model)
    # sibling agreement of the k-th column between the implementations (admittance branch is written differently)
    for adm in (False, True):
        a = columns_of(model, model.fi(LS, "_add_kth_variables_to_A_matrix"), {"test": "complex", "admittance": adm})
        b = columns_of(model, model.fi(MI, "_add_kth_variables_to_A_matrices"), {"admittance": adm})
        ctx.instance("R7.4", f"k-th column, {'Y' if adm else 'Z'}: least_squares ≡ matrix_inversion")
        la = {blk: t for m_ in a.values() for blk, t in m_.items()}
        lb = {blk: t for m_ in b.values() for blk, t in m_.items()}
        if all(sp.simplify(sp.re(sp.expand_complex(la[x])) - lb[x]) == 0 if x == "re" else sp.simplify(la[x] - lb[x]) == 0 for x in ("re", "im")):
            ctx.ok()
        else:
            disagreements += 1
            ctx.violation("R7.4", f"kth-column:{'Y' if adm else 'Z'}:siblings", MI, model.fi(MI, "_add_kth_variables_to_A_matrices").node,
                          f"the k-th column differs between the implementations: {la} vs {lb}")
    ctx.extra_cov.update({"programs": programs, "disagreements_checked": disagreements})
    if programs < 30:
        raise AnalysisError(f"only {programs} configurations analysed (floor 30)")


def _order(ctx: Ctx, model, impl: str, mod: str) -> None:
    upd = model.fi(mod, "_update_circuit")
    pops = []
    for n in walk_ordered(upd.node):
        if isinstance(n, ast.Assign) and isinstance(n.targets[0], ast.Tuple) and len(n.targets[0].elts) == 2 and norm(n.targets[0].elts[1]) == "variables" \
                and isinstance(n.value, ast.Tuple):
            pops.append((norm(n.targets[0].elts[0]), norm(n.value.elts[0]), norm(n.value.elts[1])))
    ctx.instance("R7.3", f"{impl}: _update_circuit takes {pops}")
    want = [("R", "variables[0]", "variables[1:]"), ("L", "variables[-1]", "variables[:-1]"), ("C", "variables[-1]", "variables[:-1]")]
    if pops == want:
        ctx.ok()
    else:
        ctx.violation("R7.3", f"{impl}:_update_circuit:positions", mod, upd.node,
                      f"{impl}._update_circuit takes its variables as {pops}; the generators place R first, then the RC elements, then C, then L (so L is taken from the end before C)")
    if impl == "least_squares":
        gen = model.fi(mod, "_generate_A_matrix")
        seq = [dotted(c.func) for c in calls_in(gen.node) if dotted(c.func).startswith("_add_")]
        ctx.instance("R7.3", f"least_squares column order {seq}")
        if seq == ["_add_resistance_to_A_matrix", "_add_kth_variables_to_A_matrix", "_add_capacitance_to_A_matrix", "_add_inductance_to_A_matrix"] \
                and "enumerate(taus, start=1)" in norm(gen.node) and norm(gen.node).count("i += 1") == 2:
            ctx.ok()
        else:
            ctx.violation("R7.3", "least_squares:_generate_A_matrix:order", mod, gen.node, "columns must be R (0), RC elements (1..n), then C, then L")
        r = model.fi(mod, "_add_resistance_to_A_matrix")
        if "i: int = 0" not in norm(r.node):
            ctx.violation("R7.3", "least_squares:resistance-column", mod, r.node, "the resistance must occupy column 0")
    else:
        idx = {}
        for name in ("_add_resistance_to_A_matrix", "_add_capacitance_to_A_matrix", "_add_inductance_to_A_matrix", "_add_kth_variables_to_A_matrices"):
            fi = model.fi(mod, name)
            from ..prov import Resolver as _Res2
            _r2 = _Res2(fi.node)
            cols = set()
            for n in walk_ordered(fi.node):
                if isinstance(n, ast.Assign) and isinstance(n.targets[0], ast.Subscript) and isinstance(n.targets[0].slice, ast.Tuple):
                    c_ = n.targets[0].slice.elts[1]
                    if isinstance(c_, ast.Slice):
                        # a block of columns lo:hi written at once: the k-th time constant (k = 0..n-1) lands in column lo + k
                        lo = _r2.text(c_.lower, n).replace(" ", "") if c_.lower is not None else "0"
                        hi = _r2.text(c_.upper, n).replace(" ", "") if c_.upper is not None else ""
                        cols.add("i + 1" if (lo, hi) in (("1", "len(taus)+1"), ("1", "1+len(taus)"), ("1", "taus.size+1"), ("1", "taus.shape[0]+1")) else f"{lo}:{hi}")
                    else:
                        txt = norm(c_)
                        # the column index of the k-th time constant as a function of the enumerate() counter and its start
                        lp_ = enclosing(n, ast.For)
                        if lp_ is not None and isinstance(lp_.iter, ast.Call) and dotted(lp_.iter.func) == "enumerate" and isinstance(lp_.target, ast.Tuple) \
                                and isinstance(lp_.target.elts[0], ast.Name):
                            iv = lp_.target.elts[0].id
                            st_ = 0
                            for kw_ in lp_.iter.keywords:
                                if kw_.arg == "start" and isinstance(kw_.value, ast.Constant):
                                    st_ = kw_.value.value
                            if len(lp_.iter.args) > 1 and isinstance(lp_.iter.args[1], ast.Constant):
                                st_ = lp_.iter.args[1].value
                            try:
                                k_ = sp.Symbol("k")
                                e_ = sp.sympify(txt, locals={iv: k_ + st_})
                                if sp.simplify(e_ - (k_ + 1)) == 0:
                                    txt = "i + 1"
                            except Exception:
                                pass
                        cols.add(txt)
            idx[name] = cols
        ctx.instance("R7.3", f"matrix_inversion column positions {idx}")
        if idx == {"_add_resistance_to_A_matrix": {"0"}, "_add_capacitance_to_A_matrix": {"-2"}, "_add_inductance_to_A_matrix": {"-1"}, "_add_kth_variables_to_A_matrices": {"i + 1"}}:
            ctx.ok()
        else:
            ctx.violation("R7.3", "matrix_inversion:column-positions", mod, model.fi(mod, "_generate_A_matrices").node,
                          f"matrix_inversion columns must be R at 0, RC elements at i+1, C at -2, L at -1; found {idx}")


def _rhs(ctx: Ctx, model) -> None:
    bv = model.fi(LS, "_add_values_to_b_vector")
    ctx.instance("R7.2", "least_squares b vector: blocks of X_exp = Z_exp**(-1 if admittance else 1)")
    got = {}
    from ..prov import Resolver
    _R = Resolver(bv.node)  # hoisted locals (X_exp = Z_exp ** …) are expanded to their definitions
    for n in walk_ordered(bv.node):
        if isinstance(n, ast.Assign) and isinstance(n.targets[0], ast.Subscript) and norm(n.targets[0].value) == "b":
            iff = parent(n)
            got[(norm(iff.test) if isinstance(iff, ast.If) and n in iff.body else "else", norm(n.targets[0].slice).replace(" ", ""))] = _R.text(n.value, n)
    X = "(Z_exp ** (-1 if admittance else 1))"
    want = {("test == 'complex'", "0:m//2"): f"{X}.real", ("test == 'complex'", "m//2:"): f"{X}.imag", ("test == 'real'", "0:m"): f"{X}.real", ("else", "0:m"): f"{X}.imag"}
    if got == want:
        ctx.ok()
    else:
        ctx.violation("R7.2", "least_squares:b-vector", LS, bv.node, f"b vector blocks {got} do not pair the real/imaginary part of the immittance with the matching rows of A")
    sc = model.fi(MI, "_scale_A_matrices")
    ctx.instance("R7.2", "matrix_inversion: every column of A_re and A_im is divided by |X_exp|, and so are the right-hand sides")
    from ..prov import Resolver as _Res, inlined_function as _inl
    sc_node = _inl(model, sc)  # helper functions and procedures of the module are seen through
    _rs = _Res(sc_node)
    ok = True
    for M in ("A_re", "A_im"):
        divs = [n for n in walk_ordered(sc_node) if isinstance(n, ast.AugAssign) and isinstance(n.op, ast.Div)
                and norm(n.target.value if isinstance(n.target, ast.Subscript) else n.target) == M]
        good_m = False
        for dv in divs:
            by = _rs.text(dv.value, dv).replace(" ", "")
            if isinstance(dv.target, ast.Subscript):
                lp = enclosing(dv, ast.For)
                good_m = good_m or (by == "abs_X_exp" and norm(dv.target.slice).replace(" ", "").strip("()") in (":,i",) and lp is not None
                                    and norm(lp.iter).replace(" ", "") in (f"range({M}.shape[1])", "range(A_re.shape[1])", "range(A_im.shape[1])"))
            else:
                good_m = good_m or by in ("abs_X_exp.reshape(-1,1)", "abs_X_exp[:,None]", "abs_X_exp[:,newaxis]", "abs_X_exp.reshape((-1,1))")
        ok = ok and good_m and len(divs) == 1
    for name, rhs in (("_complex_test", ["X_exp.real / abs_X_exp", "X_exp.imag / abs_X_exp"]), ("_real_test", ["X_exp.real / abs_X_exp"]), ("_imaginary_test", ["X_exp.imag / abs_X_exp"])):
        t = norm(model.fi(MI, name).node)
        ok = ok and all(r in t for r in rhs) and "abs_X_exp: NDArray[float64] = abs(X_exp)" in t
    if ok:
        ctx.ok()
    else:
        ctx.violation("R7.2", "matrix_inversion:scaling", MI, sc.node, "the row scaling by |X_exp| must be applied to all columns of both matrices and to the right-hand sides alike")
    ct = model.fi(MI, "_complex_test")
    ctx.instance("R7.2", "matrix_inversion complex test solves the normal equations of [A_re; A_im] x = [Re; Im]")
    t = norm(ct.node)
    if "inv(A_re.T.dot(A_re) + A_im.T.dot(A_im))" in t and "A_re.T.dot(X_exp.real / abs_X_exp) + A_im.T.dot(X_exp.imag / abs_X_exp)" in t and "x.dot(y)" in t:
        ctx.ok()
    else:
        ctx.violation("R7.2", "matrix_inversion:normal-equations", MI, ct.node, "the complex test must solve (A_reᵀA_re + A_imᵀA_im) x = A_reᵀ Re + A_imᵀ Im")
