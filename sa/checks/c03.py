"""C03 — one circuit per description code, however spelled (partial).

Decides: agreement of the emitter's and the parser's token-level language,
locality and orientation of the parser's stack discipline, totality of the
limit transfer performed by the parser.  Does not decide numeric round-trip."""
from __future__ import annotations

import ast
import string
from typing import Dict, List, Optional, Set, Tuple

from ..core import AnalysisError, Ctx, calls_in, dotted, enclosing, norm, parent, walk_ordered
from ..elements import fold_const
from ..model import get_model
from ..orders import NUMERIC_SETTERS, worlds
from .c14 import DEF_OK, check_transfer, compile_setters, init_semantics, sequence_of

LEVEL = "other"
PARSER_INTERPRETED = False
BASE = "pyimpspec.circuit.base"
PARSER = "pyimpspec.circuit.parser"
TOK = "pyimpspec.circuit.tokenizer"
EMITTERS = [
    (BASE, "Element.to_string"), (BASE, "Container.to_string"),
    ("pyimpspec.circuit.series", "Series.to_string"), ("pyimpspec.circuit.parallel", "Parallel.to_string"),
    ("pyimpspec.circuit.circuit", "Circuit.serialize"),
]


def _string_parts(fn: ast.AST) -> Tuple[List[str], List[str]]:
    """(literal text pieces emitted, number-format pieces) of an emitter."""
    lits: List[str] = []
    fmts: List[str] = []
    fmt_nodes: Set[int] = set()
    for n in walk_ordered(fn):
        if isinstance(n, ast.BinOp) and isinstance(n.op, ast.Mod):
            for x in ast.walk(n.left):
                fmt_nodes.add(id(x))
                if isinstance(x, ast.Constant) and isinstance(x.value, str):
                    fmts.append(x.value)
    for n in walk_ordered(fn):
        if id(n) in fmt_nodes:
            continue
        if isinstance(n, ast.Constant) and isinstance(n.value, str):
            p = parent(n)
            # skip docstrings, exception messages and startswith/endswith/find probes
            if isinstance(p, ast.Expr):
                continue
            if enclosing(n, ast.Raise) is not None:
                continue
            if isinstance(p, ast.Call) and isinstance(p.func, ast.Attribute) and p.func.attr in ("endswith", "startswith", "find"):
                continue
            if isinstance(p, ast.Compare):
                continue
            lits.append(n.value)
    # a printf-style number format may be built apart from the place where it is applied (fmt = f"%.{d}E"; fmt % x):
    # classify by content — "%", optional flags/precision, conversion letter, possibly split by an f-string hole
    import re as _re
    moved = []
    for js in [n for n in walk_ordered(fn) if isinstance(n, ast.JoinedStr)]:
        text = "".join(str(v.value) if isinstance(v, ast.Constant) else "0" for v in js.values)
        if _re.search(r"%[-+ #0]*\d*(?:\.\d*)?[eEfFgG]", text):
            for v in js.values:
                if isinstance(v, ast.Constant) and isinstance(v.value, str) and v.value in lits and id(v) not in fmt_nodes:
                    moved.append(v.value)
    for n in walk_ordered(fn):
        if isinstance(n, ast.Constant) and isinstance(n.value, str) and id(n) not in fmt_nodes and not isinstance(parent(n), ast.JoinedStr) \
                and _re.fullmatch(r"[^%]*%[-+ #0]*\d*(?:\.\d*)?[eEfFgG][^%]*", n.value) and n.value in lits:
            moved.append(n.value)
    for m_ in moved:
        if m_ in lits:
            lits.remove(m_)
            fmts.append(m_)
    return lits, fmts


def check(ctx: Ctx) -> None:
    model = get_model(ctx.repo)
    ctx.modules_consulted.update({BASE, PARSER, TOK, "pyimpspec.circuit.series", "pyimpspec.circuit.parallel", "pyimpspec.circuit.circuit"})
    ctx.rule("R3.1", "every punctuation character and keyword the emitters write has a consumer in the tokenizer/parser tables; VERSION is one shared constant")
    ctx.rule("R3.2", "field order: emitter writes key=value[F]/lower/upper, label last; Parser.param/parameters consume in that order")
    ctx.rule("R3.3", "frame-local stack: a loop that drains the parser stack is allowed only in Parser.process; other popping loops stop at a marker the same invocation pushed or at a depth saved on entry")
    ctx.rule("R3.4", "limit transfer in Parser.element (read from source) succeeds in every world with l<=v<=u, l<u (own serialisation is accepted)")
    ctx.rule("R3.5", "label alphabet: first characters accepted by set_label ⊆ first characters for which the tokenizer produces a Label; brace balance")
    ctx.rule("R3.8", "every part of an element's state the emitter writes (value, limits, fixed flag, label, sub-circuits) flows unfiltered from Parser.parameters into the constructed element; 'short'/'open' are emitted exactly for empty/absent sub-circuits")
    ctx.rule("R3.7", "orientation typestate of lists built from the LIFO parser stack: the list handed to Series/Parallel is forward")

    # ---------------- R3.1 ------------------------------------------------------------
    # the table of single-character tokens: the mapping the main loop pushes from (`if char in T: … self.push(T[char])`),
    # wherever it is defined (instance attribute set in __init__, class attribute or module constant)
    tm0 = model.fi(TOK, "Tokenizer.main_loop")
    special = None
    tname = None
    for n in walk_ordered(tm0.node):
        if isinstance(n, ast.If) and isinstance(n.test, ast.Compare) and isinstance(n.test.ops[0], ast.In) and norm(n.test.left) == "char":
            T = norm(n.test.comparators[0])
            if any(isinstance(c.func, ast.Attribute) and c.func.attr == "push" and c.args and norm(c.args[0]) == f"{T}[char]" for st_ in n.body for c in calls_in(st_)):
                tname = T
                break
    if tname is None:
        raise AnalysisError("Tokenizer.main_loop: the single-character token table (`if char in T: … self.push(T[char])`) was not found")
    cands = []
    if tname.startswith("self."):
        attr = tname[5:]
        for q_, f_ in model.funcs.items():
            if f_.module == TOK and q_.split(":")[1].startswith("Tokenizer."):
                for n in walk_ordered(f_.node):
                    if isinstance(n, (ast.Assign, ast.AnnAssign)) and n.value is not None and norm(n.targets[0] if isinstance(n, ast.Assign) else n.target) == tname:
                        cands.append(n.value)
        for cls in [c for c in ctx.repo.modules[TOK].tree.body if isinstance(c, ast.ClassDef) and c.name == "Tokenizer"]:
            for n in cls.body:
                if isinstance(n, (ast.Assign, ast.AnnAssign)) and n.value is not None and norm(n.targets[0] if isinstance(n, ast.Assign) else n.target) == attr:
                    cands.append(n.value)
    else:
        from ..elements import module_consts
        mc = module_consts(ctx.repo, TOK)
        if tname in mc:
            cands.append(mc[tname])
    if len(cands) == 1 and isinstance(cands[0], ast.Name):
        from ..elements import module_consts
        cands = [module_consts(ctx.repo, TOK).get(cands[0].id)]
    if len(cands) == 1 and isinstance(cands[0], ast.Dict):
        special = {k.value: norm(v) for k, v in zip(cands[0].keys, cands[0].values) if isinstance(k, ast.Constant)}
    if not special or len(special) < 10:
        raise AnalysisError(f"Tokenizer: single-character token table {tname} not found as one dictionary display")
    # consumers of words
    parser_words: Set[str] = set()
    for q, fi in model.funcs.items():
        if fi.module == PARSER:
            for n in walk_ordered(fi.node):
                if isinstance(n, ast.Compare) and ".value" in norm(n.left):
                    for c in n.comparators:
                        if isinstance(c, ast.Constant) and isinstance(c.value, str):
                            parser_words.add(c.value)
    num = model.fi(TOK, "Tokenizer.number")
    number_sets: List[str] = []
    accepts: List[str] = []
    num_nodes = list(walk_ordered(num.node))
    for c_ in calls_in(num.node):
        q_ = model.resolve_call(num, c_)
        if q_ and q_ in model.funcs and model.funcs[q_].module == TOK and q_ != num.qname and model.funcs[q_].node.name not in ("peek", "pop", "consume", "push", "accept"):
            num_nodes += list(walk_ordered(model.funcs[q_].node))  # scanning helpers of number()
    for n in num_nodes:
        if isinstance(n, ast.Compare) and isinstance(n.ops[0], (ast.In, ast.NotIn)) and isinstance(n.comparators[0], ast.Constant) \
                and isinstance(n.comparators[0].value, str):
            number_sets.append(n.comparators[0].value)
        if isinstance(n, ast.Call) and dotted(n.func) == "self.accept" and n.args and isinstance(n.args[0], ast.Constant):
            accepts.append(n.args[0].value)
    fixed_markers = [s for s in number_sets if s.lower() in ("ff", "f")]
    exp_markers = [s for s in number_sets if s.lower() in ("ee", "e")]
    n_lit = 0
    for mod, qual in EMITTERS:
        fi = model.fi(mod, qual)
        lits, fmts = _string_parts(fi.node)
        for lit in lits:
            # punctuation
            for ch in lit:
                if ch.isalnum() or ch in " _":
                    continue
                n_lit += 1
                ctx.instance("R3.1", f"{qual}: punctuation {ch!r}")
                if ch in special or ch in string.whitespace:
                    ctx.ok()
                else:
                    ctx.violation("R3.1", f"{qual}:punct:{ch}", mod, fi.node,
                                  f"{qual} emits {ch!r}, which is not in Tokenizer._special_characters: own output would raise UnexpectedCharacter")
            # words
            word = ""
            for ch in lit + " ":
                if ch.isalpha():
                    word += ch
                    continue
                if word:
                    n_lit += 1
                    ctx.instance("R3.1", f"{qual}: word {word!r}")
                    if word in parser_words or any(word in fm for fm in fixed_markers) or (qual == "Circuit.serialize" and word.upper() in {w.upper() for w in parser_words}):
                        ctx.ok()
                    else:
                        ctx.violation("R3.1", f"{qual}:word:{word}", mod, fi.node,
                                      f"{qual} emits the keyword {word!r}; the parser compares token values only against {sorted(parser_words)} and the fixed markers {fixed_markers}")
                word = ""
        for fm in fmts:
            # number format pieces such as "%." and "E": exponent marker must be accepted by Tokenizer.number
            for ch in fm:
                if ch.isalpha():
                    n_lit += 1
                    ctx.instance("R3.1", f"{qual}: number format letter {ch!r}")
                    if any(ch in s for s in exp_markers):
                        ctx.ok()
                    else:
                        ctx.violation("R3.1", f"{qual}:numfmt:{ch}", mod, fi.node,
                                      f"{qual} formats numbers with %{ch}; Tokenizer.number accepts exponent markers {exp_markers} only")
    if n_lit < 15:
        raise AnalysisError(f"R3.1: only {n_lit} emitted literals recognised (floor 15)")
    ctx.instance("R3.1", "Tokenizer.number accepts '.', '+', '-' of the %E format")
    if "." in accepts and "+" in accepts and "-" in accepts and exp_markers and fixed_markers:
        ctx.ok()
    else:
        ctx.violation("R3.1", "Tokenizer.number:format", TOK, num.node,
                      f"Tokenizer.number must accept '.', exponent marker, '+', '-' and a fixed marker; found accept{accepts}, sets {number_sets}")
    # VERSION shared
    ctx.instance("R3.1", "VERSION shared by Circuit.serialize and Parser.migrate")
    ser = norm(model.fi("pyimpspec.circuit.circuit", "Circuit.serialize").node)
    mig = norm(model.fi(PARSER, "Parser.migrate").node)
    r = model.resolve(PARSER, "VERSION")
    if "VERSION" in ser and "VERSION" in mig and r and r[1] == "pyimpspec.circuit.circuit:VERSION":
        ctx.ok()
    else:
        ctx.violation("R3.1", "VERSION:not-shared", PARSER, model.fi(PARSER, "Parser.migrate").node,
                      "the version header written by serialize and the bound checked by migrate are not the same constant")

    # ---------------- R3.2 ------------------------------------------------------------
    ts = model.fi(BASE, "Element.to_string")
    from ..strabs import StrAbs
    sab = StrAbs(ts.node)
    sab.run()
    entries = None
    for lst, av in sab.appended.items():
        if any(any(p[0] == "num" for p in alt) for alt in av):
            entries = av
    if not entries:
        raise AnalysisError("Element.to_string: no list of formatted parameter entries found by the string abstraction")

    def canon(alt) -> str:
        out = ""
        for p in alt:
            if p[0] == "lit":
                out += p[1]
            elif p[0] == "num":
                out += "<L>" if "lower" in p[1] else ("<U>" if "upper" in p[1] else "<V>")
            else:
                out += "<K>"
        return out
    got = sorted({canon(a) for a in entries})
    want = sorted(f"<K>=<V>{F}/{lo}/{up}" for F in ("", "F") for lo in ("<L>", "inf") for up in ("<U>", "inf"))
    ctx.instance("R3.2", f"Element.to_string parameter entry shapes {got}")
    loop = ts.node
    if got == want:
        ctx.ok()
    else:
        ctx.violation("R3.2", "Element.to_string:field-order", BASE, loop,
                      f"a parameter is emitted as one of {got}; the parser reads key=value[F]/lower/upper with 'inf' for an absent limit, i.e. {want}")
    # the parser side is decided by interpretation of Parser.param / Parser.parameters on token streams (see
    # sa/checks/_parser_interp.py); the shape rules below it are the fallback when a construct is outside the interpreter
    global PARSER_INTERPRETED
    PARSER_INTERPRETED = False
    try:
        from ._parser_interp import run_param, run_parameters
        pp = model.fi(PARSER, "Parser.param")
        probs1, n1 = run_param(ctx, model)
        ctx.instance("R3.2", f"Parser.param on {n1} token streams: value[F], /lower[/upper] and //upper with number, percentage and inf limits; terminator left in place")
        if not probs1:
            ctx.ok()
        else:
            ctx.violation("R3.2", "Parser.param:limit-order", PARSER, pp.node, "Parser.param does not read the parameter grammar the emitter writes — " + probs1[0])
        probs2, n2 = run_parameters(ctx, model, got)
        pf = model.fi(PARSER, "Parser.parameters")
        ctx.instance("R3.2", f"Parser.parameters reads back {n2} blocks built from the emitter's entry shapes, with and without a label")
        if not probs2:
            ctx.ok()
        else:
            ctx.violation("R3.2", "label:position" if "lbl" in probs2[0] and "':lbl'" not in probs2[0] and False else "Parser.parameters:round-trip", PARSER, pf.node,
                          "Parser.parameters does not read back what Element.to_string writes — " + probs2[0])
        PARSER_INTERPRETED = True
    except AnalysisError as e:
        ctx.note(f"parser grammar not interpretable ({e}); falling back to the shape rules")
    # emitter side: the label is written after the parameter entries and before the closing brace
    ctx.instance("R3.2", "Element.to_string writes ':' + label after the parameter entries, before '}'")
    whole = sab.run()
    lab_ok = True
    n_lab = 0
    for alt in whole:
        idx = [i for i, p_ in enumerate(alt) if p_[0] == "str" and "_label" in p_[1]]
        if not idx:
            continue
        n_lab += 1
        i = idx[-1]
        before_ok = i > 0 and alt[i - 1][0] == "lit" and alt[i - 1][1].endswith(":")
        after_ok = i + 1 < len(alt) and alt[i + 1][0] == "lit" and alt[i + 1][1].startswith("}")
        nums_before = all(j < i for j, p_ in enumerate(alt) if p_[0] == "num")
        lab_ok = lab_ok and before_ok and after_ok and nums_before
    if lab_ok and n_lab:
        ctx.ok()
    else:
        ctx.violation("R3.2", "label:position", BASE, ts.node, "the label must be emitted as ':' + label after the parameters and directly before the closing brace")
    if not PARSER_INTERPRETED:
        pp = model.fi(PARSER, "Parser.param")
        pl_calls = [(n, norm(parent(n).targets[0]) if isinstance(parent(n), ast.Assign) else "?")
                    for n in walk_ordered(pp.node) if isinstance(n, ast.Call) and dotted(n.func) == "self.param_limit"]
        ctx.instance("R3.2", f"Parser.param limit reads {[t for _, t in pl_calls]}")
        good = len(pl_calls) == 3
        if good:
            def upflag(c):
                for k in c.keywords:
                    if k.arg == "upper":
                        return k.value.value
                return None
            seq = [(t, upflag(c)) for c, t in pl_calls]
            good = seq == [("upper", True), ("lower", False), ("upper", True)]
        if good:
            ctx.ok()
        else:
            ctx.violation("R3.2", "Parser.param:limit-order", PARSER, pp.node,
                          "Parser.param must read '//upper' or '/lower[/upper]' with the upper flag matching the target")
        lim = model.fi(PARSER, "Parser.param_limit")
        ctx.instance("R3.2", "Parser.param_limit maps 'inf' to -inf/+inf by position")
        rets = [n for n in walk_ordered(lim.node) if isinstance(n, ast.Return)]
        txt = [norm(r_.value) for r_ in rets]
        if "inf" in txt and "-inf" in txt:
            r_inf = next(r_ for r_ in rets if norm(r_.value) == "inf")
            okp = isinstance(parent(r_inf), ast.If) and norm(parent(r_inf).test) == "upper" and r_inf in parent(r_inf).body
            if okp:
                ctx.ok()
            else:
                ctx.violation("R3.2", "Parser.param_limit:inf-sign", PARSER, lim.node, "'inf' must map to +inf exactly when the upper limit is being read")
        else:
            ctx.violation("R3.2", "Parser.param_limit:inf-sign", PARSER, lim.node, "'inf' limit keyword no longer maps to -inf/+inf")
        # label last
        ctx.instance("R3.2", "label after parameters in emitter and parser")
        tsrc = [n for n in walk_ordered(ts.node) if isinstance(n, ast.AugAssign) and norm(n.target) == "cdc"]
        lab_after = any("self._label" in norm(n.value) for n in tsrc) and loop.lineno < min(n.lineno for n in tsrc)
        pf = model.fi(PARSER, "Parser.parameters")
        colon_ifs = [n for n in pf.node.body if isinstance(n, ast.If) and norm(n.test) == "self.accept(Colon)"]
        rc = [n for n in pf.node.body if isinstance(n, ast.Expr) and norm(n.value) == "self.expect(RCurly)"]
        if lab_after and colon_ifs and rc and colon_ifs[-1].lineno < rc[0].lineno:
            ctx.ok()
        else:
            ctx.violation("R3.2", "label:position", PARSER, pf.node, "label must be emitted after the parameters and parsed after them, before the closing brace")


    # ---------------- R3.3 / R3.7 ---------------------------------------------------------
    push = model.fi(PARSER, "Parser.push_stack")
    pop = model.fi(PARSER, "Parser.pop_stack")
    ptxt, qtxt = norm(push.node), norm(pop.node)
    lifo = ("self._stack.insert(0, item)" in ptxt and "self._stack.pop(0)" in qtxt) or \
           ("self._stack.append(item)" in ptxt and ("self._stack.pop()" in qtxt or "self._stack.pop(-1)" in qtxt))
    fifo = ("self._stack.append(item)" in ptxt and "self._stack.pop(0)" in qtxt) or \
           ("self._stack.insert(0, item)" in ptxt and ("self._stack.pop()" in qtxt or "self._stack.pop(-1)" in qtxt))
    if not (lifo or fifo):
        raise AnalysisError("Parser.push_stack/pop_stack: discipline not recognised")
    ctx.instance("R3.7", f"parser stack discipline: {'LIFO' if lifo else 'FIFO'}")
    ctx.ok()
    n_loops = 0
    for q, fi in sorted(model.funcs.items()):
        if fi.module != PARSER or not fi.qual.startswith("Parser.") or fi.qual.count(".") != 1:
            continue
        if "migrat" in fi.qual:
            continue
        for lp in [n for n in walk_ordered(fi.node) if isinstance(n, ast.While)]:
            pops = [c for c in calls_in(lp) if dotted(c.func) == "self.pop_stack"]
            if not pops:
                continue
            n_loops += 1
            test = norm(lp.test)
            kind = None
            if test in ("not self.is_stack_empty()", "self._stack", "len(self._stack) > 0", "self.get_stack_length() > 0"):
                # marker break?
                brk = [n for n in walk_ordered(lp) if isinstance(n, ast.Break)]
                marker = None
                for b in brk:
                    iff = parent(b)
                    if isinstance(iff, ast.If) and norm(iff.test).startswith("type(") and " is " in norm(iff.test):
                        marker = norm(iff.test).split(" is ")[-1]
                if marker is not None:
                    # the same invocation pushed the opening token, whose type is the parameter `marker`
                    pushed = any(norm(s) == "self.push_stack(self.pop_token())" for s in [norm(x.value) if isinstance(x, ast.Expr) else "" for x in fi.node.body[:2]]) \
                        or any(isinstance(x, ast.Expr) and norm(x.value) == "self.push_stack(self.pop_token())" for x in fi.node.body[:2])
                    is_param = marker in [a.arg for a in fi.node.args.args]
                    kind = "marker" if (pushed and is_param) else "marker-unverified"
                else:
                    kind = "drain"
            else:
                import re
                m = re.fullmatch(r"self\.get_stack_length\(\) > (\w+)", test) or re.fullmatch(r"len\(self\._stack\) > (\w+)", test)
                if m:
                    name = m.group(1)
                    # name assigned from the stack length before any main_loop call
                    assigned = None
                    for n in walk_ordered(fi.node):
                        if isinstance(n, (ast.Assign, ast.AnnAssign)) and norm(n.targets[0] if isinstance(n, ast.Assign) else n.target) == name \
                                and n.value is not None and norm(n.value) in ("self.get_stack_length()", "len(self._stack)"):
                            assigned = n
                    first_push = min([c.lineno for c in calls_in(fi.node) if dotted(c.func) in ("self.main_loop", "self.push_stack", "self.connection", "self.element")] or [10 ** 9])
                    kind = "depth" if assigned is not None and assigned.lineno < first_push else "depth-unverified"
            ctx.instance("R3.3", f"{fi.qual}: popping loop `while {test}` → {kind}")
            if kind is None or kind.endswith("unverified"):
                raise AnalysisError(f"{fi.qual}: popping loop `while {test}` has an unrecognised termination ({kind})")
            if kind == "drain" and fi.qual != "Parser.process":
                ctx.violation("R3.3", f"{fi.qual}:drain", PARSER, lp,
                              f"{fi.qual} pops until the parser stack is empty: items pushed by enclosing frames (elements before a container, an opening bracket) are taken too")
            else:
                ctx.ok()
            # R3.7 orientation of the list built in this loop
            _orientation(ctx, fi, lp, lifo)
    if n_loops < 3:
        raise AnalysisError(f"R3.3: only {n_loops} popping loops found in the parser (floor 3)")

    # ---------------- R3.4 ------------------------------------------------------------------
    setters = compile_setters(model)
    init_semantics(model)
    el = model.fi(PARSER, "Parser.element")
    seq = sequence_of(el.node, "Parser.element", receivers=("element",))
    if not seq or seq[0].method != "init" or seq[0].arg != "v":
        raise AnalysisError(f"Parser.element: construction Class(**parameters, …) not recognised: {[(s.method, s.arg) for s in seq]}")
    nums = [s for s in seq if s.method in NUMERIC_SETTERS]
    if len(nums) < 2:
        raise AnalysisError("Parser.element: limit setter calls not recognised")
    variants = [
        ("both limits given", [("l", "<", "u"), ("l", "<=", "v"), ("v", "<=", "u")] + DEF_OK, ()),
        ("only lower given", [("l", "<", "u0"), ("l", "<=", "v"), ("v", "<=", "u0")] + DEF_OK, ("u",)),
        ("only upper given", [("l0", "<", "u"), ("l0", "<=", "v"), ("v", "<=", "u")] + DEF_OK, ("l",)),
    ]
    for name, cons, skip in variants:
        syms = ["v", "l", "u", "v0", "l0", "u0"]
        ws = worlds(syms, cons, with_inf=True)
        expect = ("v", "l0" if "l" in skip else "l", "u0" if "u" in skip else "u")
        ctx.instance("R3.4", f"Parser.element [{name}]: " + " ; ".join(f"{s.method}({s.arg})" for s in seq if s.method in NUMERIC_SETTERS + ("init",)) + f" × {len(ws)} worlds")
        # when a limit is omitted, a widening step for it must be skipped too: the parser builds
        # the widening dictionary from the given limits only (checked below)
        sk = tuple(skip)
        steps = [s for s in seq if not (s.method in NUMERIC_SETTERS and s.arg in sk)]
        if "l" in sk:
            steps = [s for s in steps if not (s.method == "set_lower_limits" and s.arg == "-inf")]
        check_transfer(ctx, "R3.4", f"Parser.element[{name}]" if name != "both limits given" else "Parser.element", PARSER, el.node,
                       steps, setters, ws, expect, f"applying parsed value/limits ({name})")
    # widening (if any) ranges over the given lower limits only
    for s in nums:
        if s.arg == "-inf":
            ctx.instance("R3.4", "widening dictionary ranges over the given lower limits")
            from ..prov import dict_arg
            das = [dict_arg(k.value, el.node) for k in s.node.keywords if k.arg is None] if isinstance(s.node, ast.Call) else []
            if any(d is not None and d[0] == "lower_limits" and d[1] == "-inf" and d[2] == ["not isnan(v)"] for d in das):
                ctx.ok()
            else:
                ctx.violation("R3.4", "Parser.element:widening-range", PARSER, s.node,
                              "the widening step must range over exactly the lower limits that are given (not NaN)")

    # ---------------- tokenizer semantics (interpreted) ------------------------------------------------
    try:
        from ._tok_interp import run as _tok_run
        tprobs, tn = _tok_run(ctx, model)
        ctx.instance("R3.5", f"Tokenizer interpreted on {tn} targeted strings: labels keep every interior character, white space between tokens is insignificant, %E numbers and the F marker are read back")
        if not tprobs:
            ctx.ok()
        else:
            ctx.violation("R3.5", "Tokenizer:semantics", TOK, model.fi(TOK, "Tokenizer.process").node, "the tokenizer does not read the emitter's text back — " + tprobs[0])
    except AnalysisError as e:
        ctx.note(f"tokenizer not interpretable ({e})")

    # ---------------- R3.8 state carried ------------------------------------------------------------
    _state_carried(ctx, model)

    # ---------------- R3.5 ------------------------------------------------------------------------
    _labels(ctx, model)
    ctx.sample({"special_characters": sorted(special), "parser_keywords": sorted(parser_words)})


def _orientation(ctx: Ctx, fi, lp: ast.While, lifo: bool) -> None:
    """Typestate on the list built while popping the stack."""
    built: Dict[str, str] = {}
    for n in walk_ordered(lp):
        if isinstance(n, ast.Call) and isinstance(n.func, ast.Attribute) and isinstance(n.func.value, ast.Name):
            L = n.func.value.id
            if n.func.attr == "append":
                built[L] = "rev" if lifo else "fwd"
            elif n.func.attr == "insert" and n.args and norm(n.args[0]) == "0":
                built[L] = "fwd" if lifo else "rev"
    if not built:
        raise AnalysisError(f"{fi.qual}: popping loop builds no list (append/insert(0, …) not found)")
    for L, mode in built.items():
        # nested extends inside the loop must match the building orientation
        for n in walk_ordered(lp):
            if isinstance(n, ast.Call) and isinstance(n.func, ast.Attribute) and n.func.attr == "extend" \
                    and isinstance(n.func.value, ast.Name) and n.func.value.id == L and n.args:
                a = n.args[0]
                is_rev = isinstance(a, ast.Call) and dotted(a.func) == "reversed" or (isinstance(a, ast.Subscript) and norm(a.slice) == "::-1")
                ctx.instance("R3.7", f"{fi.qual}: {L}.extend({'reversed' if is_rev else 'forward'}) while building {mode}")
                if (mode == "rev") == bool(is_rev):
                    ctx.ok()
                else:
                    ctx.violation("R3.7", f"{fi.qual}:{L}:extend-orientation", fi.module, n,
                                  f"{fi.qual} extends the {mode}-ordered list {L} with a {'reversed' if is_rev else 'forward'} sequence: flattened children change order")
        # flips after the loop up to the constructor use
        state = mode
        use = None
        body = _following_statements(lp)
        for s in body:
            for n in walk_ordered(s):
                if isinstance(n, ast.Call) and isinstance(n.func, ast.Attribute) and n.func.attr == "reverse" \
                        and isinstance(n.func.value, ast.Name) and n.func.value.id == L:
                    state = "fwd" if state == "rev" else "rev"
                if isinstance(n, ast.Assign) and norm(n.targets[0]) == L and norm(n.value) in (f"list(reversed({L}))", f"{L}[::-1]"):
                    state = "fwd" if state == "rev" else "rev"
                if isinstance(n, ast.Call) and isinstance(n.func, ast.Name) and n.func.id in ("Series", "Parallel", "Class") \
                        and n.args and norm(n.args[0]) == L and use is None:
                    use = (n, state)
        if use is None:
            raise AnalysisError(f"{fi.qual}: list {L} built from the stack is not handed to a connection constructor")
        n, st = use
        ctx.instance("R3.7", f"{fi.qual}: {L} reaches {norm(n.func)}(…) as {st}")
        if st == "fwd":
            ctx.ok()
        else:
            ctx.violation("R3.7", f"{fi.qual}:reversed", fi.module, n,
                          f"{fi.qual} hands the list {L} to {norm(n.func)}(…) in reversed order (elements of the sub-circuit/connection come out backwards)")


def _following_statements(stmt: ast.stmt) -> List[ast.stmt]:
    from ..cfg import block_of
    out: List[ast.stmt] = []
    cur = stmt
    while True:
        p, fld, blk = block_of(cur)
        if p is None or not blk:
            break
        idx = [i for i, s in enumerate(blk) if s is cur][0]
        out += blk[idx + 1:]
        if isinstance(p, (ast.FunctionDef, ast.AsyncFunctionDef)):
            break
        cur = p
    return out


def _labels(ctx: Ctx, model) -> None:
    sl = model.fi(BASE, "Element.set_label")
    src = norm(sl.node)
    # constraints recognised in set_label
    cons = {
        "strip": "label.strip()" in src,
        "ascii": "isascii" in src,
        "not_all_digits": "isdigit" in src,
    }
    if not all(cons.values()):
        raise AnalysisError(f"Element.set_label: validation shape changed ({cons})")
    extra = [n for n in walk_ordered(sl.node) if isinstance(n, ast.Raise)]
    accept_first = set(chr(c) for c in range(33, 127))  # ASCII, stripped ⇒ first char is not whitespace
    restricted = len(extra) > 3  # an additional refusal narrows the alphabet: re-derive by hand
    tm = model.fi(TOK, "Tokenizer.main_loop")
    # which first characters reach identifier_or_label (where Labels are produced)?
    lex_first: Set[str] = set()
    from ..elements import module_consts
    names = {**module_consts(ctx.repo, TOK), "ascii_letters": string.ascii_letters, "digits": string.digits, "ascii_lowercase": string.ascii_lowercase,
             "ascii_uppercase": string.ascii_uppercase, "whitespace": string.whitespace}
    label_anywhere = False
    for n in walk_ordered(tm.node):
        if isinstance(n, ast.If):
            calls = [c for s in n.body for c in calls_in(s) if dotted(c.func) in ("self.identifier_or_label", "self.label")]
            if calls:
                t = n.test
                if isinstance(t, ast.Compare) and isinstance(t.ops[0], ast.In) and isinstance(t.comparators[0], ast.Name) \
                        and t.comparators[0].id in names and norm(t.left) == "char":
                    lex_first |= set(names[t.comparators[0].id])
                elif "Colon" in norm(t):
                    label_anywhere = True
                else:
                    raise AnalysisError(f"Tokenizer.main_loop: dispatch to the label scanner under an unrecognised test {norm(t)}")
    if not lex_first and not label_anywhere:
        raise AnalysisError("Tokenizer.main_loop: no dispatch to identifier_or_label found")
    ctx.instance("R3.5", f"set_label first characters ({len(accept_first)}) vs tokenizer label dispatch ({'any after colon' if label_anywhere else len(lex_first)})")
    if restricted:
        raise AnalysisError("Element.set_label has additional refusals: the accepted alphabet must be re-derived")
    missing = sorted(accept_first - lex_first) if not label_anywhere else ["}"] if False else []
    if missing:
        ctx.violation("R3.5", "label:first-character", TOK, tm.node,
                      f"set_label accepts labels starting with any of {len(missing)} characters (e.g. {missing[:12]}) for which the "
                      f"tokenizer does not start a Label after ':' — e.g. label '1abc' is emitted as ':1abc}}' and rejected on parsing")
    else:
        ctx.ok()
    # brace balance: the label scanner stops at the first unbalanced '}' and counts '{'
    ctx.instance("R3.5", "labels with unbalanced braces")
    il = model.fi(TOK, "Tokenizer.identifier_or_label")
    counts_braces = "num_curly_scopes" in norm(il.node) or "'{'" in norm(il.node)
    refuses_braces = "'{'" in src or "'}'" in src or "balanced" in src
    if counts_braces and not refuses_braces:
        ctx.violation("R3.5", "label:unbalanced-brace", BASE, sl.node,
                      "set_label accepts labels with unbalanced '{' or '}' while the emitter does not escape them and the label scanner "
                      "ends a label at the first unbalanced '}' — e.g. label 'a}b' cannot be parsed back")
    else:
        ctx.ok()


def _state_carried(ctx: Ctx, model) -> None:
    el = model.fi(PARSER, "Parser.element")
    unp = [n for n in walk_ordered(el.node) if isinstance(n, ast.Assign) and isinstance(n.targets[0], ast.Tuple)
           and isinstance(n.value, ast.Call) and dotted(n.value.func) == "self.parameters"]
    if len(unp) != 1:
        raise AnalysisError("Parser.element: unpacking of self.parameters(Class) not found")
    names = [norm(e) for e in unp[0].targets[0].elts]
    pf = model.fi(PARSER, "Parser.parameters")
    from ..prov import return_tuples
    rts = return_tuples(pf.node)
    if not rts or any([norm(x) for x in rt] != [norm(x) for x in rts[0]] for rt in rts):
        raise AnalysisError("Parser.parameters: return tuples differ between paths")
    rnames = [norm(x) for x in rts[0]]
    ctx.instance("R3.8", f"Parser.parameters returns {rnames}; Parser.element unpacks {names}")
    if rnames == names:
        ctx.ok()
    else:
        ctx.violation("R3.8", "Parser.element:unpack-order", PARSER, unp[0], f"Parser.element unpacks {names} but Parser.parameters returns {rnames}: parts of the element state are swapped")
    uses = {
        "label": ("set_label", "plain"), "fixed_parameters": ("set_fixed", "star"), "lower_limits": ("set_lower_limits", "nan-filter"),
        "upper_limits": ("set_upper_limits", "nan-filter"), "parameters": ("<ctor>", "star"), "subcircuits": ("<ctor>", "star"),
    }
    for nm, (meth, form) in uses.items():
        if nm not in names:
            raise AnalysisError(f"Parser.element: {nm} is not unpacked from Parser.parameters")
        ctx.instance("R3.8", f"Parser.element: {nm} → {meth}")
        calls = []
        for c in calls_in(el.node):
            if meth == "<ctor>" and isinstance(c.func, ast.Name) and c.func.id == "Class":
                calls.append(c)
            elif isinstance(c.func, ast.Attribute) and c.func.attr == meth:
                calls.append(c)
        ok = False
        why = "not passed on"
        from ..prov import dict_arg
        for c in calls:
            for k in c.keywords:
                if k.arg is not None:
                    continue
                da = dict_arg(k.value, el.node)
                if da is None:
                    if nm in norm(k.value):
                        why = f"passed as {norm(k.value)[:60]}, which is not understood"
                    continue
                src, val, filt = da
                if src != nm:
                    continue
                if val != "same":
                    continue  # e.g. the widening call with -inf: not the hand-over
                if not filt or (form == "nan-filter" and filt == ["not isnan(v)"]):
                    ok = True
                else:
                    why = f"filtered by {filt}"
            for a in c.args:
                if form == "plain" and isinstance(a, ast.Name) and a.id == nm:
                    ok = True
        if ok:
            ctx.ok()
        else:
            ctx.violation("R3.8", f"Parser.element:{nm}", PARSER, el.node,
                          f"Parser.element does not hand the parsed `{nm}` to {meth} completely ({why}): that part of the state is lost or altered when a code is parsed back")
    # parameters(): the four per-parameter stores are unconditional in the numeric branch
    for d, v in (() if PARSER_INTERPRETED else (("parameters", "value"), ("lower_limits", "lower"), ("upper_limits", "upper"), ("fixed_parameters", "fixed"))):
        st = [n for n in walk_ordered(pf.node) if isinstance(n, ast.Assign) and norm(n.targets[0]) == f"{d}[key]"]
        ctx.instance("R3.8", f"Parser.parameters: {d}[key] = {v}")
        good = len(st) == 1 and norm(st[0].value) == v
        if good:
            p_ = parent(st[0])
            # directly in the else-arm that handles numeric parameters (no extra condition)
            good = isinstance(p_, ast.If) and st[0] in p_.orelse
        if good:
            ctx.ok()
        else:
            ctx.violation("R3.8", f"Parser.parameters:{d}", PARSER, pf.node, f"Parser.parameters must record {d}[key] = {v} for every parsed numeric parameter")
    pp = model.fi(PARSER, "Parser.param")
    if not PARSER_INTERPRETED:
        ctx.instance("R3.8", "Parser.param: fixed flag = token is a FixedNumber")
        fx = [n for n in walk_ordered(pp.node) if isinstance(n, (ast.Assign, ast.AnnAssign)) and norm(n.targets[0] if isinstance(n, ast.Assign) else n.target) == "fixed"]
        if len(fx) == 1 and norm(fx[0].value) in ("isinstance(value, FixedNumber)", "type(value) is FixedNumber"):
            ctx.ok()
        else:
            ctx.violation("R3.8", "Parser.param:fixed", PARSER, pp.node, "the fixed flag must be exactly 'the number token carries the F marker'")
    # emitter side: 'open' for None, 'short' for an empty connection, text otherwise
    ct = model.fi(BASE, "Container.to_string")
    ctx.instance("R3.8", "Container.to_string: open/short conditions")
    chain = [n for n in walk_ordered(ct.node) if isinstance(n, ast.If) and norm(n.test) == "con is None"]
    if len(chain) != 1 or len(chain[0].orelse) != 1 or not isinstance(chain[0].orelse[0], ast.If):
        raise AnalysisError("Container.to_string: open/short/else chain not found")
    first, second = chain[0], chain[0].orelse[0]
    t2 = norm(second.test).replace(" ", "")
    empty_ok = t2 in ("len(con.get_elements())==0", "len(con.get_elements(recursive=True))==0", "len(con)==0", "con.count()==0",
                      "notcon.get_elements()", "len(con._elements)==0")
    shapes_ok = "open" in norm(first.body[0]) and "short" in norm(second.body[0]) and "con.to_string(decimals=decimals)" in norm(second.orelse[0])
    if t2 in ("len(con.get_elements(recursive=False))==0", "notcon.get_elements(recursive=False)"):
        ctx.violation("R3.8", "Container.to_string:short-condition", BASE, second,
                      "a sub-circuit is written as 'short' when it has no DIRECT element children: a sub-circuit consisting only of nested connections loses all its elements on round trip")
    elif not empty_ok:
        raise AnalysisError(f"Container.to_string: the condition for writing 'short' ({norm(second.test)}) is not a recognised emptiness test")
    elif not shapes_ok:
        ctx.violation("R3.8", "Container.to_string:keywords", BASE, first, "None must be written as 'open', an empty connection as 'short', anything else as its own code")
    else:
        ctx.ok()
    ps = model.fi(PARSER, "Parser.subcircuit")
    ctx.instance("R3.8", "Parser.subcircuit: short → Series([]), open → None")
    t = norm(ps.node)
    kw_ok = False
    for n in walk_ordered(ps.node):
        if isinstance(n, ast.If) and "'short'" in norm(n.test):
            r1 = [x for x in n.body if isinstance(x, ast.Return)]
            nxt = n.orelse[0] if n.orelse and isinstance(n.orelse[0], ast.If) else None
            r2 = [x for x in nxt.body if isinstance(x, ast.Return)] if nxt is not None and "'open'" in norm(nxt.test) else []
            if r1 and norm(r1[0].value) == "Series([])" and r2 and norm(r2[0].value) == "None":
                kw_ok = True
    if kw_ok:
        ctx.ok()
    else:
        ctx.violation("R3.8", "Parser.subcircuit:keywords", PARSER, ps.node, "'short'/'zero' must parse to an empty Series and 'open'/'inf' to None")
