"""C11 — Z-HIT reconstructs the modulus from the phase (partial: the
repository's own part of the mechanism — formula, weights, key agreement,
window; the numerics of SciPy/statsmodels smoothers and interpolators are not
decided)."""
from __future__ import annotations

import ast
from typing import Any, Dict, List

import sympy as sp

from ..core import enclosing, AnalysisError, Ctx, calls_in, dotted, norm, parent, walk_ordered
from ..model import get_model
from ..numeric import RepoInterp
from ..prov import unpack_of_param
from ..terms import Unsupported

LEVEL = "other"
Z = "pyimpspec.analysis.zhit"
REC = f"{Z}.reconstruction"
OFF = f"{Z}.offset"
WGT = f"{Z}.weights"


def _interp_reconstruct(ctx: Ctx, model) -> List[str]:
    """The worker interpreted on a symbolic grid (sa.miniinterp + sa.nplite): scipy's quad is an uninterpreted function
    Int(f, a, b) and the derivator an uninterpreted function D(x); the result must be 2/π·Int(φ, w0, wi) − π/6·D(wi) entry by
    entry, for both representations, with a NaN derivative counted as zero.  Decides loop and vectorised forms alike."""
    import math
    from ..miniinterp import InterpRaise, Mini, module_globals
    from ..nplite import NP_STUBS, NArr
    rc = model.fi(REC, "_reconstruct")
    Int, D = sp.Function("Int"), sp.Function("D")
    phi = sp.Symbol("phi")

    class _Phi:
        def __call__(self, x, *a, **k):
            return NArr(sp.Function("phi")(v) for v in x) if isinstance(x, (NArr, list, tuple)) else sp.Function("phi")(x)
    the_phi = _Phi()

    def quad(f, a=None, b=None, *rest, **kw):
        return (Int(phi if f is the_phi else sp.Symbol("other_integrand"), a, b), 0.0)

    class _CM:
        def __enter__(self): return self
        def __exit__(self, *a): return False
    problems: List[str] = []
    n_runs = 0
    for nan_at in (None, 1):
        def derivator(x, *a, **k):
            one = lambda v: math.nan if (nan_at is not None and v == ws[nan_at]) else D(v)
            return NArr(one(v) for v in x) if isinstance(x, (NArr, list, tuple)) else one(x)
        for adm in (False, True):
            ws = [sp.Symbol(f"w{i}", real=True) for i in range(3)]
            st = dict(NP_STUBS)
            st.update({"quad": quad, "pi": sp.pi, "catch_warnings": _CM, "filterwarnings": lambda *a, **k: None, "IntegrationWarning": "IntegrationWarning",
                       "print": lambda *a, **k: None, "NDArray": None, "Phases": None})
            g = module_globals(ctx.repo.modules[REC].tree, st)
            g.update(st)
            mi = Mini(g, max_steps=200000)
            try:
                res = mi.call_function(rc.node, {rc.node.args.args[0].arg: (NArr(ws), the_phi, derivator, "sm", "ip", adm)})
            except InterpRaise as e:
                problems.append(f"admittance={adm}: _reconstruct raises {e.kind} ({e.message[:80]})")
                continue
            n_runs += 1
            if not (isinstance(res, tuple) and len(res) == 3 and res[1:] == ("sm", "ip")):
                problems.append(f"admittance={adm}: the worker returns {str(res)[:80]} instead of (ln_modulus, smoothing, interpolation)")
                continue
            got = list(res[0])
            want = [2 / sp.pi * Int(phi, ws[0], w) - sp.pi / 6 * (0 if nan_at == i else D(w)) for i, w in enumerate(ws)]
            if len(got) != len(want):
                problems.append(f"admittance={adm}: {len(got)} reconstructed values for {len(want)} frequencies")
                continue
            for i, (a, b) in enumerate(zip(got, want)):
                if sp.simplify(sp.sympify(a) - b) != 0:
                    problems.append(f"in the {'admittance' if adm else 'impedance'} representation{' with a NaN derivative at that point' if nan_at == i else ''} ln|X|(w{i}) = {a} instead of 2/π·∫φ + γ·φ' = {b}")
                    break
    ctx.extra_cov["reconstruct_interpreted_runs"] = n_runs
    return problems


def _interp_pairing(ctx: Ctx, model) -> List[str]:
    """_reconstruct_modulus_data interpreted with the real worker (interpreted too), two interpolations × two smoothings of
    distinguishable stand-in interpolators, serially and through a pool stand-in that hands results back in reverse order:
    every (interpolation, smoothing) pair yields exactly one reconstruction, computed from that pair's interpolator and its
    first derivative, and paired with that pair's simulated phase and keys."""
    from ..miniinterp import InterpRaise, Mini, module_globals
    from ..nplite import NP_STUBS, NArr
    Int = sp.Function("Int")

    class _Interp:
        def __init__(self, tag, order=0):
            self.tag, self.order = tag, order

        def __call__(self, x, *a, **k):
            fn = sp.Function(f"{'d' * self.order}phi_{self.tag}")
            return NArr(fn(v) for v in x) if isinstance(x, (NArr, list, tuple)) else fn(x)

        def derivative(self, n=1):
            return _Interp(self.tag, self.order + n)

    class _Pool:
        def __init__(self, *a, **k): pass
        def __enter__(self): return self
        def __exit__(self, *a): return False
        def imap_unordered(self, f, it, *a, **k): return list(reversed([f(x) for x in it]))
        def imap(self, f, it, *a, **k): return [f(x) for x in it]
        def map(self, f, it, *a, **k): return [f(x) for x in it]

    class _Prog:
        def set_message(self, *a, **k): pass
        def increment(self, *a, **k): pass

    class _CM:
        def __enter__(self): return self
        def __exit__(self, *a): return False
    rm = model.fi(REC, "_reconstruct_modulus_data")
    problems: List[str] = []
    for num_procs in (1, 2):
        opts = {i: {s_: _Interp(f"{i}_{s_}") for s_ in ("s1", "s2")} for i in ("i1", "i2")}
        phases = {i: {s_: f"phase[{i}][{s_}]" for s_ in ("s1", "s2")} for i in ("i1", "i2")}
        ws = [sp.Symbol(f"w{k}", real=True) for k in range(2)]
        st = dict(NP_STUBS)
        st.update({"quad": lambda f, a=None, b=None, *r, **k: (Int(sp.Symbol(f"{'d' * f.order}phi_{f.tag}") if isinstance(f, _Interp) else sp.Symbol("other"), a, b), 0.0),
                   "pi": sp.pi, "catch_warnings": _CM, "filterwarnings": lambda *a, **k: None, "IntegrationWarning": "IntegrationWarning", "print": lambda *a, **k: None,
                   "Pool": _Pool, "NDArray": None, "Phases": None, "Progress": None})
        g = module_globals(ctx.repo.modules[REC].tree, st)
        g.update(st)
        params = [a.arg for a in rm.node.args.args]
        vals = {"interpolation_options": opts, "simulated_phase": phases, "ln_omega": NArr(ws), "admittance": False, "num_procs": num_procs, "prog": _Prog()}
        if set(params) != set(vals):
            raise AnalysisError(f"_reconstruct_modulus_data: parameters {params} not understood")
        try:
            out = Mini(g, max_steps=400000).call_function(rm.node, vals)
        except InterpRaise as e:
            problems.append(f"num_procs={num_procs}: _reconstruct_modulus_data raises {e.kind} ({e.message[:60]})")
            continue
        seen = []
        for item in list(out):
            if not (isinstance(item, tuple) and len(item) == 4):
                problems.append(f"num_procs={num_procs}: a reconstruction is {str(item)[:60]} instead of (ln_modulus, phase, smoothing, interpolation)")
                break
            ln, ph, s_, i = item
            seen.append((i, s_))
            tag = f"{i}_{s_}"
            names = {str(f_.func) for v in ln for f_ in sp.sympify(v).atoms(sp.Function) if not isinstance(f_, Int)} | {str(x) for v in ln for a_ in sp.sympify(v).atoms(Int) for x in a_.args[:1]}
            if ph != phases.get(i, {}).get(s_):
                problems.append(f"num_procs={num_procs}: the reconstruction reported under ({i}, {s_}) is paired with {ph}")
            elif names != {f"phi_{tag}", f"dphi_{tag}"}:
                problems.append(f"num_procs={num_procs}: the reconstruction reported under ({i}, {s_}) was computed from {sorted(names)} instead of that entry's interpolator and its first derivative")
        if not problems and sorted(seen) != sorted((i, s_) for i in opts for s_ in opts[i]):
            problems.append(f"num_procs={num_procs}: reconstructions for {sorted(seen)} instead of one per (interpolation, smoothing) pair")
    return problems


def _interp_weights(ctx: Ctx, model) -> List[str]:
    """_generate_weights interpreted (sa.miniinterp + sa.nplite) with a stand-in interpolator whose raw values fall below 0,
    inside (0, 1) and above 1: the result is 0 outside [center − width/2, center + width/2] (bounds included in the support)
    and the raw value clipped to [0, 1] inside, one weight per frequency."""
    import math
    from ..miniinterp import ExcValue, InterpRaise, Mini, module_globals
    from ..nplite import NP_STUBS, NArr
    gw = model.fi(WGT, "_generate_weights")
    raw = lambda lf: 1.9 * lf - 0.2

    class _Ak:
        def __init__(self, x, y, *a, **k):
            self.x, self.y = list(x), list(y)
            if len(self.x) != len(self.y):
                raise ValueError("x and y arrays must be equal in length")

        def __call__(self, v, *a, **k):
            return NArr(raw(t) for t in v) if isinstance(v, (NArr, list, tuple)) else raw(v)
    st = dict(NP_STUBS)
    st.update({"Akima1DInterpolator": _Ak, "_WINDOW_FUNCTIONS": {"boxcar": (lambda M, sym=True: [1.0] * M)}, "ZHITError": lambda *a: ExcValue("ZHITError", a),
               "ceil": math.ceil, "floor": math.floor, "log": (lambda v: NArr(math.log(t) for t in v) if isinstance(v, (NArr, list, tuple)) else math.log(v)),
               "log10": (lambda v: NArr(math.log10(t) for t in v) if isinstance(v, (NArr, list, tuple)) else math.log10(v)),
               "logspace": lambda a, b, num=50, **k: NArr(10 ** (a + (b - a) * i / (num - 1)) for i in range(num)),
               "linspace": lambda a, b, num=50, **k: NArr(a + (b - a) * i / (num - 1) for i in range(num)),
               "clip": lambda a, lo, hi, **k: NArr(min(max(v, lo), hi) for v in a), "minimum": lambda a, b: NArr(min(v, b) for v in a), "maximum": lambda a, b: NArr(max(v, b) for v in a),
               "NDArray": None})
    g = module_globals(ctx.repo.modules[WGT].tree, st)
    g.update(st)
    problems: List[str] = []
    for log_f, center, width in (([-1.0, 0.0, 0.25, 0.5, 1.0, 2.0, 2.5, 3.5], 1.0, 2.0), ([3.0, 1.5, 0.4], 1.5, 1.0), ([0.7], 5.0, 1.0)):
        try:
            out = Mini(g, max_steps=400000).call_function(gw.node, {"log_f": NArr(log_f), "window": "boxcar", "center": center, "width": width})
            got: Any = [float(v) for v in out]
        except InterpRaise as e:
            got = f"raises {e.kind}"
        lo, hi = center - width / 2, center + width / 2
        want = [min(max(raw(v), 0.0), 1.0) if lo <= v <= hi else 0.0 for v in log_f]
        if got != want and (isinstance(got, str) or len(got) != len(want) or any(abs(a - b) > 1e-12 for a, b in zip(got, want))):
            problems.append(f"for log f = {log_f}, centre {center}, width {width} (interpolated window values {[round(raw(v), 2) for v in log_f]}) the weights are {got} instead of {want}")
    try:
        Mini(g).call_function(gw.node, {"log_f": NArr([1.0]), "window": "no such window", "center": 1.0, "width": 1.0})
        problems.append("an unknown window name is not refused")
    except InterpRaise:
        pass
    return problems


def check(ctx: Ctx) -> None:
    model = get_model(ctx.repo)
    ctx.modules_consulted.update({REC, OFF, WGT, Z})
    ctx.rule("R11.1", "_reconstruct computes 2/π·∫_{ln ω_s}^{ln ω_0} φ d ln ω + γ·dφ/d ln ω(ln ω_0) with γ = −π/6, integrating from the first frequency, identically in both representations")
    ctx.rule("R11.2", "the offset residual is weights × a function of (reconstruction + offset − ln|X|): zero-weight points cannot influence the offset, a common shift of ln|X| shifts the offset by the same amount; all-zero and negative weights are refused")
    ctx.rule("R11.3", "X_fit = rect(exp(ln_modulus + offset), phase) with the phase of the same (interpolation, smoothing) entry the reconstruction was computed from")
    ctx.rule("R11.4", "window weights: support [center − width/2, center + width/2] on log f, clipped to [0, 1]")
    ctx.rule("R11.5", "the Z-HIT pipeline (smoothing, interpolation, reconstruction, offset, weights) keeps no state between calls: no memoising decorator, no module-level container read or written (except the registry of window callables)")
    from ..effects import stateless_rule
    zmods = tuple(sorted(m for m in ctx.repo.modules if m == Z or m.startswith(Z + ".")))
    ctx.modules_consulted.update(zmods)
    stateless_rule(ctx, model, "R11.5", zmods, 15, "a second call in the same process no longer smooths/reconstructs from its own input alone (constant and linear phase data are not left unchanged)",
                   allowed={(WGT, "_WINDOW_FUNCTIONS"): "registry of SciPy window callables filled once at first use; holds functions, not data"})
    ctx.assumptions += ["scipy.integrate.quad integrates the interpolator it is given; lmfit.minimize finds the minimiser of the weighted residual"]

    # ---------------- R11.1 ---------------------------------------------------------
    rc = model.fi(REC, "_reconstruct")
    interpreted = True
    try:
        probs = _interp_reconstruct(ctx, model)
    except AnalysisError as e:
        interpreted = False
        ctx.note(f"_reconstruct not interpretable ({e}); formula decided from the shape of the loop instead")
    if interpreted:
        ctx.instance("R11.1", "_reconstruct interpreted on a 3-point symbolic grid with quad ↦ Int(f, a, b) and derivator ↦ D(x): both representations, with and without a NaN derivative")
        if probs:
            ctx.violation("R11.1", "_reconstruct:formula", REC, rc.node, "; ".join(probs[:2]))
        else:
            ctx.ok()
    _shape_r11_1(ctx, model, rc, interpreted)
    _rest(ctx, model, rc)


def _shape_r11_1(ctx: Ctx, model, rc, interpreted: bool) -> None:
    if interpreted:
        return
    I_, D_ = sp.symbols("integral derivative", real=True)
    ti = RepoInterp(model)._interp(rc, 0)
    gdef = [n for n in walk_ordered(rc.node) if isinstance(n, (ast.Assign, ast.AnnAssign)) and norm(n.targets[0] if isinstance(n, ast.Assign) else n.target) == "gamma"]
    if len(gdef) != 1:
        raise AnalysisError("_reconstruct: definition of gamma not found")
    gamma = sp.sympify(ti.ev(gdef[0].value, {}))
    ctx.instance("R11.1", f"γ = {gamma}")
    if sp.simplify(gamma + sp.pi / 6) == 0:
        ctx.ok()
    else:
        ctx.violation("R11.1", "_reconstruct:gamma", REC, gdef[0], f"γ is {gamma}; the Z-HIT approximation uses −π/6")
    apps = [c for c in calls_in(rc.node) if norm(c.func) == "ln_modulus.append"]
    if not apps:
        raise AnalysisError("_reconstruct: no ln_modulus.append site found")
    want = 2 / sp.pi * I_ + gamma * D_
    from ..cfg import dominating_conditions
    covered = set()
    for c in apps:
        conds = [(norm(e), pol) for e, pol in dominating_conditions(c, stop=rc.node)]
        for adm in (False, True):
            if any((e == "admittance" and pol != adm) or (e == "not admittance" and pol == adm) for e, pol in conds):
                continue
            branch = "admittance" if adm else "impedance"
            env = {"integral": I_, "derivative": D_, "gamma": gamma, "admittance": adm}
            # auxiliary locals used by the expression (a sign chosen from the representation, hoisted factors and terms),
            # resolved recursively through their single bindings
            def bind(nm: str, depth: int = 0) -> None:
                if nm in env or nm == "pi" or depth > 6:
                    return
                b_ = [n for n in walk_ordered(rc.node) if isinstance(n, (ast.Assign, ast.AnnAssign)) and n.value is not None and norm(n.targets[0] if isinstance(n, ast.Assign) else n.target) == nm]
                if len(b_) != 1:
                    raise AnalysisError(f"_reconstruct: {nm} used in the reconstruction has {len(b_)} bindings")
                v = b_[0].value
                if isinstance(v, ast.IfExp) and norm(v.test) in ("admittance", "not admittance"):
                    take_body = adm if norm(v.test) == "admittance" else not adm
                    v = v.body if take_body else v.orelse
                for x in ast.walk(v):
                    if isinstance(x, ast.Name):
                        bind(x.id, depth + 1)
                try:
                    env[nm] = ti.ev(v, dict(env))
                except Unsupported as e:
                    raise AnalysisError(f"_reconstruct: auxiliary {nm} outside the term fragment: {e}")
            for nm in sorted({x.id for x in ast.walk(c.args[0]) if isinstance(x, ast.Name)}):
                bind(nm)
            try:
                t = sp.sympify(ti.ev(c.args[0], env))
            except Unsupported as e:
                raise AnalysisError(f"_reconstruct: reconstruction expression outside the term fragment: {e}")
            covered.add(adm)
            ctx.instance("R11.1", f"{branch}: ln|X| = {t}")
            if sp.simplify(t - want) == 0:
                ctx.ok()
            else:
                ctx.violation("R11.1", f"_reconstruct:formula:{branch}", REC, c, f"in the {branch} representation the reconstruction is {t} instead of 2/π·∫φ + γ·φ' = {want}")
    if covered != {False, True}:
        raise AnalysisError(f"_reconstruct: append sites cover only admittance ∈ {covered}")
    # the quadrature: in _reconstruct itself or in a helper of the same module it calls; bounds and integrand are mapped
    # back to _reconstruct's names through the call
    from ..prov import call_args
    ctx.instance("R11.1", "integration bounds: from ln ω of the first frequency to ln ω_0 of the current one, integrand = the phase interpolator")
    quads = [(c, None, None) for c in calls_in(rc.node) if dotted(c.func) == "quad"]
    if not quads:
        for hc in calls_in(rc.node):
            hq = model.resolve_call(rc, hc)
            if hq and hq in model.funcs and model.funcs[hq].module == REC and hq != rc.qname:
                for c in calls_in(model.funcs[hq].node):
                    if dotted(c.func) == "quad":
                        quads.append((c, hc, model.funcs[hq]))
    ok = len(quads) == 1
    if ok:
        qc, hcall, hfi = quads[0]
        kw = {k.arg: norm(k.value) for k in qc.keywords}
        integrand, lo, hi = (norm(qc.args[0]) if qc.args else None), kw.get("a") or (norm(qc.args[1]) if len(qc.args) > 1 else None), kw.get("b") or (norm(qc.args[2]) if len(qc.args) > 2 else None)
        if hcall is not None:
            m_ = {k: (norm(v) if v is not None else None) for k, v in call_args(hcall, hfi.node).items()}
            integrand, lo, hi = m_.get(integrand, integrand), m_.get(lo, lo), m_.get(hi, hi)
        ok = integrand == "interpolator" and lo == "ln_w_s" and isinstance(parent(qc), ast.Subscript) and norm(parent(qc).slice) == "0"
        s0 = [n for n in walk_ordered(rc.node) if isinstance(n, (ast.Assign, ast.AnnAssign)) and norm(n.targets[0] if isinstance(n, ast.Assign) else n.target) == "ln_w_s"]
        lp = [n for n in walk_ordered(rc.node) if isinstance(n, ast.For) and norm(n.iter) in ("enumerate(ln_omega)", "ln_omega")]
        ok = ok and len(s0) == 1 and norm(s0[0].value) == "ln_omega[0]" and len(lp) == 1
        if ok:
            lv = norm(lp[0].target.elts[1]) if isinstance(lp[0].target, ast.Tuple) else norm(lp[0].target)
            dv = [n for n in walk_ordered(rc.node) if isinstance(n, (ast.Assign, ast.AnnAssign)) and norm(n.targets[0] if isinstance(n, ast.Assign) else n.target) == "derivative" and n.value is not None]
            ok = hi == lv and any(norm(n.value) == f"derivator({lv})" for n in dv)
            # the integral used in the formula is this call's result (directly, or through the helper's return value)
            site = hcall if hcall is not None else qc
            ok = ok and enclosing(site, (ast.For,)) is lp[0]
    if ok:
        ctx.ok()
    else:
        ctx.violation("R11.1", "_reconstruct:integral", REC, rc.node, "the integral must run over the phase interpolator from ln ω[0] to the current ln ω, and the derivative be taken at the current ln ω")


def _rest(ctx: Ctx, model, rc) -> None:
    rm = model.fi(REC, "_reconstruct_modulus_data")
    unp = unpack_of_param(rc.node, "args")
    from ..prov import worker_tuples
    packs = worker_tuples(rm.node, "args")
    ctx.instance("R11.1", "worker tuple: derivator is the first derivative of the same interpolator")
    if unp and len(packs) == 1 and len(packs[0].elts) == len(unp):
        el = [norm(e) for e in packs[0].elts]
        pos = {n: i for i, n in enumerate(unp)}
        good = el[pos["interpolator"]] == "interpolator" and el[pos["derivator"]] == "interpolator.derivative(1)" and el[pos["ln_omega"]] == "ln_omega" \
            and el[pos["smoothing"]] == "smoothing" and el[pos["interpolation"]] == "interpolation" and el[pos["admittance"]] == "admittance"
        if good:
            ctx.ok()
        else:
            ctx.violation("R11.1", "_reconstruct_modulus_data:tuple", REC, packs[0], f"worker tuple {el} does not match the worker's unpacking {unp}")
    else:
        raise AnalysisError("_reconstruct_modulus_data: worker tuple not found")

    # ---------------- R11.2 ---------------------------------------------------------
    orf = model.fi(OFF, "_offset_residual")
    w, r_, o, m, a = sp.symbols("weights reconstruction offset ln_modulus a", real=True)

    def xc(fi, name, node, args, kwargs, env):
        if name == "valuesdict":
            return {"offset": o}
        return NotImplemented
    it = RepoInterp(model, extra_call=xc)
    try:
        ps = [p for p in it.paths(orf, {"parameters": sp.Symbol("parameters"), "reconstruction": r_, "ln_modulus": m, "weights": w}) if p.kind == "return"]
    except Unsupported as e:
        raise AnalysisError(f"_offset_residual outside the term fragment: {e}")
    if len(ps) != 1:
        raise AnalysisError("_offset_residual: expected one return path")
    res = sp.sympify(ps[0].value)
    ctx.instance("R11.2", f"residual = {res}")
    inner = sp.simplify(res / w)
    if w in inner.free_symbols or res.subs(w, 0) != 0:
        ctx.violation("R11.2", "_offset_residual:weights", OFF, orf.node, f"the residual {res} is not weights × (something independent of the weights): zero-weight points can influence the offset")
    else:
        ctx.ok()
    ctx.instance("R11.2", "residual depends on offset and ln|X| only through (reconstruction + offset − ln|X|)")
    shifted = res.subs({o: o + a, m: m + a}, simultaneous=True)
    if sp.simplify(shifted - res) == 0 and sp.simplify(res.subs({o: m - r_})) == 0:
        ctx.ok()
    else:
        ctx.violation("R11.2", "_offset_residual:translation", OFF, orf.node,
                      "the residual is not a function of (reconstruction + offset − ln|X|): scaling the impedance by a constant would not scale the reconstruction by the same constant")
    cm = model.fi(OFF, "_calculate_modulus_offset")
    ctx.instance("R11.2", "all-zero and negative weights are refused; the fit minimises _offset_residual over (fit, exp, weights)")
    t = norm(cm.node)
    raises = [n for n in walk_ordered(cm.node) if isinstance(n, ast.If) and any(isinstance(s, ast.Raise) for s in n.body)]
    tests = " ".join(norm(n.test) for n in raises)
    mini = [c for c in calls_in(cm.node) if dotted(c.func) == "minimize"]
    good = "weights > 0.0" in tests and ".size == 0" in tests and "weights < 0.0" in tests and len(mini) == 1 and norm(mini[0].args[0]) == "_offset_residual" \
        and any(k.arg == "args" and norm(k.value).replace(" ", "") in ("(ln_modulus_fit,ln_modulus_exp,weights)", "(ln_modulus_fit,ln_modulus_exp,weights,)") for k in mini[0].keywords)
    if good:
        ctx.ok()
    else:
        ctx.violation("R11.2", "_calculate_modulus_offset:refusals", OFF, cm.node, "the offset fit must refuse all-zero and negative weights and minimise _offset_residual(reconstruction, ln|X_exp|, weights)")

    # ---------------- R11.3 ---------------------------------------------------------
    ao = model.fi(OFF, "_adjust_offset")
    ctx.instance("R11.3", "X_fit = rect(exp(ln_modulus + offset), phase)")
    t = norm(ao.node)
    if "offset: float = _calculate_modulus_offset(ln_modulus, ln_modulus_exp, weights)" in t and "X_fit: NDArray[complex128] = rect(exp(ln_modulus + offset), phase)" in t:
        ctx.ok()
    else:
        ctx.violation("R11.3", "_adjust_offset:assembly", OFF, ao.node, "the fitted immittance must be rect(exp(reconstruction + fitted offset), phase)")
    pairing_done = True
    try:
        pprobs = _interp_pairing(ctx, model)
    except AnalysisError as e:
        pairing_done = False
        ctx.note(f"_reconstruct_modulus_data not interpretable ({e}); pairing decided from the shape of the code instead")
    if pairing_done:
        ctx.instance("R11.3", "_reconstruct_modulus_data interpreted with the real worker on 2×2 distinguishable interpolators, serial and pooled (results handed back in reverse order)")
        if pprobs:
            ctx.violation("R11.3", "phase-pairing", REC, rm.node, "a reconstruction must be paired with the phase simulated by the very interpolator (interpolation, smoothing) it was computed from: " + pprobs[0])
        else:
            ctx.ok()
    ctx.instance("R11.3", "the phase paired with a reconstruction is simulated_phase[interpolation][smoothing] of the keys the worker returns")
    apps = [c for c in calls_in(rm.node) if norm(c.func) == "reconstructions.append" and c.args and isinstance(c.args[0], ast.Tuple)]
    rets = [n for n in walk_ordered(rc.node) if isinstance(n, ast.Return)]
    good = bool(apps) and all([norm(e) for e in c.args[0].elts] == ["ln_modulus", "simulated_phase[interpolation][smoothing]", "smoothing", "interpolation"] for c in apps) \
        and len(rets) == 1 and norm(rets[0].value) == "(array(ln_modulus), smoothing, interpolation)"
    loops = [n for n in walk_ordered(rm.node) if isinstance(n, ast.For) and norm(n.target) == "(ln_modulus, smoothing, interpolation)"]
    good = good and len(loops) == len(apps)
    if pairing_done:
        good = True  # decided above by interpretation; what remains is where the simulated phase comes from
    gi = model.fi(f"{Z}.interpolation", "_generate_interpolation_options")
    ti_ = norm(gi.node)
    good = good and "simulated_phase[interpolation][smoothing] = array(list(map(interpolator, ln_omega)))" in ti_ and "interpolation_options[interpolation][smoothing] = interpolator" in ti_
    if good:
        ctx.ok()
    else:
        ctx.violation("R11.3", "phase-pairing", REC, rm.node, "a reconstruction must be paired with the phase simulated by the very interpolator (interpolation, smoothing) it was computed from")
    unp2 = unpack_of_param(ao.node, "args")
    am = model.fi(OFF, "_adjust_modulus_offset")
    packs2 = worker_tuples(am.node, "args")
    ctx.instance("R11.3", "offset worker tuple: (ln_modulus, phase, ln_modulus_exp, weights, X_exp, …) positions agree")
    if unp2 and len(packs2) == 1 and [norm(e) for e in packs2[0].elts] == unp2:
        ctx.ok()
    else:
        ctx.violation("R11.3", "_adjust_modulus_offset:tuple", OFF, am.node, f"worker tuple does not match the worker's unpacking {unp2}")

    # ---------------- R11.4 ---------------------------------------------------------
    gw = model.fi(WGT, "_generate_weights")
    t = norm(gw.node)
    try:
        wprobs = _interp_weights(ctx, model)
        ctx.instance("R11.4", "_generate_weights interpreted on three grids with a stand-in interpolator (raw values below 0, inside and above 1; points on and outside the bounds)")
        if wprobs:
            ctx.violation("R11.4", "_generate_weights:support", WGT, gw.node, "weights must vanish outside [center − width/2, center + width/2] and be clipped to [0, 1]: " + wprobs[0])
        else:
            ctx.ok()
        t = ""
    except AnalysisError as e:
        ctx.note(f"_generate_weights not interpretable ({e}); decided from its shape instead")
    ctx.instance("R11.4", "window support and clipping")
    good = t == "" or "min_log_f: float = center - width / 2" in t and "max_log_f: float = center + width / 2" in t \
        and "if not min_log_f <= lf <= max_log_f:\n            continue" in t.replace("        if not min_log_f", "if not min_log_f") \
        and "indices = where(weights < 0.0)[0]" in t and "weights[indices] = 0.0" in t and "indices = where(weights > 1.0)[0]" in t and "weights[indices] = 1.0" in t
    if good:
        ctx.ok()
    else:
        ctx.violation("R11.4", "_generate_weights:support", WGT, gw.node, "weights must vanish outside [center − width/2, center + width/2] and be clipped to [0, 1]")
    ctx.sample({"gamma": "-pi/6", "formula": "2/pi*Int(phi, w0, wi) - pi/6*D(wi)", "offset_residual": str(res)})
