"""C17 — results are reproducible and independent of worker scheduling
(static hazards: twin disagreement, unordered fan-in without a total order,
unseeded randomness, worker-tuple mismatches)."""
from __future__ import annotations

import ast
from typing import Dict, List, Optional, Set, Tuple

from ..core import AnalysisError, Ctx, calls_in, dotted, enclosing, enclosing_function_name, norm, parent, walk_ordered
from ..model import get_model
from ..prov import assignments, unpack_of_param

LEVEL = "other"
AN = "pyimpspec.analysis"

# (module, function, call text) -> triage of draws from a global random generator reachable from an analysis entry point
RANDOM_TRIAGE: Dict[Tuple[str, str], Tuple[str, str]] = {
    ("pyimpspec.analysis.kramers_kronig.algorithms.utility.cubic", "normal"):
        ("benign", "start vector p0 of a curve_fit on a cubic (a linear least-squares problem with a unique minimiser); only used when the caller passes no p0"),
    ("pyimpspec.analysis.drt.bht", "rand"):
        ("known", "random start points theta_0 of the documented random-restart BHT method; the API accepts no seed"),
    ("pyimpspec.analysis.drt.bht", "rvs"):
        ("known", "Monte-Carlo estimate of the Hellinger distance in the BHT scores; the API accepts no seed"),
    ("pyimpspec.analysis.drt.tr_rbf", "randn"):
        ("known", "initial velocities of the Hamiltonian Monte-Carlo sampler for the credible intervals of TR-RBF; the API accepts no seed"),
}
RANDOM_NAMES = {"rand", "randn", "normal", "uniform", "randint", "random", "choice", "shuffle", "permutation", "standard_normal",
                "default_rng", "RandomState", "seed", "random_sample", "multivariate_normal"}


def _pool_loops(fn: ast.AST):
    """(with-node, iterating node, call to imap/imap_unordered/map) inside `with Pool(...) as pool`."""
    out = []
    for w in [n for n in walk_ordered(fn) if isinstance(n, ast.With)]:
        if not any(isinstance(i.context_expr, ast.Call) and dotted(i.context_expr.func) == "Pool" for i in w.items):
            continue
        for c in calls_in(w):
            if isinstance(c.func, ast.Attribute) and dotted(c.func.value) == "pool" and c.func.attr in ("imap", "imap_unordered", "map"):
                out.append((w, c))
    return out


def _serial_calls(block: List[ast.stmt]):
    return [c for s in block for c in calls_in(s) if isinstance(c.func, ast.Name) and c.func.id == "map"]


def check(ctx: Ctx) -> None:
    model = get_model(ctx.repo)
    ctx.rule("R17.1", "twin agreement: the pooled and the serial arm of every fan-out map the same worker over the same arguments and treat every result identically; num_procs flows only into Pool(...), validation and the tests selecting the arm")
    ctx.rule("R17.2", "results collected from imap_unordered are sorted with a key that is a total order on the candidates before a winner is picked")
    ctx.rule("R17.3", "randomness inventory: every draw from a global generator reachable from analysis/ is triaged; mock data draw only from RandomState(seed)")
    ctx.rule("R17.5", "tasks do not modify objects they share: nothing reachable (without a copy) from a worker's argument tuple is mutated by the worker or its callees")
    ctx.rule("R17.4", "worker tuples: the packer and the unpacker agree on arity and, where both sides are plain names, on names")

    n_pool = 0
    for q, fi in sorted(model.funcs.items()):
        if not fi.module.startswith(AN) or "." in fi.qual and not fi.qual[0].isupper() and fi.qual.count(".") > 0 and False:
            continue
        loops = _pool_loops(fi.node)
        if not loops:
            continue
        ctx.modules_consulted.add(fi.module)
        for w, pc in loops:
            n_pool += 1
            worker = norm(pc.args[0])
            pargs = norm(pc.args[1]) if len(pc.args) > 1 else "?"
            site = f"{fi.qual}: pool.{pc.func.attr}({worker}, {pargs})"
            iff = enclosing(w, ast.If)
            # the arm selection
            if iff is None or not any(w is s or any(w is x for x in ast.walk(s)) for s in iff.body):
                ctx.instance("R17.1", f"{site} — no serial twin (always pooled)")
                ctx.ok()
                if pc.func.attr == "imap_unordered":
                    _unordered(ctx, model, fi, w, pc)
                continue
            if "num_procs" not in norm(iff.test):
                raise AnalysisError(f"{fi.qual}: Pool under a test that does not mention num_procs: {norm(iff.test)}")
            serial = iff.orelse
            ctx.instance("R17.1", f"{site} vs serial twin")
            scalls = _serial_calls(serial)
            ok = False
            why = "no map(worker, args) in the serial arm"
            if scalls:
                sc = scalls[0]
                if norm(sc.args[0]) != worker:
                    why = f"serial arm maps {norm(sc.args[0])}, pooled arm maps {worker}"
                elif norm(sc.args[1]) != pargs:
                    why = f"serial arm maps over {norm(sc.args[1])}, pooled arm over {pargs}"
                else:
                    # loop bodies
                    pl = enclosing(pc, ast.For)
                    sl = enclosing(sc, ast.For)
                    if pl is not None and sl is not None and pl.iter is pc or (pl is not None and pc in list(ast.walk(pl.iter))):
                        pb = [norm(s) for s in pl.body]
                        sb = [norm(s) for s in sl.body] if sl is not None else None
                        tp, ts = norm(pl.target), norm(sl.target) if sl is not None else None
                        if sb == pb and tp == ts:
                            ok = True
                        else:
                            why = f"loop bodies differ: pooled {pb[:3]} vs serial {sb[:3] if sb else None}"
                    else:
                        # iterator.next() style (timeout support): compare the statements applied to each result
                        pb = _per_result_statements(w)
                        sb = [norm(s) for s in sl.body] if sl is not None else []
                        if pb == sb:
                            ok = True
                        else:
                            why = f"per-result statements differ: pooled {pb} vs serial {sb}"
            else:
                # unrolled serial arm (tr_rbf): X = worker(args[k])
                mp = _indexed_assignments_pooled(w, pc)
                ms = _indexed_assignments_serial(serial, worker, pargs)
                if mp is not None and ms is not None:
                    if mp == ms:
                        ok = True
                    else:
                        why = f"pooled arm assigns {mp}, serial arm assigns {ms}"
            if ok:
                ctx.ok()
            else:
                ctx.violation("R17.1", f"{fi.qual}:twin:{worker}", fi.module, iff, f"{site}: the serial twin does not compute the same thing — {why}")
            # unordered?
            if pc.func.attr == "imap_unordered":
                _unordered(ctx, model, fi, w, pc)
    if n_pool < 6:
        raise AnalysisError(f"R17.1: only {n_pool} pool fan-out sites found (floor 6: five twins + the always-pooled CNLS test; the seventh Pool only lends pool.map as _map)")

    # _map parameter (exploratory): both values are order-preserving maps
    ex = model.fi(f"{AN}.kramers_kronig.exploratory", "evaluate_log_F_ext")
    ctx.instance("R17.1", "evaluate_log_F_ext: _map is pool.map or map (both ordered) in both arms")
    vals = {norm(k.value) for c in calls_in(ex.node) for k in c.keywords if k.arg == "_map"}
    if vals <= {"map", "pool.map if get_backend().lower() == 'agg' else map"} and vals:
        ctx.ok()
    else:
        ctx.violation("R17.1", "evaluate_log_F_ext:_map", ex.module, ex.node, f"_map is bound to {sorted(vals)}: only the order-preserving map/pool.map keep serial and parallel runs identical")

    # num_procs uses
    n_np = 0
    for q, fi in sorted(model.funcs.items()):
        if not fi.module.startswith(AN):
            continue
        for n in walk_ordered(fi.node):
            if not (isinstance(n, ast.Name) and n.id == "num_procs" and isinstance(n.ctx, ast.Load)):
                continue
            if fi.module == f"{AN}.utility" and fi.qual in ("get_default_num_procs", "set_default_num_procs"):
                continue  # the definition of the default itself
            n_np += 1
            p = parent(n)
            ok = False
            if isinstance(p, ast.Compare):
                ok = True
            elif isinstance(p, ast.Call) and (dotted(p.func) in ("Pool", "_is_integer", "abs", "max", "min", "int")):
                ok = True
            elif isinstance(p, ast.keyword) and p.arg in ("num_procs", "processes"):
                ok = True
            elif isinstance(p, ast.Call) and n in p.args:
                callee = model.resolve_call(fi, p)
                if callee and callee in model.funcs:
                    names = [a.arg for a in model.funcs[callee].node.args.args]
                    i = p.args.index(n)
                    ok = i < len(names) and names[i] == "num_procs"
            elif isinstance(p, (ast.JoinedStr, ast.FormattedValue)):
                ok = True
            elif isinstance(p, ast.Dict) or isinstance(p, ast.Tuple):
                ok = True  # packed into kwargs / worker tuples under the same name (R17.4)
            if not ok:
                ctx.instance("R17.1", f"{fi.qual}: num_procs used in {norm(p)[:50]}")
                ctx.violation("R17.1", f"{fi.qual}:num_procs-use:{norm(p)[:40]}", fi.module, n,
                              f"{fi.qual} uses num_procs in {norm(p)[:60]}: the number of workers must only select how the work is distributed")
    if n_np < 20:
        raise AnalysisError(f"R17.1: only {n_np} uses of num_procs found (floor 20)")
    ctx.instance("R17.1", f"{n_np} uses of num_procs: validation, Pool(...), arm selection, forwarding")
    ctx.ok()

    # ---------------- R17.5 tasks do not modify what they share -----------------------------
    n_w = 0
    for q, fi in sorted(model.funcs.items()):
        if not fi.module.startswith(AN):
            continue
        params = [a.arg for a in fi.node.args.args]
        if len(params) != 1:
            continue
        unp = unpack_of_param(fi.node, params[0])
        if unp is None:
            continue
        used_as_worker = any(isinstance(c.func, (ast.Name, ast.Attribute)) and dotted(c.func).split(".")[-1] in ("map", "imap", "imap_unordered", "_map")
                             and c.args and norm(c.args[0]) == fi.node.name for f2 in model.funcs.values() if f2.module == fi.module for c in calls_in(f2.node))
        if not used_as_worker:
            continue
        n_w += 1
        ctx.instance("R17.5", f"worker {fi.qual}: shared task arguments are not modified")
        hit = _shared_mutation(model, fi, {nm: nm for nm in unp}, 0, set())
        if hit is not None:
            node, how, where = hit
            ctx.violation("R17.5", f"{fi.qual}:mutates-shared:{how.split(' ')[0]}", where, node,
                          f"worker {fi.qual} modifies an object it shares with the other tasks ({how}): in the serial arm every task sees the previous tasks' changes, "
                          f"in the pooled arm each task gets a pickled copy — serial and parallel runs diverge")
        else:
            ctx.ok()
    if n_w < 5:
        raise AnalysisError(f"R17.5: only {n_w} worker functions found (floor 5)")

    # ---------------- R17.3 -------------------------------------------------------------
    n_rand = 0
    for mname, mod in sorted(ctx.repo.modules.items()):
        if not (mname.startswith(AN) or mname == "pyimpspec.mock_data"):
            continue
        imported = {}
        for n in walk_ordered(mod.tree, into_functions=True):
            if isinstance(n, ast.ImportFrom) and n.module and (n.module.startswith("numpy.random") or n.module == "random" or n.module.startswith("scipy.stats")):
                for a in n.names:
                    imported[a.asname or a.name] = f"{n.module}.{a.name}"
        for c in [n for n in walk_ordered(mod.tree, into_functions=True) if isinstance(n, ast.Call)]:
            name = None
            if isinstance(c.func, ast.Name) and c.func.id in imported and imported[c.func.id].split(".")[-1] in RANDOM_NAMES \
                    and not imported[c.func.id].startswith("scipy.stats"):
                name = c.func.id
            elif isinstance(c.func, ast.Attribute) and c.func.attr == "rvs":
                name = "rvs"
            elif isinstance(c.func, ast.Attribute) and c.func.attr in RANDOM_NAMES and dotted(c.func.value) in ("numpy.random", "np.random", "random"):
                name = c.func.attr
            if name is None:
                continue
            n_rand += 1
            fn = enclosing_function_name(c)
            ctx.instance("R17.3", f"{mname.split('.')[-1]}:{fn}: {norm(c)[:50]}")
            if mname == "pyimpspec.mock_data":
                def seeded(e: ast.AST) -> bool:
                    # a function of the caller's `seed` (through local single assignments) and constants only
                    from ..elements import module_consts
                    consts = set(module_consts(ctx.repo, mname))
                    fnode = enclosing(c, (ast.FunctionDef,))
                    from ..prov import Resolver
                    ex = Resolver(fnode).resolve(e, c) if fnode is not None else e
                    names = {x.id for x in ast.walk(ex) if isinstance(x, ast.Name)}
                    calls_ = [x for x in ast.walk(ex) if isinstance(x, ast.Call) and dotted(x.func) not in ("int", "abs")]
                    return "seed" in names and names <= ({"seed", "None", "int", "abs"} | consts) and not calls_
                sk = [k.value for k in c.keywords if k.arg == "seed"] + list(c.args[:1])
                if name == "RandomState" and sk and seeded(sk[0]):
                    ctx.ok()
                else:
                    ctx.violation("R17.3", f"mock_data:{fn}:{name}", mname, c, f"mock data must draw only from RandomState(seed=seed); found {norm(c)[:60]}")
                continue
            t = RANDOM_TRIAGE.get((mname, name))
            if t is None:
                ctx.violation("R17.3", f"{mname}:{fn}:{name}", mname, c,
                              f"{fn} draws from a global random generator ({norm(c)[:60]}): repeated runs differ and no seed can be supplied")
            elif t[0] == "benign":
                ctx.ok()
            else:
                ctx.violation("R17.3", f"{mname}:{name}:unseeded", mname, c, f"{fn}: {norm(c)[:50]} — {t[1]}")
    if n_rand < 5:
        raise AnalysisError(f"R17.3: only {n_rand} random draws found (floor 5)")
    # mock data: all draws go through the seeded generator
    md = model.fi("pyimpspec.mock_data", "_add_noise")
    ctx.instance("R17.3", "_add_noise draws only from rs = RandomState(seed=seed)")
    draws = [c for c in calls_in(md.node) if isinstance(c.func, ast.Attribute) and c.func.attr in RANDOM_NAMES]
    if draws and all(dotted(c.func.value) == "rs" for c in draws):
        ctx.ok()
    else:
        ctx.violation("R17.3", "mock_data:_add_noise:generator", "pyimpspec.mock_data", md.node, "noise must be drawn from the seeded RandomState only")

    # ---------------- R17.4 -------------------------------------------------------------
    n_unp = 0
    for q, fi in sorted(model.funcs.items()):
        if not fi.module.startswith(AN):
            continue
        params = [a.arg for a in fi.node.args.args]
        if len(params) != 1:
            continue
        unp = unpack_of_param(fi.node, params[0])
        if unp is None:
            continue
        # find packers: generator/list of tuples handed to map/imap with this worker
        for q2, fi2 in model.funcs.items():
            if fi2.module != fi.module:
                continue
            for c in calls_in(fi2.node):
                is_map = (isinstance(c.func, ast.Name) and c.func.id in ("map", "_map")) or (isinstance(c.func, ast.Attribute) and c.func.attr in ("imap", "imap_unordered", "map"))
                if not is_map or len(c.args) < 2 or norm(c.args[0]) != fi.node.name:
                    continue
                tup = _arg_tuple(fi2.node, c.args[1])
                if tup is None:
                    continue
                n_unp += 1
                ctx.instance("R17.4", f"{fi2.qual} packs {len(tup)} → {fi.qual} unpacks {len(unp)}")
                if len(tup) != len(unp):
                    ctx.violation("R17.4", f"{fi.qual}:arity", fi.module, c, f"{fi2.qual} packs {len(tup)} values but {fi.qual} unpacks {len(unp)}")
                    continue
                # a name packed at position i that the worker unpacks at a DIFFERENT position j is a transposition
                # (plain renaming between packer and unpacker is fine)
                bad = [(norm(a), b) for i, (a, b) in enumerate(zip(tup, unp))
                       if isinstance(a, ast.Name) and a.id != b and a.id in unp and unp.index(a.id) != i]
                if bad:
                    ctx.violation("R17.4", f"{fi.qual}:names", fi.module, c,
                                  f"{fi2.qual} packs {[x for x, _ in bad]} where {fi.qual} unpacks {[y for _, y in bad]} at the same positions")
                else:
                    ctx.ok()
    if n_unp < 6:
        raise AnalysisError(f"R17.4: only {n_unp} packer/unpacker pairs found (floor 6)")
    ctx.sample({"pool_sites": n_pool, "random_draws": n_rand, "worker_tuple_pairs": n_unp})


def _per_result_statements(w: ast.With) -> List[str]:
    """Statements applied to each result in an `iterator.next()` loop: those after the try block."""
    for n in walk_ordered(w):
        if isinstance(n, ast.While):
            out = []
            seen_try = False
            for s in n.body:
                if isinstance(s, ast.Try):
                    seen_try = True
                    continue
                if seen_try:
                    out.append(norm(s))
            return out
    return []


def _indexed_assignments_pooled(w: ast.With, pc: ast.Call) -> Optional[Dict[str, str]]:
    lp = enclosing(pc, ast.For)
    if lp is None or not (isinstance(lp.iter, ast.Call) and dotted(lp.iter.func) == "enumerate"):
        return None
    idx, res = [norm(e) for e in lp.target.elts]
    worker, pargs = norm(pc.args[0]), norm(pc.args[1])
    out: Dict[str, str] = {}
    for s in lp.body:
        if isinstance(s, ast.If) and norm(s.test).startswith(f"{idx} == "):
            k = norm(s.test).split("== ")[1]
            for a in s.body:
                if isinstance(a, ast.Assign) and norm(a.value) == res:
                    out[norm(a.targets[0])] = f"{worker}({pargs}[{k}])"
            for a in s.orelse:
                if isinstance(a, ast.Assign) and norm(a.value) == res:
                    out[norm(a.targets[0])] = f"{worker}({pargs}[{int(k) + 1}])"
    return out or None


def _indexed_assignments_serial(block: List[ast.stmt], worker: str, pargs: str) -> Optional[Dict[str, str]]:
    out: Dict[str, str] = {}
    for s in block:
        if isinstance(s, ast.Assign) and isinstance(s.value, ast.Call) and norm(s.value.func) == worker:
            out[norm(s.targets[0])] = norm(s.value)
    return out or None


def _arg_tuple(fn: ast.AST, node: ast.AST) -> Optional[List[ast.AST]]:
    if isinstance(node, ast.Name):
        binds = [b for b in assignments(fn, node.id) if b[2] == "assign"]
        if binds:
            node = binds[-1][0].value
    if isinstance(node, (ast.GeneratorExp, ast.ListComp)) and isinstance(node.elt, ast.Tuple):
        out: List[ast.AST] = []
        for e in node.elt.elts:
            if isinstance(e, ast.Starred):
                # (*head, method, weight, *tail): a starred local bound once to a tuple display is spliced in; anything else
                # (a loop variable, a call) has an arity this rule cannot see
                v = e.value
                bs = [b for b in assignments(fn, v.id) if b[2] == "assign"] if isinstance(v, ast.Name) else []
                if len(bs) == 1 and isinstance(bs[0][0].value, ast.Tuple) and not any(isinstance(x, ast.Starred) for x in bs[0][0].value.elts):
                    out += list(bs[0][0].value.elts)
                else:
                    return None
            else:
                out.append(e)
        return out
    if isinstance(node, ast.List) and node.elts and isinstance(node.elts[0], ast.Tuple):
        return list(node.elts[0].elts)
    # list filled by args.append((…)) in a loop
    if isinstance(node, ast.List) and not node.elts:
        return None
    return None


def _unordered(ctx: Ctx, model, fi, w: ast.With, pc: ast.Call) -> None:
    """Where do the unordered results go, and are they totally ordered before a winner is taken?"""
    lp = enclosing(pc, ast.For)
    if lp is None:
        # iterator = pool.imap_unordered(...); while True: res = iterator.next() …
        lp = next((n for n in walk_ordered(w) if isinstance(n, ast.While)), None)
    via_helper = None
    if lp is None and isinstance(parent(pc), ast.Call) and parent(pc) is not pc:
        # the iterator is handed to a collecting helper: follow it (parameter → its consuming loop → returned list)
        hc = parent(pc)
        hq = model.resolve_call(fi, hc)
        if hq and hq in model.funcs:
            from ..prov import call_args
            hfi = model.funcs[hq]
            bound = call_args(hc, hfi.node, skip_self=isinstance(hc.func, ast.Attribute))
            pname = next((k for k, v in bound.items() if v is pc), None)
            hl = [n for n in walk_ordered(hfi.node) if isinstance(n, ast.For) and norm(n.iter) == pname] if pname else []
            rets = [norm(r.value) for r in walk_ordered(hfi.node) if isinstance(r, ast.Return) and r.value is not None]
            st_ = parent(hc)
            if len(hl) == 1 and isinstance(st_, (ast.Assign, ast.AnnAssign)):
                inner = [norm(c.func.value) for s_ in hl[0].body for c in calls_in(s_) if isinstance(c.func, ast.Attribute) and c.func.attr == "append"]
                if inner and rets == [inner[0]]:
                    lp = hl[0]
                    via_helper = norm(st_.targets[0] if isinstance(st_, ast.Assign) else st_.target)
            elif len(hl) == 1 and isinstance(st_, ast.Expr) and hfi.qual.startswith(fi.qual + ".") and not rets:
                # a local closure that appends to a list of the enclosing function
                inner = [norm(c.func.value) for s_ in hl[0].body for c in calls_in(s_) if isinstance(c.func, ast.Attribute) and c.func.attr == "append"]
                local = {t.id for n in walk_ordered(hfi.node) if isinstance(n, (ast.Assign, ast.AnnAssign)) and n.value is not None
                         for t in ast.walk(n.targets[0] if isinstance(n, ast.Assign) else n.target) if isinstance(t, ast.Name)}
                if inner and inner[0] not in local:
                    lp = hl[0]
                    via_helper = inner[0]
    if lp is None:
        raise AnalysisError(f"{fi.qual}: imap_unordered is consumed neither by a for loop nor by an iterator loop")
    sinks = [norm(c.func.value) for s in lp.body for c in calls_in(s) if isinstance(c.func, ast.Attribute) and c.func.attr == "append"]
    if via_helper:
        sinks = [via_helper]
    if not sinks:
        raise AnalysisError(f"{fi.qual}: results of imap_unordered are not collected in a list")
    # decisions taken while results are still arriving depend on the arrival order
    early = []
    for n in walk_ordered(lp):
        if isinstance(n, ast.Break) and not isinstance(parent(n), ast.ExceptHandler):
            iff = enclosing(n, ast.If)
            if iff is not None and any(iff is x for x in ast.walk(lp)):
                early.append(n)
    if early:
        ctx.instance("R17.2", f"{fi.qual}: early termination while consuming imap_unordered({norm(pc.args[0])})")
        ctx.violation("R17.2", f"{fi.qual}:early-stop-on-arrival-order", fi.module, early[0],
                      f"{fi.qual} stops consuming results of imap_unordered({norm(pc.args[0])}) under a condition on the results received so far: which results are "
                      f"seen before the stop depends on worker completion order, so the returned set differs between runs and between num_procs values")
    sink = sinks[0]
    for cand in sinks:
        for c in calls_in(fi.node):
            if (isinstance(c.func, ast.Attribute) and c.func.attr == "sort" and norm(c.func.value) == cand) or \
                    (isinstance(c.func, ast.Name) and c.func.id == "sorted" and c.args and norm(c.args[0]) == cand):
                sink = cand
    site = f"{fi.qual}: {sink} ← imap_unordered({norm(pc.args[0])})"
    ctx.instance("R17.2", site)
    # sorting of the sink in this function
    sorts = []
    for c in calls_in(fi.node):
        if isinstance(c.func, ast.Attribute) and c.func.attr == "sort" and norm(c.func.value) == sink:
            sorts.append(c)
        if isinstance(c.func, ast.Name) and c.func.id == "sorted" and c.args and norm(c.args[0]) == sink:
            sorts.append(c)
    worker_q = model.resolve(fi.module, norm(pc.args[0]))
    arity = None
    if worker_q and worker_q[1] in model.funcs:
        from ..prov import return_tuples
        rts = [rt for rt in return_tuples(model.funcs[worker_q[1]].node) if len(rt) > 1]
        if rts:
            arity = len(rts[-1])
            fields = [norm(x) for x in rts[-1]]
    if not sorts:
        # the order of the list then depends on completion order: acceptable only if the consumer orders it (checked there)
        consumer_orders = _consumer_orders(model, fi, sink)
        if consumer_orders:
            ctx.ok()
            ctx.note(f"{site}: list order depends on completion order; the consumer re-orders with a total key")
        else:
            ctx.violation("R17.2", f"{fi.qual}:{sink}:unsorted", fi.module, lp,
                          f"{site}: the list keeps worker completion order and nothing downstream imposes a total order")
        return
    key = None
    for k in sorts[0].keywords:
        if k.arg == "key":
            key = k.value
    used: Set[int] = set()
    if isinstance(key, ast.Lambda):
        arg = key.args.args[0].arg
        for n in ast.walk(key.body):
            if isinstance(n, ast.Subscript) and norm(n.value) == arg and isinstance(n.slice, ast.Constant):
                used.add(n.slice.value)
    if arity is None:
        raise AnalysisError(f"{fi.qual}: the worker's result tuple could not be determined")
    # discriminating fields: scalar/str positions (arrays and dicts cannot take part in a key)
    discr = {i for i, f_ in enumerate(fields) if f_ in ("smoothing", "interpolation", "window", "method", "weight", "num_RC", "pseudo_chisqr") or i == 0}
    missing = discr - used
    if missing:
        ctx.violation("R17.2", f"{fi.qual}:{sink}:partial-key", fi.module, sorts[0],
                      f"{site}: sorted by fields {sorted(used)} of {fields}; candidates that tie on them keep worker completion order "
                      f"(fields {sorted(missing)} = {[fields[i] for i in sorted(missing)]} are not part of the key), so the winner can differ between runs")
    else:
        ctx.ok()


def _consumer_orders(model, fi, sink: str) -> bool:
    """The collecting function returns the list; its caller passes it on to a function that builds
    candidates from it and sorts them with a total key (Z-HIT: reconstructions → _adjust_modulus_offset)."""
    for q2, fi2 in model.funcs.items():
        if not fi2.module.startswith(fi.module.rsplit(".", 1)[0]):
            continue
        for c in calls_in(fi2.node):
            if dotted(c.func) == fi.node.name:
                # find where the returned value is passed
                st = parent(c)
                while st is not None and not isinstance(st, ast.stmt):
                    st = parent(st)
                if isinstance(st, ast.Assign):
                    var = norm(st.targets[0])
                    for c2 in calls_in(fi2.node):
                        if any(isinstance(a, ast.Name) and a.id == var for a in c2.args):
                            callee = model.resolve_call(fi2, c2)
                            if callee and callee in model.funcs:
                                src = norm(model.funcs[callee].node)
                                if "sorted(" in src or ".sort(" in src:
                                    return True
    return False


_CONTAINER_MUT = {"pop", "update", "clear", "setdefault", "append", "extend", "insert", "remove", "sort", "reverse", "popitem", "add", "discard"}
_OBJECT_MUT = {"set_values", "set_lower_limits", "set_upper_limits", "set_fixed", "set_label", "set_mask", "subtract_impedances", "reset_parameters", "set_subcircuits"}
_COPIES = {"deepcopy", "copy", "list", "dict", "tuple", "sorted", "set", "array", "asarray"}


def _shared_mutation(model, fi, tainted: Dict[str, str], depth: int, seen: set):
    """Alias-level taint: names that ARE (not copies of) objects reachable from the task tuple."""
    if depth > 3 or fi.qname in seen:
        return None
    seen = seen | {fi.qname}
    t = dict(tainted)

    binds: Dict[str, List[Tuple[Tuple[int, int], Optional[ast.AST], str]]] = {}

    def pos(n):
        return (getattr(n, "lineno", 0), getattr(n, "col_offset", 0))

    for n in walk_ordered(fi.node):
        if isinstance(n, (ast.Assign, ast.AnnAssign)) and n.value is not None:
            tg = n.targets[0] if isinstance(n, ast.Assign) else n.target
            if isinstance(tg, ast.Name):
                binds.setdefault(tg.id, []).append((pos(n), n.value, "assign"))
            elif isinstance(tg, (ast.Tuple, ast.List)):
                for x in tg.elts:
                    if isinstance(x, ast.Name):
                        binds.setdefault(x.id, []).append((pos(n), None, "unpack"))
        elif isinstance(n, (ast.For, ast.comprehension)):
            top = list(n.target.elts) if isinstance(n.target, (ast.Tuple, ast.List)) else []
            for x in ast.walk(n.target):
                if isinstance(x, ast.Name):
                    binds.setdefault(x.id, []).append((pos(n) if isinstance(n, ast.For) else pos(n.iter), n.iter, "iter" if x not in top else f"iter{top.index(x)}"))

    # local containers whose KEYS or VALUES are shared objects (filled by subscript stores / append / add); the container
    # itself is the task's own, only the objects taken out of it again are shared
    content: Dict[str, Dict[str, str]] = {}

    def src(e: ast.AST, at=None, _d=0) -> Optional[str]:
        if isinstance(e, ast.Name):
            at = at or pos(e)
            bs = [b for b in binds.get(e.id, []) if b[0] < at]
            if bs and _d < 6:
                p_, val, kind = bs[-1]
                if kind == "unpack":
                    return tainted.get(e.id)
                r0 = src(val, p_, _d + 1) if val is not None else None
                if r0 is None and kind.startswith("iter") and val is not None:
                    # for k, v in c.items() / for k in c / for v in c.values() over a local container holding shared objects
                    base, how = val, "key"
                    if isinstance(val, ast.Call) and isinstance(val.func, ast.Attribute) and val.func.attr in ("items", "keys", "values") and not val.args:
                        base, how = val.func.value, {"items": "item", "keys": "key", "values": "val"}[val.func.attr]
                    if isinstance(base, ast.Name) and base.id in content:
                        c_ = content[base.id]
                        if how == "item":
                            return c_.get("key") if kind == "iter0" else c_.get("val") if kind == "iter1" else (c_.get("key") or c_.get("val"))
                        if kind == "iter":
                            return c_.get(how)
                        return c_.get(how)
                return r0
            return tainted.get(e.id)
        if isinstance(e, (ast.Tuple, ast.List)):
            for x in e.elts:
                r = src(x, at, _d + 1) if _d < 6 else None
                if r:
                    return r
            return None
        if isinstance(e, ast.Subscript):
            if isinstance(e.value, ast.Name) and e.value.id in content and content[e.value.id].get("val") and not src(e.value, at, _d):
                return content[e.value.id]["val"]
            return src(e.value, at, _d)
        if isinstance(e, ast.Attribute):
            return src(e.value, at, _d)
        if isinstance(e, ast.Call):
            f = e.func
            if isinstance(f, ast.Attribute) and f.attr in ("items", "values", "get", "get_elements", "get_connections") and not (isinstance(f.value, ast.Name) and f.value.id in _COPIES):
                return src(f.value, at, _d)
            # a repository function whose declared result holds circuit objects (e.g. Dict[Element, …], List[Element]):
            # the container is fresh but the objects in it are those reachable from its arguments
            callee = model.resolve_call(fi, e)
            if callee in model.funcs and model.funcs[callee].node.returns is not None and _d < 6:
                import re as _re
                if _re.search(r"\b(Element|Circuit|Connection|Container|Series|Parallel)\b", norm(model.funcs[callee].node.returns)):
                    for a in list(e.args) + [k.value for k in e.keywords]:
                        r = src(a, at, _d + 1)
                        if r:
                            return r
            return None
        if isinstance(e, ast.IfExp):
            return src(e.body, at, _d) or src(e.orelse, at, _d)
        if isinstance(e, ast.BoolOp):
            for v in e.values:
                r = src(v, at, _d)
                if r:
                    return r
        return None

    for _round in range(3):
        for n in walk_ordered(fi.node):
            if isinstance(n, ast.Assign) and isinstance(n.targets[0], ast.Subscript) and isinstance(n.targets[0].value, ast.Name) and n.targets[0].value.id not in tainted:
                c_name = n.targets[0].value.id
                if src(n.targets[0].value) is None:
                    k_ = src(n.targets[0].slice)
                    v_ = src(n.value)
                    if k_:
                        content.setdefault(c_name, {}).setdefault("key", k_)
                    if v_:
                        content.setdefault(c_name, {}).setdefault("val", v_)
            elif isinstance(n, ast.Call) and isinstance(n.func, ast.Attribute) and n.func.attr in ("append", "add") and isinstance(n.func.value, ast.Name) and n.args \
                    and n.func.value.id not in tainted and src(n.func.value) is None:
                v_ = src(n.args[0])
                if v_:
                    content.setdefault(n.func.value.id, {}).setdefault("val", v_)

    for n in walk_ordered(fi.node):
        if isinstance(n, ast.Call) and isinstance(n.func, ast.Attribute) and n.func.attr in (_CONTAINER_MUT | _OBJECT_MUT):
            r = src(n.func.value)
            if r:
                return n, f"{norm(n)[:50]} on `{r}`", fi.module
        if isinstance(n, (ast.Assign, ast.AugAssign)):
            for tg in (n.targets if isinstance(n, ast.Assign) else [n.target]):
                if isinstance(tg, ast.Subscript) and src(tg.value):
                    if depth == 0 and isinstance(n, ast.Assign) and isinstance(tg.slice, ast.Constant) and n in fi.node.body:
                        # the task (re)writes a fixed key of the shared mapping unconditionally before using it:
                        # every task sees its own value, whatever ran before
                        continue
                    return n, f"{norm(tg)[:40]} = … on `{src(tg.value)}`", fi.module
        if isinstance(n, ast.Delete):
            for tg in n.targets:
                if isinstance(tg, ast.Subscript) and src(tg.value):
                    return n, f"del {norm(tg)[:40]} on `{src(tg.value)}`", fi.module
        if isinstance(n, ast.Call):
            callee = model.resolve_call(fi, n)
            if callee and callee in model.funcs and callee != fi.qname:
                cf = model.funcs[callee]
                from ..prov import call_args
                bound = call_args(n, cf.node, skip_self=cf.cls is not None)
                sub = {p: src(a) for p, a in bound.items() if isinstance(a, ast.AST) and src(a)}
                if sub:
                    h = _shared_mutation(model, cf, sub, depth + 1, seen)
                    if h is not None:
                        return h
    return None
