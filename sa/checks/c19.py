"""C19 — the command-line interface reports what the API computes (wiring).

Decided statically: the CLI is glue, so "prints what the API returns with the
same settings" decomposes into (a) every option reaches the API parameter of
the same name, (b) the data handed to the API is the parsed, filtered data
set, (c) the text that is emitted is format_text of a dataframe of the value
the API returned last, (d) that text reaches print_func or the output file on
every path, (e) format_text dispatches each format to the pandas writer of
that format on the unmodified frame, (f) mock specifiers are forwarded
key-for-key to generate_mock_data."""
from __future__ import annotations

import ast
from typing import Dict, List, Optional, Set, Tuple

from ..cfg import CFG, own_expr, stmt_of
from ..core import AnalysisError, Ctx, calls_in, dotted, enclosing, norm, parent, walk_ordered
from ..model import get_model

LEVEL = "other"
CLI = "pyimpspec.cli"

# (cli module, function, API callee name, args-definition function, in scope of the property's wording)
SITES = [
    ("fit", "command", "fit_circuit", "fit_args"),
    ("drt", "overlay_plot", "calculate_drt", "drt_args"),
    ("drt", "individual_plots", "calculate_drt", "drt_args"),
    ("zhit", "command", "perform_zhit", "zhit_args"),
    ("test", "exploratory_tests", "evaluate_log_F_ext", "test_args"),
]
# API keyword → CLI dest where the names differ; confirmed by reading args.py, one reason each
RENAMES: Dict[Tuple[str, str], str] = {
    ("perform_zhit", "window"): "weights_window",  # --weights-window
    ("perform_zhit", "center"): "weights_center",  # --weights-center
    ("perform_zhit", "width"): "weights_width",  # --weights-width
}
# CLI dests that share a name with an API parameter but are deliberately not forwarded as-is (reason each)
NOT_FORWARDED: Dict[Tuple[str, str], str] = {
    ("fit_circuit", "circuit"): "positional CDC string, parsed with parse_cdc and passed positionally",
    ("calculate_drt", "circuit"): "CDC string, forwarded as parse_cdc(args.circuit)",
    ("evaluate_log_F_ext", "num_RC"): "the exploratory command evaluates every num_RC and selects afterwards",
    ("evaluate_log_F_ext", "test"): "forwarded (kept in table only if missing)",
}
API_HOME = {
    "fit_circuit": "pyimpspec.analysis.fitting",
    "calculate_drt": "pyimpspec.analysis.drt",
    "perform_zhit": "pyimpspec.analysis.zhit",
    "evaluate_log_F_ext": "pyimpspec.analysis.kramers_kronig.exploratory",
    "simulate_spectrum": "pyimpspec.analysis.utility",
    "generate_mock_data": "pyimpspec.mock_data",
}


def _dest_of(call: ast.Call) -> Optional[str]:
    for k in call.keywords:
        if k.arg == "dest" and isinstance(k.value, ast.Constant):
            return k.value.value
    longs = [a.value for a in call.args if isinstance(a, ast.Constant) and isinstance(a.value, str)]
    for a in longs:
        if a.startswith("--"):
            return a[2:].replace("-", "_")
    for a in longs:
        if not a.startswith("-"):
            return a.replace("-", "_")
    return None


def dests_of(model, fn_name: str) -> Dict[str, ast.Call]:
    fi = model.fi(f"{CLI}.args", fn_name)
    out: Dict[str, ast.Call] = {}
    seen: Set[str] = set()

    def visit(f):
        if f.qname in seen:
            return
        seen.add(f.qname)
        for c in calls_in(f.node, into_functions=True):
            if isinstance(c.func, ast.Attribute) and c.func.attr == "add_argument":
                d = _dest_of(c)
                if d:
                    out[d] = c
            elif isinstance(c.func, ast.Name) and c.func.id.startswith("add_") and c.func.id.endswith("_args"):
                g = model.funcs.get(f"{CLI}.args:{c.func.id}")
                if g:
                    visit(g)
    visit(fi)
    return out


def _api(model, name: str):
    home = API_HOME[name]
    for cand in (f"{home}:{name}",):
        if cand in model.funcs:
            return model.funcs[cand]
    # fall back: unique function of that name anywhere
    c = [f for q, f in model.funcs.items() if q.endswith(f":{name}")]
    if len(c) == 1:
        return c[0]
    raise AnalysisError(f"API function {name} not found")


def _params(fi) -> List[str]:
    a = fi.node.args
    return [x.arg for x in a.posonlyargs + a.args + a.kwonlyargs]


def _args_attr(v: ast.AST) -> Optional[str]:
    if isinstance(v, ast.Attribute) and isinstance(v.value, ast.Name) and v.value.id == "args":
        return v.attr
    return None


def _expanded_keywords(fn: ast.AST, call: ast.Call):
    """Keywords of a call with `**name` expanded when `name` is bound once to a dictionary display / dict(k=v, …) in fn."""
    out = []
    for k in call.keywords:
        if k.arg is not None:
            out.append(k)
            continue
        v = k.value
        if isinstance(v, ast.Name):
            b = [n.value for n in walk_ordered(fn) if isinstance(n, (ast.Assign, ast.AnnAssign)) and n.value is not None
                 and norm(n.targets[0] if isinstance(n, ast.Assign) else n.target) == v.id]
            if len(b) != 1:
                return None
            v = b[0]
        if isinstance(v, ast.Dict) and all(isinstance(kk, ast.Constant) and isinstance(kk.value, str) for kk in v.keys):
            out += [ast.keyword(arg=kk.value, value=vv) for kk, vv in zip(v.keys, v.values)]
        elif isinstance(v, ast.Call) and norm(v.func) == "dict" and not v.args and all(x.arg for x in v.keywords):
            out += list(v.keywords)
        else:
            return None
    return out


def _derived(fn: ast.AST, name: str, producers: Set[str], depth: int, seen: Optional[Set[str]] = None) -> Tuple[bool, str]:
    """Is every binding of `name` in fn the API result, something reached from it (method/attribute/element), the data-set
    loop element, or a container filled only with such values?"""
    seen = set() if seen is None else seen
    if name in seen:
        return True, ""  # coinductive: a cycle of bindings adds no new source
    seen = seen | {name}
    if depth > 8:
        return False, f"provenance of {name} too deep"
    binds: List[ast.AST] = []
    for n in walk_ordered(fn):
        if isinstance(n, (ast.Assign, ast.AnnAssign)) and n.value is not None:
            t = n.targets[0] if isinstance(n, ast.Assign) else n.target
            if isinstance(t, ast.Name) and t.id == name:
                binds.append(n.value)
            elif isinstance(t, ast.Tuple) and any(isinstance(e, ast.Name) and e.id == name for e in t.elts):
                binds.append(n.value)
        elif isinstance(n, ast.For) and any(isinstance(x, ast.Name) and x.id == name for x in ast.walk(n.target)):
            binds.append(n.iter)
    if not binds:
        params = {a.arg for a in fn.args.posonlyargs + fn.args.args + fn.args.kwonlyargs} if isinstance(fn, ast.FunctionDef) else set()
        if name in params and fn.name.startswith("_"):
            # a private helper that receives the value: its provenance is decided at the call sites of the command functions
            return True, ""
        return False, f"{name} has no binding in the function"

    def good(v: ast.AST) -> Tuple[bool, str]:
        if isinstance(v, ast.Constant) and v.value is None:
            return True, ""
        if isinstance(v, ast.Call) and dotted(v.func) in producers:
            return True, ""
        if isinstance(v, ast.Call) and dotted(v.func) == "enumerate" and v.args:
            return good(v.args[0])
        if isinstance(v, (ast.List, ast.Tuple)) and not v.elts:
            # a container: everything appended must be derived
            for c in calls_in(fn):
                if isinstance(c.func, ast.Attribute) and c.func.attr in ("append", "extend", "insert") and norm(c.func.value) == name:
                    for x in [x for a in c.args for x in ast.walk(a) if isinstance(x, ast.Name)]:
                        r = _derived(fn, x.id, producers, depth + 1, seen)
                        if not r[0]:
                            return r
            return True, ""
        if isinstance(v, ast.Tuple):
            for e in v.elts:
                r = good(e)
                if not r[0]:
                    return r
            return True, ""
        root = v
        while isinstance(root, (ast.Subscript, ast.Attribute, ast.Call)):
            root = root.func if isinstance(root, ast.Call) else root.value
        if isinstance(root, ast.Name) and root is not v:
            if root.id in ("data_sets", "all_data_sets"):
                return True, ""
            if root.id == name:
                return True, ""
            return _derived(fn, root.id, producers, depth + 1, seen)
        if isinstance(v, ast.Name):
            if v.id in ("data_sets", "all_data_sets"):
                return True, ""
            return _derived(fn, v.id, producers, depth + 1, seen)
        return False, f"{name} is bound from {norm(v)[:80]}, which is not the API result or derived from it"
    for b in binds:
        r = good(b)
        if not r[0]:
            return r
    return True, ""


def check(ctx: Ctx) -> None:
    model = get_model(ctx.repo)
    for m in ("args", "utility", "parse", "circuit", "fit", "drt", "zhit", "test", "__init__", "config"):
        ctx.modules_consulted.add(f"{CLI}.{m}" if m != "__init__" else CLI)
    ctx.rule("R19.1", "option forwarding: at every CLI→API call site a keyword fed from the parsed arguments takes the option of the same name (or a reviewed rename), that option is defined for the sub-command, the keyword is a parameter of the API function, and every option that shares its name with an API parameter is forwarded; sibling call sites of one sub-command forward identically")
    ctx.rule("R19.2", "input provenance: the data handed to the API / printed is the loop element of parse_inputs(args) after apply_filters ran over that list; apply_filters maps low-pass, high-pass and excluded indices to the DataSet methods of the same meaning; mock specifiers go key-for-key to generate_mock_data")
    ctx.rule("R19.3", "report provenance: every emitted table is format_text(<value>.to_…dataframe(…), args) where <value> is bound from the API call (the last refinement for fit) or is the data set itself; refinements restart from the previous result's circuit on the same data and settings")
    ctx.rule("R19.4", "emission: a text built with format_text reaches print_func(…) or the output file's write(…) on every path (must-pass-through on the function's CFG), in every sub-command alike")
    ctx.rule("R19.5", "format dispatch: csv/md/tex/json select the pandas writer of that format on the unmodified frame; the format aliases map latex→tex, markdown→md; the sub-command table maps each name to its own command function")
    ctx.assumptions += ["pandas writers print the frame they are given", "argparse stores an option under its dest"]

    # ---------------- R19.1 ---------------------------------------------------------
    n_sites = 0
    per_cmd: Dict[Tuple[str, str], List[Dict[str, str]]] = {}
    for mod, fn, api, argfn in SITES:
        fi = model.fi(f"{CLI}.{mod}", fn)
        dests = dests_of(model, argfn)
        if len(dests) < 8:
            raise AnalysisError(f"{argfn}: only {len(dests)} options found")
        apifi = _api(model, api)
        params = _params(apifi)
        has_kwargs = apifi.node.args.kwarg is not None
        calls = [c for c in calls_in(fi.node, into_functions=True) if dotted(c.func) == api]
        if not calls:
            raise AnalysisError(f"{mod}.{fn}: call to {api} not found")
        for c in calls:
            n_sites += 1
            fed: Dict[str, str] = {}
            site = f"{mod}.{fn}→{api}@{sum(1 for x in calls[:calls.index(c) + 1])}"
            ctx.instance("R19.1", f"{site}: {len(c.keywords)} keywords")
            bad = False
            kws_all = _expanded_keywords(fi.node, c)
            if kws_all is None:
                raise AnalysisError(f"{site}: **kwargs forwarding not understood")
            for k in kws_all:
                if k.arg is None:
                    raise AnalysisError(f"{site}: **kwargs forwarding not understood")
                if k.arg not in params and not has_kwargs:
                    ctx.violation("R19.1", f"{mod}.{fn}:{api}:unknown-parameter:{k.arg}", fi.module, k.value, f"{site} passes {k.arg}=…, which {api} does not accept")
                    bad = True
                    continue
                X = _args_attr(k.value)
                fed[k.arg] = norm(k.value)
                if X is None:
                    # an expression: every args.* inside must be the option of the same name (parse_cdc(args.circuit)) or its
                    # negated switch (add_x = not args.no_x)
                    for n in ast.walk(k.value):
                        Y = _args_attr(n)
                        if not Y:
                            continue
                        negated = isinstance(parent(n), ast.UnaryOp) and isinstance(parent(n).op, ast.Not)
                        base = Y[3:] if Y.startswith("no_") else Y
                        names_ok = base in (k.arg, k.arg[4:] if k.arg.startswith("add_") else k.arg) or RENAMES.get((api, k.arg)) == Y
                        if not names_ok or (Y.startswith("no_") != negated) or Y not in dests:
                            ctx.violation("R19.1", f"{mod}.{fn}:{api}:{k.arg}", fi.module, k.value,
                                          f"{site}: parameter {k.arg} is computed as {norm(k.value)}: expected the option of the same name (a 'no_' switch negated)")
                            bad = True
                    if isinstance(k.value, ast.Constant) and RENAMES.get((api, k.arg), k.arg) in dests:
                        ctx.violation("R19.1", f"{mod}.{fn}:{api}:{k.arg}:constant", fi.module, k.value,
                                      f"{site}: parameter {k.arg} is the constant {norm(k.value)} although the sub-command defines the option {k.arg}: the option is silently ignored")
                        bad = True
                    continue
                want = RENAMES.get((api, k.arg), k.arg)
                if X != want:
                    ctx.violation("R19.1", f"{mod}.{fn}:{api}:{k.arg}", fi.module, k.value,
                                  f"{site}: parameter {k.arg} receives the option {X} instead of {want}: the API runs with other settings than the ones given on the command line")
                    bad = True
                elif X not in dests:
                    ctx.violation("R19.1", f"{mod}.{fn}:{api}:{k.arg}:undefined-option", fi.module, k.value, f"{site}: args.{X} is not an option of the sub-command ({argfn})")
                    bad = True
            # completeness
            for p in params:
                d = RENAMES.get((api, p), p)
                if (d in dests or "no_" + (p[4:] if p.startswith("add_") else p) in dests) and p not in fed and (api, p) not in NOT_FORWARDED:
                    # positional use?
                    pos = [norm(a) for a in c.args]
                    if f"args.{d}" in pos:
                        continue
                    ctx.violation("R19.1", f"{mod}.{fn}:{api}:{p}:not-forwarded", fi.module, c,
                                  f"{site}: the sub-command defines the option {d} but the call does not forward it to {api}({p}=…): the option is silently ignored")
                    bad = True
            if not bad:
                ctx.ok()
            per_cmd.setdefault((mod, api), []).append(fed)
    for (mod, api), feds in per_cmd.items():
        if len(feds) > 1:
            ctx.instance("R19.1", f"{mod}: {len(feds)} call sites of {api} forward the same settings")
            if all(f == feds[0] for f in feds[1:]):
                ctx.ok()
            else:
                diff = sorted(set().union(*[set(f.items()) for f in feds]) - set.intersection(*[set(f.items()) for f in feds]))
                ctx.violation("R19.1", f"{mod}:{api}:siblings", f"{CLI}.{mod}", model.fi(f"{CLI}.{mod}", SITES[[s[0] for s in SITES].index(mod)][1]).node,
                              f"the call sites of {api} in cli/{mod}.py forward different settings: {diff}")
    if n_sites < 5:
        raise AnalysisError(f"R19.1: only {n_sites} CLI→API call sites found (floor 5)")
    # circuit --simulate: frequencies from the options, the circuit from the given code
    ss = model.fi(f"{CLI}.circuit", "simulate_spectra")
    sims = [c for c in calls_in(ss.node) if dotted(c.func) == "simulate_spectrum"]
    ctx.instance("R19.1", "circuit --simulate: simulate_spectrum(circuit of parse_circuits(args), _interpolate([max_frequency, min_frequency], num_per_decade))")
    loops = [n for n in walk_ordered(ss.node) if isinstance(n, ast.For) and norm(n.iter) == "parse_circuits(args)"]
    good = len(sims) >= 1 and len(loops) == 1 and norm(sims[0].args[0]) == norm(loops[0].target) \
        and norm(sims[0].args[1]).replace(" ", "").replace("\n", "") == "_interpolate([args.max_frequency,args.min_frequency],args.num_per_decade)" \
        and enclosing(sims[0], (ast.For,)) is loops[0]
    pc = model.fi(f"{CLI}.utility", "parse_circuits")
    try:
        # parse_circuits interpreted: every given code, in order, becomes parse_cdc(code); a <specifier> becomes the mock
        # circuits of that specifier, in their order
        from ..miniinterp import InterpRaise, Mini, module_globals

        class _Args:
            input = ["R(RC)", "<M1>", "RL", "<M2:noise=1>"]
        st_ = {"parse_cdc": lambda s_: ("parsed", s_), "get_mock_circuits": lambda spec: [("mock", spec, 0), ("mock", spec, 1)], "Circuit": None, "Namespace": None}
        g_ = module_globals(ctx.repo.modules[f"{CLI}.utility"].tree, st_)
        g_.update(st_)
        got_ = Mini(g_, max_steps=50000).call_function(pc.node, {pc.node.args.args[0].arg: _Args()})
        want_ = [("parsed", "R(RC)"), ("mock", "M1", 0), ("mock", "M1", 1), ("parsed", "RL"), ("mock", "M2:noise=1", 0), ("mock", "M2:noise=1", 1)]
        good = good and list(got_) == want_
    except InterpRaise:
        good = False
    except AnalysisError:
        t = norm(pc.node)
        good = good and "circuits.append(parse_cdc(cdc))" in t and "for i, cdc in enumerate(args.input)" in t
    if good:
        ctx.ok()
    else:
        ctx.violation("R19.1", "circuit.simulate_spectra:inputs", f"{CLI}.circuit", ss.node,
                      "circuit --simulate must simulate the circuit parsed from each given code over _interpolate([args.max_frequency, args.min_frequency], args.num_per_decade)")

    # ---------------- R19.2 ---------------------------------------------------------
    af = model.fi(f"{CLI}.utility", "apply_filters")
    pairs = {}
    for iff in [n for n in walk_ordered(af.node) if isinstance(n, ast.If)]:
        for c in [c for s in iff.body for c in calls_in(s)]:
            if isinstance(c.func, ast.Attribute) and norm(c.func.value) == "data" and c.func.attr in ("low_pass", "high_pass", "set_mask"):
                pairs[c.func.attr] = (norm(iff.test), norm(c.args[0]) if c.args else "")
    ctx.instance("R19.2", f"apply_filters: {pairs}")
    want = {"low_pass": ("args.low_pass_cutoff > 0.0", "args.low_pass_cutoff"), "high_pass": ("args.high_pass_cutoff > 0.0", "args.high_pass_cutoff"),
            "set_mask": ("len(args.exclude_indices) > 0", "{i: True for i in args.exclude_indices}")}
    if pairs == want:
        ctx.ok()
    else:
        ctx.violation("R19.2", "apply_filters:mapping", f"{CLI}.utility", af.node,
                      f"apply_filters must apply low_pass(args.low_pass_cutoff), high_pass(args.high_pass_cutoff) and mask exactly args.exclude_indices (found {pairs})")
    users = [("parse", "command"), ("fit", "command"), ("drt", "overlay_plot"), ("drt", "individual_plots"), ("zhit", "command"), ("test", "command"), ("plot", "command")]
    n_users = 0
    for mod, fn in users:
        fi = model.funcs.get(f"{CLI}.{mod}:{fn}")
        if fi is None:
            raise AnalysisError(f"cli/{mod}.py:{fn} vanished")
        outer = [n for n in walk_ordered(fi.node) if isinstance(n, ast.For) and norm(n.iter).endswith("all_data_sets.items()")]
        if not outer:
            if mod == "plot":
                continue
            raise AnalysisError(f"cli/{mod}.py:{fn}: loop over all_data_sets.items() not found")
        for o in outer:
            n_users += 1
            ds = norm(o.target.elts[1]) if isinstance(o.target, ast.Tuple) else None
            ctx.instance("R19.2", f"{mod}.{fn}: filters applied to every element of {ds} before it is used")
            pos = None
            for i, st in enumerate(o.body):
                if any(dotted(c.func) == "apply_filters" for c in calls_in(st, into_functions=True)) and ds and ds in norm(st) and "map(" in norm(st) and norm(st).startswith("list("):
                    pos = i
                    break
            first_use = None
            for i, st in enumerate(o.body):
                if isinstance(st, ast.For) and ds and ds in norm(st.iter):
                    first_use = i
                    break
            src_ok = True
            if "all_data_sets" not in [a.arg for a in fi.node.args.args]:
                asg = [n for n in walk_ordered(fi.node) if isinstance(n, (ast.Assign, ast.AnnAssign)) and n.value is not None
                       and norm(n.targets[0] if isinstance(n, ast.Assign) else n.target) == "all_data_sets"]
                src_ok = len(asg) == 1 and norm(asg[0].value) == "parse_inputs(args)"
            if pos is not None and first_use is not None and pos < first_use and src_ok:
                ctx.ok()
            else:
                ctx.violation("R19.2", f"{mod}.{fn}:filters", fi.module, o,
                              f"cli/{mod}.py:{fn}: the data sets of parse_inputs(args) must pass through apply_filters(_, args) before the per-data-set loop (filter at statement {pos}, first use at {first_use})")
    if n_users < 6:
        raise AnalysisError(f"R19.2: only {n_users} data-set loops found (floor 6)")
    # the API receives the loop element
    for mod, fn, api, _ in SITES[:4]:
        fi = model.fi(f"{CLI}.{mod}", fn)
        for c in [c for c in calls_in(fi.node) if dotted(c.func) == api]:
            lp = enclosing(c, (ast.For,))
            dv = None
            for k in (_expanded_keywords(fi.node, c) or c.keywords):
                if k.arg == "data":
                    dv = norm(k.value)
            if dv is None:
                cands = [norm(a) for a in c.args]
                dv = cands[0] if api != "fit_circuit" else (cands[1] if len(cands) > 1 else None)
            ctx.instance("R19.2", f"{mod}.{fn}: {api} receives {dv}")
            while lp is not None and not (isinstance(lp.target, ast.Tuple) and dv in [norm(e) for e in lp.target.elts] and "enumerate(data_sets)" == norm(lp.iter)):
                lp = enclosing(lp, (ast.For,))
            if lp is not None:
                ctx.ok()
            else:
                ctx.violation("R19.2", f"{mod}.{fn}:{api}:data", fi.module, c, f"cli/{mod}.py:{fn}: {api} must receive the element of enumerate(data_sets) (found {dv})")
    # mock specifiers
    pi = model.fi(f"{CLI}.utility", "_parse_identity")
    # the conversion table is whatever mapping the store `kwargs[key] = T[key](value)` applies, local or module-level
    st_kw = [n for n in walk_ordered(pi.node) if isinstance(n, ast.Assign) and isinstance(n.targets[0], ast.Subscript) and norm(n.targets[0].value) == "kwargs"
             and isinstance(n.value, ast.Call) and isinstance(n.value.func, ast.Subscript) and len(n.value.args) == 1]
    if len(st_kw) != 1:
        raise AnalysisError("_parse_identity: the store kwargs[key] = <table>[key](value) was not found")
    keyvar = norm(st_kw[0].targets[0].slice)
    tname = norm(st_kw[0].value.func.value)
    same_key = norm(st_kw[0].value.func.slice) == keyvar
    from ..elements import module_consts
    tdef = [n.value for n in walk_ordered(pi.node) if isinstance(n, (ast.Assign, ast.AnnAssign)) and n.value is not None and norm(n.targets[0] if isinstance(n, ast.Assign) else n.target) == tname]
    if not tdef and tname in module_consts(ctx.repo, f"{CLI}.utility"):
        tdef = [module_consts(ctx.repo, f"{CLI}.utility")[tname]]
    if len(tdef) != 1 or not isinstance(tdef[0], ast.Dict):
        raise AnalysisError(f"_parse_identity: conversion table {tname} is not one dictionary display")
    kt = [st_kw[0]]
    table = {k.value: norm(v) for k, v in zip(tdef[0].keys, tdef[0].values)}
    sim = model.fi("pyimpspec.mock_data", "_simulate_spectrum")
    reads: Dict[str, str] = {}
    for c in calls_in(sim.node):
        if norm(c.func) == "kwargs.get" and c.args and isinstance(c.args[0], ast.Constant):
            st = stmt_of(c)
            ann = norm(st.annotation) if isinstance(st, ast.AnnAssign) else "?"
            reads[c.args[0].value] = ann
    # keys consumed by MockDefinition.generate_circuit(**kwargs) (drift)
    for q, f in model.funcs.items():
        if q.startswith("pyimpspec.mock_data:") and f.node.args.kwarg is not None and f.qual != "_simulate_spectrum" and f.qual != "generate_mock_data" and f.qual != "generate_mock_circuits":
            for c in calls_in(f.node, into_functions=True):
                if norm(c.func) == "kwargs.get" and c.args and isinstance(c.args[0], ast.Constant):
                    reads.setdefault(c.args[0].value, "float")
    ctx.instance("R19.2", f"mock specifier keys {sorted(table)} are the keyword arguments generate_mock_data reads {sorted(reads)}, with the same types")
    miss = [k for k in table if k not in reads]
    wrong = [k for k in table if k in reads and reads[k] not in ("?", table[k])]
    assign_ok = same_key and norm(st_kw[0].value.args[0]) == "value"
    # the key/value come from splitting each comma-separated item of the text after the last ':' at '='
    unp = [n for n in walk_ordered(pi.node) if isinstance(n, ast.Assign) and isinstance(n.targets[0], ast.Tuple) and [norm(e) for e in n.targets[0].elts] == [keyvar, "value"]]
    split_ok = len(unp) == 1 and isinstance(unp[0].value, ast.Call) and isinstance(unp[0].value.func, ast.Attribute) and unp[0].value.func.attr in ("split", "partition") \
        and unp[0].value.args and norm(unp[0].value.args[0]) == "'='" and "identity[i + 1:].split(',')" in norm(pi.node)
    guard_ok = any(isinstance(n, ast.If) and norm(n.test) in (f"{keyvar} in {tname}", f"{keyvar} not in {tname}") for n in walk_ordered(pi.node))
    split_ok = split_ok and guard_ok
    if not miss and not wrong and assign_ok and split_ok:
        ctx.ok()
    else:
        ctx.violation("R19.2", "_parse_identity:keys", f"{CLI}.utility", pi.node,
                      f"mock specifier keys must be forwarded under the same name and type generate_mock_data reads (unknown {miss}, type mismatch {wrong}, assignment {assign_ok}, split {split_ok})")
    for fn, api in (("get_mock_data", "generate_mock_data"), ("get_mock_circuits", "generate_mock_circuits")):
        g = model.fi(f"{CLI}.utility", fn)
        t = norm(g.node)
        ctx.instance("R19.2", f"{fn}: {api}(identity, **kwargs) of _parse_identity(identity)")
        if "identity, kwargs = _parse_identity(identity)" in t and f"return {api}(identity, **kwargs)" in t:
            ctx.ok()
        else:
            ctx.violation("R19.2", f"{fn}:forwarding", f"{CLI}.utility", g.node, f"{fn} must return {api}(identity, **kwargs) with both parts from _parse_identity")
    pin = model.fi(f"{CLI}.utility", "parse_inputs")
    t = norm(pin.node)
    ctx.instance("R19.2", "parse_inputs: '<…>' → get_mock_data(path[1:-1]); otherwise parse_data(path) (optionally the selected sweeps)")
    if "get_mock_data(path[1:-1])" in t and "all_data_sets[path] = parse_data(path)" in t and "if i in args.nth_data_set" in t and "enumerate(parse_data(path))" in t:
        ctx.ok()
    else:
        ctx.violation("R19.2", "parse_inputs:sources", f"{CLI}.utility", pin.node, "parse_inputs must read '<…>' through get_mock_data and files through parse_data(path)")

    # ---------------- R19.3 / R19.4 ----------------------------------------------------
    producers = {"fit_circuit", "calculate_drt", "perform_zhit", "perform_kramers_kronig_test", "exploratory_tests", "perform_exploratory_kramers_kronig_tests"}
    n_tables = 0
    n_emit = 0
    for mod in ("parse", "circuit", "fit", "drt", "zhit", "test"):
        m = ctx.repo.modules[f"{CLI}.{mod}"]
        for q, fi in sorted(model.funcs.items()):
            if fi.module != f"{CLI}.{mod}" or "." in fi.qual:
                continue
            fts = [c for c in calls_in(fi.node) if dotted(c.func) == "format_text"]
            if not fts:
                continue
            for c in fts:
                n_tables += 1
                a0 = c.args[0] if c.args else None
                ctx.instance("R19.3", f"{mod}.{fi.qual}: format_text({norm(a0)[:70]}, …)")
                if isinstance(a0, ast.Name):
                    # the loop variable of `for df in (p.to_…dataframe() for p in <derived>)`
                    fl = [n for n in walk_ordered(fi.node) if isinstance(n, ast.For) and norm(n.target) == a0.id and isinstance(n.iter, ast.GeneratorExp)]
                    if len(fl) == 1 and isinstance(fl[0].iter.elt, ast.Call) and isinstance(fl[0].iter.elt.func, ast.Attribute) and fl[0].iter.elt.func.attr.endswith("dataframe") \
                            and norm(fl[0].iter.elt.func.value) == norm(fl[0].iter.generators[0].target):
                        ok, why = _derived(fi.node, norm(fl[0].iter.generators[0].iter), producers, 0)
                        if ok:
                            ctx.ok()
                            continue
                if not (isinstance(a0, ast.Call) and isinstance(a0.func, ast.Attribute) and a0.func.attr.startswith("to_") and a0.func.attr.endswith("dataframe")) or norm(c.args[1]) != "args":
                    ctx.violation("R19.3", f"{mod}.{fi.qual}:table-source", fi.module, c, f"cli/{mod}.py:{fi.qual}: the emitted table must be format_text(<value>.to_…dataframe(…), args), found {norm(c)[:120]}")
                    continue
                root = a0.func.value
                while isinstance(root, (ast.Subscript, ast.Attribute)):
                    root = root.value
                rn = norm(root)
                ok, why = _derived(fi.node, rn, producers, 0)
                if ok:
                    ctx.ok()
                else:
                    ctx.violation("R19.3", f"{mod}.{fi.qual}:{rn}:provenance", fi.module, c, f"cli/{mod}.py:{fi.qual}: {why}")
            # emission
            cfg = CFG(fi.node)
            for st in [n for n in walk_ordered(fi.node) if isinstance(n, (ast.Assign, ast.AnnAssign)) and n.value is not None
                       and isinstance((n.targets[0] if isinstance(n, ast.Assign) else n.target), ast.Name)
                       and any(dotted(c.func) == "format_text" for c in calls_in(n.value))]:
                V = (st.targets[0] if isinstance(st, ast.Assign) else st.target).id
                n_emit += 1
                ctx.instance("R19.4", f"{mod}.{fi.qual}: {V} (line {st.lineno}) reaches print_func or write on every path")

                # names the text flows into (report = f"…{V}…", fragments.append(V) …): emitting one of them emits V
                carriers = {V}
                for _ in range(4):
                    for a_ in [n for n in walk_ordered(fi.node) if isinstance(n, (ast.Assign, ast.AnnAssign, ast.AugAssign)) and getattr(n, "value", None) is not None]:
                        if any(isinstance(x, ast.Name) and x.id in carriers for x in ast.walk(a_.value)):
                            t_ = a_.targets[0] if isinstance(a_, ast.Assign) else a_.target
                            if isinstance(t_, ast.Name):
                                carriers.add(t_.id)
                    for c_ in calls_in(fi.node):
                        if isinstance(c_.func, ast.Attribute) and c_.func.attr in ("append", "extend") and isinstance(c_.func.value, ast.Name) \
                                and any(isinstance(x, ast.Name) and x.id in carriers for a in c_.args for x in ast.walk(a)):
                            carriers.add(c_.func.value.id)

                def emits(nd, V=V, carriers=frozenset(carriers)) -> bool:
                    e = own_expr(nd)
                    if e is None:
                        return False
                    if isinstance(getattr(nd, "ast", None), ast.Return) and fi.node.name.startswith("_") and any(isinstance(x, ast.Name) and x.id in carriers for x in ast.walk(e)):
                        return True  # a private helper hands the text back to the command function that emits it
                    for c in calls_in(e):
                        f = norm(c.func)
                        if (f == "print_func" or f.endswith(".write") or f == "print") and any(isinstance(x, ast.Name) and x.id in carriers for a in c.args for x in ast.walk(a)):
                            return True
                    return False
                lp = enclosing(st, (ast.For, ast.While))
                target = cfg.node_of(lp).id if lp is not None else cfg.exit.id
                start = cfg.node_of(st).id
                # leave from the successors of the assignment
                held = all(cfg.must_pass(target, emits, start=s) for s, _ in cfg.succ[start])
                if held:
                    ctx.ok()
                else:
                    ctx.violation("R19.4", f"{mod}.{fi.qual}:{V}:not-emitted", fi.module, st,
                                  f"cli/{mod}.py:{fi.qual}: there is a path on which the text {V} is neither printed nor written (e.g. no --output and a non-interactive matplotlib backend): the command computes the result and reports nothing")
    if n_tables < 10 or n_emit < 5:
        raise AnalysisError(f"R19.3/4: only {n_tables} tables / {n_emit} emitted texts found (floors 10 / 5)")
    # fit: refinement restarts from the previous result; every data set starts from the circuit given on the command line
    fc = model.fi(f"{CLI}.fit", "command")
    calls = [c for c in calls_in(fc.node) if dotted(c.func) == "fit_circuit"]
    ctx.instance("R19.3", "fit: starts from parse_cdc(args.circuit); refinements restart from the previous result's circuit; the last result is reported")
    cd = [n for n in walk_ordered(fc.node) if isinstance(n, (ast.Assign, ast.AnnAssign)) and n.value is not None and norm(n.targets[0] if isinstance(n, ast.Assign) else n.target) == "circuit"]
    from_cli = [n for n in cd if norm(n.value) == "parse_cdc(args.circuit)"]
    all_fit = all(isinstance(parent(c), (ast.Assign, ast.AnnAssign)) and norm(parent(c).targets[0] if isinstance(parent(c), ast.Assign) else parent(c).target) == "fit" for c in calls)
    good = False
    if len(calls) == 2:
        lp = enclosing(calls[1], (ast.For,))
        good = norm(calls[0].args[0]) == "circuit" and norm(calls[1].args[0]) == "fit.circuit" and all_fit and lp is not None and norm(lp.iter) == "range(0, args.num_refinements)" \
            and enclosing(calls[0], (ast.For,)) is enclosing(lp, (ast.For,)) and len(cd) == 1 and len(from_cli) == 1
    elif len(calls) == 1 and isinstance(calls[0].args[0], ast.Name):
        # merged form: one call in a loop of num_refinements + 1 passes whose start value is re-bound from fit.circuit at the end of each pass
        lp = enclosing(calls[0], (ast.For,))
        X = calls[0].args[0].id
        reb = [n for n in (lp.body if lp is not None else []) if isinstance(n, (ast.Assign, ast.AnnAssign)) and n.value is not None
               and norm(n.targets[0] if isinstance(n, ast.Assign) else n.target) == X and norm(n.value) == "fit.circuit"]
        good = lp is not None and "args.num_refinements" in norm(lp.iter) and "+ 1" in norm(lp.iter) and all_fit and len(reb) == 1 and len(from_cli) == 1
    if good:
        ctx.ok()
    else:
        ctx.violation("R19.3", "fit.command:refinement", f"{CLI}.fit", fc.node, "fit must start from parse_cdc(args.circuit), refine args.num_refinements times from the previous result's circuit and report the last result")
    # per-data-set independence: nothing computed for one data set feeds the API call of the next
    n_dep = 0
    for mod, fn, api, _ in SITES[:4]:
        fi = model.fi(f"{CLI}.{mod}", fn)
        cfg = CFG(fi.node)
        for c in [c for c in calls_in(fi.node) if dotted(c.func) == api]:
            loops = []
            lp = enclosing(c, (ast.For,))
            while lp is not None:
                if "data_sets" in norm(lp.iter):
                    loops.append(lp)
                lp = enclosing(lp, (ast.For,))
            if not loops:
                raise AnalysisError(f"cli/{mod}.py:{fn}: the {api} call is not inside a loop over the data sets")
            use = cfg.node_of(stmt_of(c))
            names = sorted({x.id for a in list(c.args) + [k.value for k in c.keywords] for x in ast.walk(a) if isinstance(x, ast.Name) and x.id != "args"})
            for L in loops:
                inside = {id(x) for x in walk_ordered(L)}
                for N in names:
                    if any(isinstance(x, ast.Name) and x.id == N for x in ast.walk(L.target)):
                        continue
                    defs = [cfg.node_of(stmt_of(x)).id for x in walk_ordered(L) if isinstance(x, ast.Name) and x.id == N and isinstance(x.ctx, ast.Store) and id(x) in inside
                            and not isinstance(stmt_of(x), (ast.For,))]
                    if not defs:
                        continue
                    n_dep += 1
                    head = cfg.node_of(L).id
                    # is the use reachable from the loop header without passing a definition of N (upward-exposed use)?
                    exposed = use.id in cfg.reachable_from(head, blocked=frozenset(d for d in defs if d != use.id))
                    ctx.instance("R19.3", f"{mod}.{fn}: {N} handed to {api} is (re)computed for each element of {norm(L.iter)}")
                    if exposed:
                        ctx.violation("R19.3", f"{mod}.{fn}:{api}:{N}:carried-over", fi.module, c,
                                      f"cli/{mod}.py:{fn}: {N} is re-bound inside the loop over {norm(L.iter)} and reaches {api} of the next data set: later data sets are processed with state left by earlier ones instead of the command-line input")
                    else:
                        ctx.ok()
    ctx.note(f"per-data-set independence: {n_dep} (name, loop) pairs with a definition inside a data-set loop examined")
    from ..effects import stateless_rule
    ctx.instance("R19.2", "input helpers keep no state between commands")
    ctx.ok()
    stateless_rule(ctx, model, "R19.2", (f"{CLI}.utility", f"{CLI}.parse", f"{CLI}.fit", f"{CLI}.drt"), 20,
                   "a later command in the same process gets data sets or settings left behind by an earlier one (mutable DataSet objects handed out twice)",
                   allowed={(f"{CLI}.utility", "COLORS"): "plot colour cycle", (f"{CLI}.utility", "MARKERS"): "plot marker cycle"})

    # ---------------- R19.5 ---------------------------------------------------------
    ft = model.fi(f"{CLI}.utility", "format_text")
    disp: Dict[str, List[str]] = {}
    for iff in [n for n in walk_ordered(ft.node) if isinstance(n, ast.If)]:
        t = iff.test
        if isinstance(t, ast.Compare) and norm(t.left) == "output_extension" and isinstance(t.comparators[0], ast.Constant):
            ws = []
            for s in iff.body:
                for c in calls_in(s):
                    if isinstance(c.func, ast.Attribute) and c.func.attr.startswith("to_"):
                        recv = norm(c.func.value)
                        if recv in ("df.style", "df.style.hide(axis='index')"):
                            recv = "df"  # pandas Styler of the same frame (tex only), index shown or hidden
                        ws.append(f"{recv}.{c.func.attr}")
            disp[t.comparators[0].value] = sorted(set(ws))
    ctx.instance("R19.5", f"format_text dispatch {disp}")
    want = {"csv": ["df.to_csv"], "tex": ["df.to_latex"], "md": ["df.to_markdown"], "json": ["df.to_json"]}
    ext = [n for n in walk_ordered(ft.node) if isinstance(n, (ast.Assign, ast.AnnAssign)) and n.value is not None and norm(n.targets[0] if isinstance(n, ast.Assign) else n.target) == "output_extension"]
    rebound = [n for n in walk_ordered(ft.node) if isinstance(n, ast.Name) and n.id == "df" and isinstance(n.ctx, ast.Store)]
    if disp == want and len(ext) == 1 and norm(ext[0].value) == "get_text_extension(args.output_format)" and not rebound:
        ctx.ok()
    else:
        ctx.violation("R19.5", "format_text:dispatch", f"{CLI}.utility", ft.node, f"format_text must write csv/tex/md/json with to_csv/to_latex/to_markdown/to_json of the frame it was given (found {disp})")
    ge = model.fi(f"{CLI}.utility", "get_text_extension")
    d = [n for n in walk_ordered(ge.node) if isinstance(n, ast.Dict)]
    if not d:
        # the alias table may be a module-level constant: the mapping whose .get(fmt, fmt) is taken
        from ..elements import module_consts as _mc
        for c_ in calls_in(ge.node):
            if isinstance(c_.func, ast.Attribute) and c_.func.attr == "get" and isinstance(c_.func.value, ast.Name):
                tv = _mc(ctx.repo, f"{CLI}.utility").get(c_.func.value.id)
                if isinstance(tv, ast.Dict):
                    d = [tv]
    ctx.instance("R19.5", "format aliases latex→tex, markdown→md, others unchanged")
    if len(d) == 1 and {k.value: v.value for k, v in zip(d[0].keys, d[0].values)} == {"latex": "tex", "markdown": "md"} and ".get(fmt, fmt)" in norm(ge.node):
        ctx.ok()
    else:
        ctx.violation("R19.5", "get_text_extension:aliases", f"{CLI}.utility", ge.node, "format aliases must map latex→tex, markdown→md and leave other names unchanged")
    mn = model.fi(CLI, "main")
    tab = [n for n in walk_ordered(mn.node) if isinstance(n, ast.Dict) and len(n.keys) >= 7]
    if len(tab) != 1:
        raise AnalysisError("cli.main: command table not found")
    imports = {}
    for n in walk_ordered(mn.node):
        if isinstance(n, ast.ImportFrom) and n.level == 1:
            for a in n.names:
                imports[a.asname or a.name] = (n.module, a.name)
    for n in ctx.repo.modules[CLI].tree.body:
        if isinstance(n, ast.ImportFrom) and n.level == 1:
            for a in n.names:
                imports[a.asname or a.name] = (n.module, a.name)
    special = {"show": "license"}
    for k, v in zip(tab[0].keys, tab[0].values):
        name = k.value
        ctx.instance("R19.5", f"sub-command {name} → {norm(v)}")
        src = imports.get(norm(v))
        if src and src[0] == special.get(name, name) and src[1] == "command":
            ctx.ok()
        else:
            ctx.violation("R19.5", f"main:{name}", CLI, v, f"the sub-command {name} is dispatched to {src} instead of cli/{special.get(name, name)}.py:command")
    ctx.sample({"call_sites": n_sites, "tables": n_tables, "emitted_texts": n_emit})
