"""C20: the CircuiTikZ layout code interpreted (sa.miniinterp, on the AST of to_circuitikz with all its nested functions) on
every circuit topology up to a bound.

The circuit data structure is a stand-in written from base.py's documented behaviour (children list, iteration,
contains(top_level), running / per-type identifiers, symbol, label); the layout code itself — coordinate book-keeping,
kind dispatch, wire extension, component naming, framing — is the repository's, statement by statement.

For every topology the export must (a) not raise, (b) be framed by exactly one begin/end pair, (c) contain one
component per element, named <symbol>_{\\rm <label or identifier>} of that very element."""
from __future__ import annotations

import itertools
from typing import Any, Dict, List, Optional, Tuple

from ..core import AnalysisError
from ..miniinterp import InterpRaise, Mini, module_globals

MOD = "pyimpspec.circuit.diagrams.circuitikz"


class Element:
    _symbol = "X"

    def __init__(self, label: str = ""):
        self._label = label

    @classmethod
    def get_symbol(cls):
        return cls._symbol

    def get_label(self):
        return self._label

    def get_name(self):
        return self._symbol


class Resistor(Element):
    _symbol = "R"


class Capacitor(Element):
    _symbol = "C"


class Inductor(Element):
    _symbol = "L"


class ModifiedInductor(Element):
    _symbol = "La"


class ConstantPhaseElement(Element):
    _symbol = "Q"


class Warburg(Element):
    _symbol = "W"


class Connection:
    def __init__(self, elements):
        self._elements = list(elements)

    def __iter__(self):
        return iter(self._elements)

    def __len__(self):
        return len(self._elements)

    def __contains__(self, item):
        return any(x is item or (isinstance(x, Connection) and item in x) for x in self._elements)

    def contains(self, item, top_level: bool = False):
        if top_level:
            return any(x is item for x in self._elements)
        return item in self

    def get_elements(self, recursive: bool = True):
        out: List[Element] = []
        for x in self._elements:
            if isinstance(x, Connection):
                if recursive:
                    out += x.get_elements(True)
            else:
                out.append(x)
        return out

    def get_connections(self, recursive: bool = True):
        out = []
        for x in self._elements:
            if isinstance(x, Connection):
                out.append(x)
                if recursive:
                    out += x.get_connections(True)
        return out

    def generate_element_identifiers(self, running: bool):
        els = self.get_elements(True)
        if running:
            return {e: i for i, e in enumerate(els)}
        counts: Dict[str, int] = {}
        out = {}
        for e in els:
            counts[e.get_symbol()] = counts.get(e.get_symbol(), 0) + 1
            out[e] = counts[e.get_symbol()]
        return out


class Series(Connection):
    pass


class Parallel(Connection):
    pass


class Circuit:
    def __init__(self, series: Series):
        self._elements = series

    def get_connections(self, recursive: bool = True):
        return [self._elements] + (self._elements.get_connections(True) if recursive else [])

    def generate_element_identifiers(self, running: bool):
        return self._elements.generate_element_identifiers(running)

    def get_elements(self, recursive: bool = True):
        return self._elements.get_elements(recursive)


# ---------------------------------------------------------------------------------------------

def shapes(budget: int, max_children: int = 3, well_formed: bool = False):
    """All connection trees ('S'|'P', children) / 'E' with at most `budget` nodes; well_formed: every parallel has at least
    two children and every series at least one (what the parser can produce, plus parallels nested directly in parallels
    and series in series, which only the API can build)."""
    memo: Dict[int, List[Any]] = {}

    def trees(n: int) -> List[Any]:
        if n in memo:
            return memo[n]
        out: List[Any] = []
        if n == 1:
            out.append("E")
        for kind in ("S", "P"):
            # n-1 nodes distributed over 0..max_children children
            for k in range((2 if kind == "P" else 1) if well_formed else 0, max_children + 1):
                for parts in _compositions(n - 1, k):
                    for combo in itertools.product(*[trees(p) for p in parts]):
                        out.append((kind, list(combo)))
        memo[n] = out
        return out

    def _compositions(total: int, k: int):
        if k == 0:
            if total == 0:
                yield ()
            return
        for first in range(1, total - (k - 1) + 1):
            for rest in _compositions(total - first, k - 1):
                yield (first,) + rest
    res = []
    for n in range(1, budget + 1):
        for t in trees(n):
            if t != "E" and t[0] == "S":
                res.append(t)
    return res


def build(shape, counter=None, labelled: bool = False):
    counter = counter if counter is not None else [0]
    if shape == "E":
        cls = (Resistor, Capacitor, Warburg, Resistor, ConstantPhaseElement)[counter[0] % 5]
        counter[0] += 1
        return cls("x" if labelled and counter[0] == 1 else "")
    kind, kids = shape
    return (Series if kind == "S" else Parallel)([build(k, counter, labelled) for k in kids])


def describe(shape) -> str:
    if shape == "E":
        return "E"
    return ("[" if shape[0] == "S" else "(") + "".join(describe(k) for k in shape[1]) + ("]" if shape[0] == "S" else ")")


def empty_connection(shape) -> bool:
    if shape == "E":
        return False
    return len(shape[1]) == 0 or any(empty_connection(k) for k in shape[1])


def small_parallel(shape) -> bool:
    if shape == "E":
        return False
    return (shape[0] == "P" and len(shape[1]) < 2) or any(small_parallel(k) for k in shape[1])


def run(ctx, model, budget: int, budget_well_formed: int = 0) -> Dict[str, Any]:
    fi = model.fi(MOD, "to_circuitikz")
    st = {"Connection": Connection, "Element": Element, "Series": Series, "Parallel": Parallel, "Resistor": Resistor, "Capacitor": Capacitor,
          "Inductor": Inductor, "ModifiedInductor": ModifiedInductor, "ConstantPhaseElement": ConstantPhaseElement,
          "_is_floating": lambda x: isinstance(x, float), "Dict": None, "List": None, "Optional": None, "Tuple": None, "Type": None, "Union": None}
    g = module_globals(ctx.repo.modules[MOD].tree, st)
    g.update(st)
    out: Dict[str, Any] = {"n": 0, "raises_small": [], "raises_other": [], "framing": [], "components": [], "naming": []}
    todo = shapes(budget)
    seen = {describe(t) for t in todo}
    todo += [t for t in shapes(budget_well_formed, well_formed=True) if describe(t) not in seen]
    for shape in todo:
        for as_circuit, running, labelled in ((True, False, False), (False, True, True)):
            top = build(shape, None, labelled)
            me = Circuit(top) if as_circuit else top
            out["n"] += 1
            d = describe(shape) + ("" if as_circuit else " (as a bare connection, running identifiers)")
            try:
                src = Mini(g, max_steps=400000).call_function(fi.node, {fi.node.args.args[0].arg: me, "running": running})
            except InterpRaise as e:
                (out["raises_small"] if small_parallel(shape) else out["raises_other"]).append((d, f"{e.kind}: {e.message[:70]}"))
                continue
            if not isinstance(src, str):
                out["framing"].append((d, f"returns {type(src).__name__}"))
                continue
            lines = [l.strip() for l in src.split("\n")]
            if not (lines and lines[0] == "\\begin{circuitikz}" and lines[-1] == "\\end{circuitikz}" and src.count("\\begin{circuitikz}") == 1 and src.count("\\end{circuitikz}") == 1):
                out["framing"].append((d, "not framed by exactly one \\begin{circuitikz} … \\end{circuitikz} pair"))
            els = top.get_elements(True)
            ids = top.generate_element_identifiers(running)
            comps = [l for l in lines if "=$" in l]
            if len(comps) != len(els):
                out["components"].append((d, f"{len(comps)} components drawn for {len(els)} elements"))
                continue
            for e in els:
                name = f"{e.get_symbol()}_{{\\rm {e.get_label() or ids[e]}}}"
                if sum(1 for l in comps if f"=${name}$" in l) != 1:
                    out["naming"].append((d, f"no component (or more than one) named {name}"))
                    break
    return out


# ---------------------------------------------------------------------------------------------
# schemdraw exporter: the library is replaced by a recorder (what is added, labelled, pushed and popped)

class _SdElement:
    def __init__(self, kind, **kw):
        self.kind, self.kw, self.lbl = kind, kw, None

    def label(self, text, *a, **k):
        self.lbl = text
        return self

    def right(self, *a, **k):
        return self

    def left(self, *a, **k):
        return self

    def up(self, *a, **k):
        return self

    def down(self, *a, **k):
        return self


class _SdElements:
    def __getattr__(self, name):
        if name.startswith("__"):
            raise AttributeError(name)
        return lambda *a, **kw: _SdElement(name, **kw)


class _SdDrawing:
    def __init__(self, *a, **kw):
        self.added: List[_SdElement] = []
        self.depth = 0
        self.max_depth = 0
        self.underflow = False

    def config(self, *a, **k):
        return None

    def add(self, e):
        self.added.append(e)
        return e

    def push(self):
        self.depth += 1
        self.max_depth = max(self.max_depth, self.depth)

    def pop(self):
        if self.depth == 0:
            self.underflow = True
        else:
            self.depth -= 1


SD = "pyimpspec.circuit.diagrams.schemdraw"


def run_drawing(ctx, model, budget: int, budget_well_formed: int = 0) -> Dict[str, Any]:
    fi = model.fi(SD, "to_drawing")
    st = {"Connection": Connection, "Element": Element, "Series": Series, "Parallel": Parallel, "Resistor": Resistor, "Capacitor": Capacitor,
          "Inductor": Inductor, "ModifiedInductor": ModifiedInductor, "ConstantPhaseElement": ConstantPhaseElement, "Drawing": _SdDrawing, "elm": _SdElements(),
          "_is_floating": lambda x: isinstance(x, float), "Dict": None, "List": None, "Optional": None, "Tuple": None, "Type": None, "Union": None}
    g = module_globals(ctx.repo.modules[SD].tree, st)
    g.update(st)
    out: Dict[str, Any] = {"n": 0, "raises_empty": [], "raises_other": [], "stack": [], "components": [], "naming": []}
    todo = shapes(budget)
    seen = {describe(t) for t in todo}
    todo += [t for t in shapes(budget_well_formed, well_formed=True) if describe(t) not in seen]
    for shape in todo:
        for as_circuit, running, labelled in ((True, False, False), (False, True, True)):
            top = build(shape, None, labelled)
            me = Circuit(top) if as_circuit else top
            out["n"] += 1
            d = describe(shape) + ("" if as_circuit else " (as a bare connection, running identifiers)")
            try:
                dr = Mini(g, max_steps=400000).call_function(fi.node, {fi.node.args.args[0].arg: me, "running": running})
            except InterpRaise as e:
                (out["raises_empty"] if empty_connection(shape) else out["raises_other"]).append((d, f"{e.kind}: {e.message[:70]}"))
                continue
            if not isinstance(dr, _SdDrawing):
                out["components"].append((d, f"returns {type(dr).__name__} instead of the drawing"))
                continue
            if dr.underflow or dr.depth != 0:
                out["stack"].append((d, "pop without a matching push" if dr.underflow else f"{dr.depth} push(es) never popped"))
            els = top.get_elements(True)
            ids = top.generate_element_identifiers(running)
            comps = [e for e in dr.added if e.lbl is not None and e.kind not in ("Dot", "Line")]
            if len(comps) != len(els):
                out["components"].append((d, f"{len(comps)} labelled components drawn for {len(els)} elements"))
                continue
            for e in els:
                name = f"${e.get_symbol()}_{{\\rm {e.get_label() or ids[e]}}}$"
                if sum(1 for c in comps if c.lbl == name) != 1:
                    out["naming"].append((d, f"no component (or more than one) labelled {name}"))
                    break
    return out
