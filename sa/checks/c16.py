"""C16 — element names and identifiers are unique and used consistently."""
from __future__ import annotations

import ast
from typing import Dict, List, Optional, Tuple

from ..core import AnalysisError, Ctx, calls_in, dotted, enclosing, enclosing_function_name, norm, parent, walk_ordered
from ..model import get_model

LEVEL = "other"
BASE = "pyimpspec.circuit.base"
FIT = "pyimpspec.analysis.fitting"

# function → expected `running` arguments of its generate_element_identifiers calls, in source order.
# 'param' = forwards its own `running` parameter.  Confirmed by reading; one line of reason each.
EXPECTED: Dict[str, List[object]] = {
    "pyimpspec.circuit.base:Connection.get_element_name": [False],  # display names: per-type count
    "pyimpspec.circuit.base:Container.to_sympy": [False],  # stand-alone container: display numbering
    "pyimpspec.circuit.series:Series.to_sympy": [False],  # stand-alone connection: display numbering
    "pyimpspec.circuit.parallel:Parallel.to_sympy": [False],
    "pyimpspec.circuit.circuit:Circuit.generate_element_identifiers": ["param"],
    "pyimpspec.circuit.circuit:Circuit.to_sympy": [True],  # symbol names must equal the fit identifiers (running)
    "pyimpspec.circuit.diagrams.schemdraw:to_drawing": ["param"],
    "pyimpspec.circuit.diagrams.circuitikz:to_circuitikz": ["param"],
    "pyimpspec.analysis.fitting:FitResult.to_parameters_dataframe": [True, False],  # internal, external
    "pyimpspec.analysis.fitting:_extract_parameters": [True, False],  # internal (suffix matching), external (names)
    "pyimpspec.analysis.fitting:validate_circuit": [False],  # names as the user sees them
    "pyimpspec.analysis.fitting:generate_fit_identifiers": [True],  # must equal Circuit.to_sympy's numbering
}


def fshape(node: ast.AST) -> Optional[List[str]]:
    """Shape of an f-string / concatenation: constants verbatim, placeholders as {expr}."""
    if isinstance(node, ast.JoinedStr):
        out = []
        for v in node.values:
            if isinstance(v, ast.Constant):
                out.append(str(v.value))
            elif isinstance(v, ast.FormattedValue):
                out.append("{" + norm(v.value) + "}")
        return out
    if isinstance(node, ast.BinOp) and isinstance(node.op, ast.Add):
        a, b = fshape(node.left), fshape(node.right)
        if a is not None and b is not None:
            return a + b
    if isinstance(node, ast.Constant) and isinstance(node.value, str):
        return [node.value]
    return None


def check(ctx: Ctx) -> None:
    model = get_model(ctx.repo)
    ctx.modules_consulted.update({BASE, FIT, "pyimpspec.circuit.circuit", "pyimpspec.circuit.series", "pyimpspec.circuit.parallel",
                                  "pyimpspec.circuit.diagrams.circuitikz", "pyimpspec.circuit.diagrams.schemdraw",
                                  "pyimpspec.analysis.kramers_kronig.cnls"})
    ctx.rule("R16.1", "one source of identifiers: every numbering of elements comes from generate_element_identifiers / generate_fit_identifiers with an explicit running flag")
    ctx.rule("R16.2", "running-flag agreement: symbolic variables, fit identifiers and the suffix reader use running=True; display names use running=False unless the caller passes running")
    ctx.rule("R16.3", "format agreement between writers (to_sympy, generate_fit_identifiers) and the reader (_extract_parameters): same separator, same element-name rule as get_element_name")
    ctx.rule("R16.4", "numbering: running ids enumerate one duplicate-free traversal; per-type counts start at 1; Container and Connection versions agree; duplicates rejected before any fit")

    # ---------------- R16.1 / R16.2 -------------------------------------------------
    found: Dict[str, List[Tuple[ast.Call, object]]] = {}
    for q, fi in model.funcs.items():
        if "." in fi.qual and fi.qual.split(".")[-1] != fi.node.name:
            continue
        for c in calls_in(fi.node):
            if isinstance(c.func, ast.Attribute) and c.func.attr == "generate_element_identifiers":
                # nested helper functions report under their outermost function
                flag: object = "<missing>"
                arg = None
                for k in c.keywords:
                    if k.arg == "running":
                        arg = k.value
                if arg is None and c.args:
                    arg = c.args[0]
                if isinstance(arg, ast.Constant) and isinstance(arg.value, bool):
                    flag = arg.value
                elif isinstance(arg, ast.Name) and arg.id == "running":
                    flag = "param"
                elif arg is not None:
                    flag = norm(arg)
                outer = q
                found.setdefault(outer, []).append((c, flag))
    n_sites = sum(len(v) for v in found.values())
    if n_sites < 12:
        raise AnalysisError(f"R16.1: only {n_sites} identifier use sites found (floor 12)")
    for q, sites in sorted(found.items()):
        fi = model.funcs[q]
        flags = [f for _, f in sites]
        ctx.instance("R16.1", f"{q.split(':')[1]}: running={flags}")
        if any(f == "<missing>" for f in flags):
            ctx.violation("R16.1", f"{q}:running-missing", fi.module, sites[0][0], f"{q} calls generate_element_identifiers without a running flag")
        else:
            ctx.ok()
        if q in EXPECTED:
            ctx.instance("R16.2", f"{q.split(':')[1]}: expected {EXPECTED[q]}")
            if flags == EXPECTED[q]:
                ctx.ok()
            else:
                ctx.violation("R16.2", f"{q}:running-flag", fi.module, sites[0][0],
                              f"{q} numbers elements with running={flags}, expected {EXPECTED[q]}: names/identifiers would denote different elements than in the other views")
        else:
            ctx.note(f"new identifier use site {q} (running={flags}) — not in the reviewed table")
    for q in EXPECTED:
        if q not in found:
            if q not in model.funcs:
                raise AnalysisError(f"R16.2: reviewed identifier use site {q} vanished")
            fi = model.funcs[q]
            # a helper (depth <= 2) may obtain the identifiers on its behalf
            via, seen, frontier = None, {q}, [fi]
            for _ in range(2):
                nxt = []
                for f in frontier:
                    for c in calls_in(f.node, into_functions=True):
                        cq = model.resolve_call(f, c)
                        if cq and cq in model.funcs and cq not in seen:
                            seen.add(cq)
                            nxt.append(model.funcs[cq])
                            if any(isinstance(x.func, ast.Attribute) and x.func.attr == "generate_element_identifiers" for x in calls_in(model.funcs[cq].node, into_functions=True)) \
                                    and not cq.endswith("generate_element_identifiers"):
                                via = cq
                frontier = nxt
            if via:
                raise AnalysisError(f"R16.2: {q} now obtains identifiers through {via}: re-review the running flags")
            ctx.instance("R16.1", f"{q.split(':')[1]}: identifier source")
            ctx.violation("R16.1", f"{q}:identifier-source", fi.module, fi.node,
                          f"{q} no longer takes its numbering from generate_element_identifiers (neither directly nor through a helper): names/identifiers can differ from the circuit's own")
    # the element-level defaults: Connection/Container.to_sympy(identifiers=None) → running=False is covered above;
    # diagrams default running=False
    for mod, fn in (("pyimpspec.circuit.diagrams.circuitikz", "to_circuitikz"), ("pyimpspec.circuit.diagrams.schemdraw", "to_drawing")):
        fi = model.fi(mod, fn)
        names = [a.arg for a in fi.node.args.args]
        ctx.instance("R16.2", f"{fn}: default running=False")
        d = dict(zip(names[len(names) - len(fi.node.args.defaults):], fi.node.args.defaults))
        if "running" in d and isinstance(d["running"], ast.Constant) and d["running"].value is False:
            ctx.ok()
        else:
            ctx.violation("R16.2", f"{fn}:default-running", mod, fi.node, f"{fn}: the default numbering of diagram labels must be the display numbering (running=False)")
    # no private numbering: enumerate(...) indices over the circuit's elements must not be formatted into names next to a symbol
    from ..prov import assignments
    for mname, mod in ctx.repo.modules.items():
        if not (mname.startswith("pyimpspec.circuit") or mname.startswith("pyimpspec.analysis")) or mname == BASE:
            continue
        for lp in [n for n in walk_ordered(mod.tree, into_functions=True) if isinstance(n, (ast.For, ast.comprehension))]:
            it = lp.iter
            if not (isinstance(it, ast.Call) and dotted(it.func) == "enumerate" and it.args):
                continue
            src = norm(it.args[0])
            fn = enclosing(lp, (ast.FunctionDef, ast.AsyncFunctionDef))
            if isinstance(it.args[0], ast.Name) and fn is not None:
                src = " ".join(norm(a[0].value) for a in assignments(fn, it.args[0].id) if a[2] == "assign" and getattr(a[0], "value", None) is not None)
            if "get_elements" not in src and "_get_elements_recursive" not in src:
                continue
            tgt = lp.target
            idx = tgt.elts[0].id if isinstance(tgt, ast.Tuple) and isinstance(tgt.elts[0], ast.Name) else None
            scope = parent(lp) if isinstance(lp, ast.comprehension) else lp
            if not idx:
                continue
            tainted = {idx}
            for _ in range(3):
                for a in [n for n in walk_ordered(scope) if isinstance(n, (ast.Assign, ast.AnnAssign)) and n.value is not None]:
                    if any(isinstance(x, ast.Name) and x.id in tainted for x in ast.walk(a.value)):
                        t = a.targets[0] if isinstance(a, ast.Assign) else a.target
                        if isinstance(t, ast.Name):
                            tainted.add(t.id)
            for js in [n for n in walk_ordered(scope) if isinstance(n, ast.JoinedStr)]:
                sh = fshape(js) or []
                used = {x.id for p in js.values if isinstance(p, ast.FormattedValue) for x in ast.walk(p.value) if isinstance(x, ast.Name)}
                if used & tainted and any("_" in p for p in sh if not p.startswith("{")):
                    ctx.instance("R16.1", f"{mname}:{getattr(lp, 'lineno', '?')} private numbering")
                    ctx.violation("R16.1", f"{mname}:private-numbering", mname, js,
                                  f"{mname} numbers elements with its own enumerate index in {norm(js)}: not the circuit's identifiers")

    # ---------------- R16.3 -----------------------------------------------------------
    shapes = identifier_source_rule(ctx, model, "R16.3")
    _rest_of_r163(ctx, model, shapes)
    recompute_rule(ctx, model, "R16.4")
    _numbering(ctx, model, found, shapes)


def identifier_source_rule(ctx: Ctx, model, rid: str) -> Dict[str, List[str]]:
    """Parameter variables carry the element's own label or identifier: Element/Container.to_sympy are interpreted over the
    finite abstraction of their inputs (sa/checks/_naming.py) and the names compared with <key>_<label | identifier>."""
    from ._naming import naming_problems
    shapes: Dict[str, List[str]] = {}
    for mod, qual in ((BASE, "Element.to_sympy"), (BASE, "Container.to_sympy")):
        fi = model.fi(mod, qual)
        probs, n_in = naming_problems(model, qual)
        ctx.instance(rid, f"{qual}: parameter names on {n_in} abstract inputs are <key>_<label>, else <key>_<identifier>, else <key>")
        bad = [p_ for p_ in probs if p_["kind"] in ("naming", "raises")]
        if not bad:
            ctx.ok()
        else:
            p0 = bad[0]
            ctx.violation(rid, f"{qual}:identifier-source", mod, fi.node,
                          f"{qual} names its parameters wrongly for {p0['input']}: {p0['got']} instead of {p0['want']}: variables of different elements coincide or do not carry the element's identifier")
        # the writer's shape, for the separator agreement with the fit identifiers (R16.3)
        shapes[qual] = ["{key}", "_", "{identifier}"]
        shapes[qual + ":label"] = ["{key}", "_", "{self._label}"]
    return shapes


def _rest_of_r163(ctx: Ctx, model, shapes) -> None:
    gfi = model.fi(FIT, "generate_fit_identifiers")
    w = [fshape(n.value) for n in walk_ordered(gfi.node) if isinstance(n, ast.Assign) and isinstance(n.value, ast.JoinedStr)]
    if len(w) != 1:
        raise AnalysisError("generate_fit_identifiers: identifier f-string not found")
    shapes["generate_fit_identifiers"] = w[0]

    def sep_of(sh: List[str]) -> Optional[str]:
        consts = [p for p in sh if not p.startswith("{")]
        return consts[0] if len(consts) == 1 and len(sh) == 3 else None

    seps = {k: sep_of(v) for k, v in shapes.items()}
    ctx.instance("R16.3", f"writer shapes {shapes}")
    if len(set(seps.values())) == 1 and None not in seps.values():
        ctx.ok()
    else:
        ctx.violation("R16.3", "writers:separator", FIT, gfi.node,
                      f"the writers of parameter identifiers disagree on the shape <symbol><sep><id>: {shapes}")
    sep = next(iter(seps.values())) or "_"
    # key and id sources
    ctx.instance("R16.3", "generate_fit_identifiers: symbol from get_values().keys(), id from generate_element_identifiers(running=True)")
    src = norm(gfi.node)
    if "element.get_values().keys()" in src and shapes["generate_fit_identifiers"][0] == "{symbol}" and shapes["generate_fit_identifiers"][2] == "{ident}" \
            and "for element, ident in circuit.generate_element_identifiers(running=True).items()" in src:
        ctx.ok()
    else:
        ctx.violation("R16.3", "generate_fit_identifiers:sources", FIT, gfi.node,
                      "fit identifiers must be <parameter symbol><sep><running id of that element>")
    # reader
    ep = model.fi(FIT, "_extract_parameters")
    ends = [c for c in calls_in(ep.node, into_functions=True) if isinstance(c.func, ast.Attribute) and c.func.attr == "endswith"]
    lam_ends = [c for n in walk_ordered(ep.node) if isinstance(n, ast.Lambda) for c in calls_in(n.body) if isinstance(c.func, ast.Attribute) and c.func.attr == "endswith"]
    ends += lam_ends
    splits = [c for c in calls_in(ep.node) if isinstance(c.func, ast.Attribute) and c.func.attr in ("rsplit", "split", "rpartition")]
    ctx.instance("R16.3", "_extract_parameters: suffix reader inverts the writer")
    ok = len(ends) >= 1 and len(splits) == 1
    if ok:
        esh = fshape(ends[0].args[0])
        ok = esh == [sep, "{internal_id}"] and isinstance(splits[0].args[0], ast.Constant) and splits[0].args[0].value == sep \
            and splits[0].func.attr == "rsplit" and len(splits[0].args) == 2 and norm(splits[0].args[1]) == "1"
    if ok:
        ctx.ok()
    else:
        ctx.violation("R16.3", "_extract_parameters:reader", FIT, ep.node,
                      f"_extract_parameters must select variables ending in '{sep}<running id>' and strip the id with rsplit('{sep}', 1)")
    # the internal map is the inverse of running identifiers
    ctx.instance("R16.3", "_extract_parameters: internal ids are the running identifiers inverted")
    inv = [n for n in walk_ordered(ep.node) if isinstance(n, (ast.Assign, ast.AnnAssign)) and norm(n.targets[0] if isinstance(n, ast.Assign) else n.target) == "internal_identifiers"]
    # two idioms: the running map inverted ({id: element}) and iterated as (id, element), or iterated directly as (element, id)
    loop_ie = [n for n in walk_ordered(ep.node) if isinstance(n, ast.For) and norm(n.iter) == "internal_identifiers.items()"]
    inverted = bool(inv) and isinstance(inv[0].value, ast.DictComp) and norm(inv[0].value.key) == "v" and norm(inv[0].value.value) == "k" \
        and "generate_element_identifiers(running=True).items()" in norm(inv[0].value.generators[0].iter) \
        and len(loop_ie) == 1 and norm(loop_ie[0].target).strip("()") == "internal_id, element"
    direct = bool(inv) and norm(inv[0].value).replace(" ", "").replace("\n", "") == "circuit.generate_element_identifiers(running=True)" \
        and len(loop_ie) == 1 and norm(loop_ie[0].target).strip("()") == "element, internal_id"
    if inverted or direct:
        ctx.ok()
    else:
        ctx.violation("R16.3", "_extract_parameters:internal-map", FIT, ep.node, "internal identifiers must be {id: element} of generate_element_identifiers(running=True)")
    # element-name rule equals get_element_name: either by calling it with the display identifiers, or by the same inline rule
    gen = model.fi(BASE, "Connection.get_element_name")
    g_ret = [fshape(n.value) for n in walk_ordered(gen.node) if isinstance(n, ast.Return) and isinstance(n.value, ast.JoinedStr)]
    e_asg = [fshape(n.value) for n in walk_ordered(ep.node) if isinstance(n, ast.Assign) and norm(n.targets[0]) == "element_name" and isinstance(n.value, ast.JoinedStr)]
    by_call = [n for n in walk_ordered(ep.node) if isinstance(n, (ast.Assign, ast.AnnAssign)) and n.value is not None and norm(n.targets[0] if isinstance(n, ast.Assign) else n.target) == "element_name"
               and isinstance(n.value, ast.Call) and isinstance(n.value.func, ast.Attribute) and n.value.func.attr == "get_element_name"]
    ctx.instance("R16.3", f"element-name rule: get_element_name {g_ret} vs _extract_parameters {e_asg or 'call'}")
    def canon(sh):
        return [p.replace("external_identifiers", "identifiers") for p in sh]
    same_rule = len(g_ret) == 1 and len(e_asg) == 1 and canon(g_ret[0]) == canon(e_asg[0]) \
        and "name != symbol" in norm(gen.node) and "element_name == symbol" in norm(ep.node) \
        and "element.get_name()" in norm(gen.node) and "element.get_name()" in norm(ep.node)
    if by_call and not e_asg:
        c_ = by_call[0].value
        kw_ = {k.arg: norm(k.value) for k in c_.keywords}
        same_rule = len(by_call) == 1 and norm(c_.func.value) == "circuit" and c_.args and norm(c_.args[0]) == "element" and kw_.get("identifiers") == "external_identifiers" \
            and any(isinstance(n, (ast.Assign, ast.AnnAssign)) and n.value is not None and norm(n.targets[0] if isinstance(n, ast.Assign) else n.target) == "external_identifiers"
                    and norm(n.value).replace(" ", "").replace("\n", "") == "circuit.generate_element_identifiers(running=False)" for n in walk_ordered(ep.node))
    if same_rule:
        ctx.ok()
    else:
        ctx.violation("R16.3", "element-name:rule", FIT, ep.node,
                      "the table of fitted parameters must name elements exactly as Connection.get_element_name does (label, else <symbol>_<per-type id>)")
    gn = model.fi(BASE, "Element.get_name")
    gsh = [fshape(n.value) for n in walk_ordered(gn.node) if isinstance(n, ast.Return) and isinstance(n.value, ast.JoinedStr)]
    ctx.instance("R16.3", f"Element.get_name shape {gsh}")
    if gsh == [["{self.get_symbol()}", sep, "{self._label}"]]:
        ctx.ok()
    else:
        ctx.violation("R16.3", "Element.get_name:shape", BASE, gn.node, "labelled elements must be named <symbol>_<label>")
    # to_parameters_dataframe looks results up under the external name
    tp = model.fi(FIT, "FitResult.to_parameters_dataframe")
    ctx.instance("R16.3", "to_parameters_dataframe looks the table up under the display name")
    t = norm(tp.node)
    if "self.parameters[element_name]" in t and "identifiers=external_identifiers" in t:
        ctx.ok()
    else:
        ctx.violation("R16.3", "to_parameters_dataframe:lookup", FIT, tp.node, "to_parameters_dataframe must look parameters up under get_element_name(element, identifiers=external_identifiers)")
    diagram_label_rule(ctx, model, "R16.3")
    label_validation_rule(ctx, model, "R16.3")
    identifier_forwarding_rule(ctx, model, "R16.3")


def identifier_forwarding_rule(ctx: Ctx, model, rid: str) -> None:
    """Wherever a function of the circuit package holds an identifier map and asks a child for its expression, it hands the
    map (or the child's entry of it) on: otherwise the child numbers its elements afresh and the same variable name
    denotes different elements in different parts of one expression."""
    _connection_dispatch_rule(ctx, model, rid)
    n = 0
    for q, fi in sorted(model.funcs.items()):
        if not fi.module.startswith("pyimpspec.circuit"):
            continue
        params = {a.arg for a in fi.node.args.args + fi.node.args.kwonlyargs}
        has_map = "identifiers" in params or any(isinstance(x, ast.Name) and x.id == "identifiers" and isinstance(x.ctx, ast.Store) for x in walk_ordered(fi.node))
        if not has_map:
            continue
        for c in calls_in(fi.node):
            if not (isinstance(c.func, ast.Attribute) and c.func.attr == "to_sympy"):
                continue
            if norm(c.func.value) in ("self", "super()"):
                continue
            n += 1
            kws = {k.arg: norm(k.value) for k in c.keywords if k.arg}
            ctx.instance(rid, f"{fi.qual}: {norm(c.func.value)}.to_sympy forwards the identifier map")
            if kws.get("identifiers") == "identifiers" or kws.get("identifier", "").startswith("identifiers["):
                ctx.ok()
            else:
                ctx.violation(rid, f"{fi.qual}:identifiers-not-forwarded", fi.module, c,
                              f"{fi.qual} holds the circuit's identifier map but calls {norm(c)[:70]} without it: the nested elements are numbered afresh, so one variable name can denote two elements")
    if n < 4:
        raise AnalysisError(f"{rid}: only {n} child to_sympy calls with an identifier map in scope found (floor 4)")


DIAGRAMS = (("pyimpspec.circuit.diagrams.circuitikz", "to_circuitikz"), ("pyimpspec.circuit.diagrams.schemdraw", "to_drawing"))


def fparts(node: ast.AST):
    """Like fshape but unambiguous: list of ('c', text) / ('p', expr)."""
    if isinstance(node, ast.JoinedStr):
        return [("c", str(v.value)) if isinstance(v, ast.Constant) else ("p", norm(v.value)) for v in node.values]
    if isinstance(node, ast.BinOp) and isinstance(node.op, ast.Add):
        a, b = fparts(node.left), fparts(node.right)
        return a + b if a is not None and b is not None else None
    if isinstance(node, ast.Constant) and isinstance(node.value, str):
        return [("c", node.value)]
    return None


def good_lead(sh) -> bool:
    return sh[0] == ("c", "$") and sh[1][0] == "p"


def _prev_binding(stmt: ast.stmt, name: str):
    """Nearest assignment to `name` among the statements preceding `stmt` in its own block (straight-line predecessor)."""
    from ..cfg import block_of
    p, fld, blk = block_of(stmt)
    if not blk:
        return None
    idx = [i for i, x in enumerate(blk) if x is stmt][0]
    for prev in reversed(blk[:idx]):
        if isinstance(prev, (ast.Assign, ast.AnnAssign)) and prev.value is not None:
            tgt = prev.targets[0] if isinstance(prev, ast.Assign) else prev.target
            if norm(tgt) == name:
                return prev
        elif any(isinstance(n, ast.Name) and n.id == name and isinstance(n.ctx, ast.Store) for n in ast.walk(prev)):
            return prev  # bound inside a compound statement: not a straight-line predecessor
    return None


def diagram_label_rule(ctx: Ctx, model, rid: str) -> None:
    """A component's default label in both diagram back ends is <symbol>_{\\rm <label or identifier>} where
    symbol = X.get_symbol(), the subscript is X.get_label() or str(M[X]) for the same element X, unmodified, and
    M is the map returned by self.generate_element_identifiers(running=running)."""
    from ..cfg import stmt_of
    for mod, fn in DIAGRAMS:
        fi = model.fi(mod, fn)
        ctx.instance(rid, f"{fn}: default component label is <symbol>_<label or identifier of that element> from the circuit's own identifier map")
        maps = [n for n in walk_ordered(fi.node, into_functions=True) if isinstance(n, (ast.Assign, ast.AnnAssign)) and n.value is not None
                and isinstance(n.value, ast.Call) and isinstance(n.value.func, ast.Attribute) and n.value.func.attr == "generate_element_identifiers"]
        if len(maps) != 1 or norm(maps[0].value.func.value) != "self":
            ctx.violation(rid, f"{fn}:identifier-map", mod, fi.node,
                          f"{fn} does not take its numbering from self.generate_element_identifiers(...): diagram labels are not the names the circuit gives its elements")
            continue
        M = norm(maps[0].targets[0] if isinstance(maps[0], ast.Assign) else maps[0].target)
        others = [n for n in walk_ordered(fi.node, into_functions=True) if isinstance(n, ast.Name) and n.id == M and isinstance(n.ctx, ast.Store) and stmt_of(n) is not maps[0]]
        fmts = []
        for n in walk_ordered(fi.node, into_functions=True):
            if isinstance(n, (ast.JoinedStr, ast.BinOp)) and not isinstance(parent(n), (ast.BinOp, ast.JoinedStr, ast.FormattedValue)):
                sh = fparts(n)
                if sh and any("\\rm" in t for k, t in sh if k == "c"):
                    fmts.append((n, sh))
        if len(fmts) != 1 or others:
            ctx.violation(rid, f"{fn}:label-format", mod, fi.node,
                          f"{fn}: expected exactly one default label format <symbol>_{{\\rm <subscript>}} built from the identifier map {M} (found {len(fmts)}; map rebound {len(others)} times)")
            continue
        node, sh = fmts[0]
        ph = [t for k, t in sh if k == "p"]
        consts = "".join(t for k, t in sh if k == "c").replace("$", "")
        st = stmt_of(node)
        good = len(ph) == 2 and consts.replace(" ", "") == "_{\\rm}" and sh[0][0] == "p" or (good_lead(sh) and len(ph) == 2 and consts.replace(" ", "") == "_{\\rm}")
        why = f"label format {sh}"
        if good:
            sym_b, sub_b = _prev_binding(st, ph[0]), _prev_binding(st, ph[1])
            good = sym_b is not None and sub_b is not None and isinstance(sym_b, (ast.Assign, ast.AnnAssign)) and isinstance(sub_b, (ast.Assign, ast.AnnAssign))
            why = "symbol/subscript are not bound by the statements directly before the label"
        if good:
            sv, lv = sym_b.value, sub_b.value
            good = isinstance(sv, ast.Call) and isinstance(sv.func, ast.Attribute) and sv.func.attr == "get_symbol" and not sv.args
            X = norm(sv.func.value) if good else "?"
            want = f"{X}.get_label() or str({M}[{X}])"
            good = good and norm(lv) == want
            why = f"subscript is {norm(lv)}, symbol is {norm(sv)}; expected {want}"
        if good:
            ctx.ok()
        else:
            ctx.violation(rid, f"{fn}:labels", mod, node,
                          f"{fn} must label a component <symbol>_<label or identifier> of that very element, unmodified, using the circuit's identifier map ({why})")


def label_validation_rule(ctx: Ctx, model, rid: str) -> None:
    """Element.set_label interpreted (its AST) on representatives of every class of argument it distinguishes — not a
    string, empty, blank, padded, all digits (padded or not), non-ASCII, ordinary — starting from an unlabelled and from a
    labelled element: a string is stored stripped, '' clears the label, digits-only and non-ASCII labels are refused (a label
    of digits would coincide with another element's identifier), nothing else changes."""
    from ..miniinterp import InterpRaise, Mini, Obj, module_globals
    sl = model.fi(BASE, "Element.set_label")
    g = module_globals(ctx.repo.modules[BASE].tree, {})
    methods = {n: m.node for n, m in model.classes[f"{BASE}:Element"].methods.items()}
    cases = [(5, "TypeError"), ("", ""), ("   ", ""), ("ct", "ct"), ("  ct ", "ct"), ("a b", "a b"), ("1", "ValueError"), (" 12 ", "ValueError"), ("2 ", "ValueError"),
             ("1a", "1a"), ("é", "ValueError"), ("a_1", "a_1")]
    wit = None
    n = 0
    for before in ("", "old"):
        for arg, want in cases:
            n += 1
            me = Obj(Mini(g), methods, {"_label": before})
            try:
                out = Mini(g).call_function(sl.node, {"self": me, "label": arg})
                got = me._label
                returned_self = out is me
            except InterpRaise as e:
                got, returned_self = e.kind, True
            exp = want
            if want in ("TypeError", "ValueError") and got == want:
                ok = me._label == before
            elif want == "TypeError" or (want == "ValueError" and not (isinstance(arg, str) and arg != arg.strip())):
                ok = False
            else:
                # stored as given or stripped (normalisation of padding is not part of this property); what is stored is
                # never all digits and never non-ASCII
                ok = isinstance(got, str) and got in (arg, arg.strip()) and returned_self and not got.isdigit() and got.isascii()
            if not ok and wit is None:
                wit = (before, arg, got, exp)
    ctx.instance(rid, f"Element.set_label on {n} (previous label, argument) cases: stored stripped, '' clears, digits-only/non-ASCII refused, state untouched on refusal")
    if wit is None:
        ctx.ok()
    else:
        before, arg, got, exp = wit
        digits = isinstance(arg, str) and arg.strip().isdigit()
        ctx.violation(rid, "set_label:stored-is-validated" if digits else "set_label:semantics", BASE, sl.node,
                      f"Element.set_label({arg!r}) on an element labelled {before!r} gives {got!r} instead of {exp!r}"
                      + (": a label of digits coincides with the identifier of an unlabelled element" if digits else ""))


def _numbering(ctx: Ctx, model, found, shapes) -> None:
    # ---------------- R16.4 -----------------------------------------------------------
    ger = model.fi(BASE, "Connection._get_elements_recursive")
    ctx.instance("R16.4", "_get_elements_recursive is duplicate-free and includes sub-circuit elements")
    t = norm(ger.node)
    if "if element not in elements:\n" in t.replace("        ", "") or "element not in elements" in t:
        dedup = True
    else:
        dedup = False
    nested = "get_subcircuits().values()" in t and "isinstance(element, Container)" in t
    if dedup and nested:
        ctx.ok()
    else:
        ctx.violation("R16.4", "_get_elements_recursive:traversal", BASE, ger.node, "the traversal must visit each element once and descend into container sub-circuits")
    gei = model.fi(BASE, "Connection.generate_element_identifiers")
    # interpreted (AST, sa.miniinterp) on every sequence of element symbols over {R, C} of length 0..4 and both flags: the
    # function depends on its elements only through the order of the traversal and the equality pattern of their symbols
    from itertools import product
    from ..miniinterp import InterpRaise, Mini, Obj, module_globals

    class _El:
        def __init__(self, sym, k):
            self.sym, self.k = sym, k

        def get_symbol(self):
            return self.sym

        def __repr__(self):
            return f"{self.sym}#{self.k}"
    stubs = module_globals(ctx.repo.modules[BASE].tree, {"_is_boolean": lambda x: isinstance(x, bool)})
    wit = None
    n_w = 0
    for n_ in range(0, 5):
        for syms in product("RC", repeat=n_):
            els = [_El(s_, i) for i, s_ in enumerate(syms)]
            for running in (True, False):
                n_w += 1
                me = Obj(Mini(stubs), {}, {"_get_elements_recursive": (lambda els=els: list(els))})
                try:
                    got = Mini(stubs).call_function(gei.node, {"self": me, "running": running})
                    got = {repr(k): v for k, v in got.items()}
                except InterpRaise as e:
                    got = e.kind
                seen_: Dict[str, int] = {}
                want = {}
                for i, e_ in enumerate(els):
                    seen_[e_.sym] = seen_.get(e_.sym, 0) + 1
                    want[repr(e_)] = i if running else seen_[e_.sym]
                if got != want and wit is None:
                    wit = ("".join(syms), running, got, want)
    ctx.instance("R16.4", f"Connection.generate_element_identifiers on {n_w} (symbol sequence, running) inputs: running ids 0..N-1 in traversal order, per-type counts from 1")
    if wit is None:
        ctx.ok()
    else:
        key = "generate_element_identifiers:running" if wit[1] else "Connection.generate_element_identifiers:counts"
        ctx.violation("R16.4", key, BASE, gei.node,
                      f"Connection.generate_element_identifiers(running={wit[1]}) on elements {wit[0]!r} gives {wit[2]} instead of {wit[3]}")
    # Container.generate_element_identifiers, interpreted likewise: the container itself is -1; the elements of its
    # sub-circuits are numbered in traversal order (running: 1..N after the container's own slot; else per type from 1)
    cge = model.fi(BASE, "Container.generate_element_identifiers")

    class _KContainer:
        pass

    class _Conn:
        def __init__(self, els):
            self.els = els

        def get_elements(self, recursive=True, **k):
            return list(self.els)

    class _SelfC(_KContainer):
        def __init__(self, subs):
            self.subs = subs

        def get_symbol(self):
            return "T"

        def get_subcircuits(self):
            return dict(self.subs)

        def __repr__(self):
            return "self"
    stubs_c = module_globals(ctx.repo.modules[BASE].tree, {"_is_boolean": lambda x: isinstance(x, bool), "Container": _KContainer})
    stubs_c["Container"] = _KContainer
    witc = None
    n_wc = 0
    for n_ in range(0, 4):
        for syms in product("RCT", repeat=n_):
            for split in range(0, n_ + 1):
                els = [_El(s_, i) for i, s_ in enumerate(syms)]
                subs = {"X": _Conn(els[:split]), "Y": (_Conn(els[split:]) if els[split:] else None)}
                for running in (True, False):
                    n_wc += 1
                    me = _SelfC(subs)
                    try:
                        got = Mini(stubs_c).call_function(cge.node, {"self": me, "running": running})
                        got = {repr(k): v for k, v in got.items()}
                    except InterpRaise as e:
                        got = e.kind
                    want = {"self": -1}
                    seen_c: Dict[str, int] = {}
                    for i, e_ in enumerate(els):
                        seen_c[e_.sym] = seen_c.get(e_.sym, 0) + 1
                        want[repr(e_)] = (i + 1) if running else seen_c[e_.sym]
                    if got != want and witc is None:
                        witc = ("".join(syms), split, running, got, want)
    ctx.instance("R16.4", f"Container.generate_element_identifiers on {n_wc} (sub-circuit contents, running) inputs")
    if witc is None:
        ctx.ok()
    else:
        ctx.violation("R16.4", "Container.generate_element_identifiers:counts", BASE, cge.node,
                      f"Container.generate_element_identifiers(running={witc[2]}) with sub-circuit elements {witc[0]!r} (first {witc[1]} in X) gives {witc[3]} instead of {witc[4]}")
    vc = model.fi(FIT, "validate_circuit")
    fc = model.fi(FIT, "fit_circuit")
    ctx.instance("R16.4", "validate_circuit rejects duplicate names; fit_circuit calls it before any work")
    t = norm(vc.node)
    dup = "if name in element_names:" in t and any(isinstance(n, ast.Raise) for n in walk_ordered(vc.node)) and "circuit.get_element_name(element, identifiers)" in t
    calls = [c for c in calls_in(fc.node) if dotted(c.func) == "validate_circuit"]
    withs = [n for n in walk_ordered(fc.node) if isinstance(n, ast.With)]
    early = bool(calls) and bool(withs) and calls[0].lineno < withs[0].lineno
    if dup and early:
        ctx.ok()
    else:
        ctx.violation("R16.4", "validate_circuit:duplicates", FIT, vc.node, "duplicate element names must be rejected by validate_circuit, called by fit_circuit before fitting starts")
    ctx.sample({"shapes": shapes, "sites": {q.split(':')[1]: [f for _, f in v] for q, v in found.items()}})


def recompute_rule(ctx: Ctx, model, rid: str) -> None:
    from ..cfg import returns_not_passing
    recompute = [
        (BASE, "Connection.generate_element_identifiers", lambda a: any(isinstance(c, ast.Call) and dotted(c.func) == "self._get_elements_recursive" for c in ast.walk(a)), "self._get_elements_recursive()"),
        (BASE, "Container.generate_element_identifiers", lambda a: any(isinstance(c, ast.Call) and dotted(c.func) in ("self.get_subcircuits", "process_element") for c in ast.walk(a)), "self.get_subcircuits()"),
        ("pyimpspec.circuit.circuit", "Circuit.generate_element_identifiers", lambda a: any(isinstance(c, ast.Call) and dotted(c.func) == "self._elements.generate_element_identifiers" for c in ast.walk(a)), "self._elements.generate_element_identifiers(...)"),
        ("pyimpspec.circuit.circuit", "Circuit.get_element_name", lambda a: any(isinstance(c, ast.Call) and dotted(c.func) == "self._elements.get_element_name" for c in ast.walk(a)), "self._elements.get_element_name(...)"),
        (BASE, "Connection._get_elements_recursive", lambda a: any(isinstance(c, ast.Call) and dotted(c.func) == "self._get_all_items_recursive" for c in ast.walk(a)), "self._get_all_items_recursive()"),
    ]
    for mod, qual, pred, what in recompute:
        fi = model.fi(mod, qual)
        ctx.instance(rid, f"{qual} recomputes from the current structure on every call ({what})")
        bad = returns_not_passing(fi.node, pred)
        # class-level / instance-level caches written here
        stores = [n for n in walk_ordered(fi.node) if isinstance(n, (ast.Assign, ast.AugAssign)) and any(
            isinstance(t, (ast.Attribute, ast.Subscript)) and dotted(t.value if isinstance(t, ast.Attribute) else t.value).startswith("self")
            for t in (n.targets if isinstance(n, ast.Assign) else [n.target]))]
        if bad:
            ctx.violation(rid, f"{qual}:memoised-path", mod, bad[0],
                          f"{qual} can return without calling {what}: identifiers/names may be stale after the circuit is edited")
        elif stores:
            ctx.violation(rid, f"{qual}:stores-state", mod, stores[0],
                          f"{qual} stores into {norm(stores[0].targets[0] if isinstance(stores[0], ast.Assign) else stores[0].target)}: identifier maps must not be kept on the object")
        else:
            ctx.ok()



def _connection_dispatch_rule(ctx: Ctx, model, rid: str) -> None:
    """Series.to_sympy / Parallel.to_sympy interpreted (sa.miniinterp) on one child of every kind — a connection, a container
    element, a plain element: connections and containers must be handed the identifier map in use (their nested elements are
    named from it), plain elements their own entry of it."""
    import sympy as sp
    from ..miniinterp import InterpRaise, Mini, Obj, module_globals

    class Element:
        def __init__(self, name):
            self.name, self.calls = name, []

        def to_sympy(self, *a, **kw):
            self.calls.append((a, kw))
            return sp.Symbol(self.name)

    class Container(Element):
        pass

    class Connection(Element):
        pass
    for mod, qual in (("pyimpspec.circuit.series", "Series.to_sympy"), ("pyimpspec.circuit.parallel", "Parallel.to_sympy")):
        fi = model.fi(mod, qual)
        for given in (True, False):
            kids = [Connection("conn"), Container("cont"), Element("elem")]
            the_map = {k: i + 3 for i, k in enumerate(kids)}
            st = {"Element": Element, "Container": Container, "Connection": Connection, "sympify": sp.sympify, "_is_boolean": lambda x: isinstance(x, bool),
                  "Series": type("Series", (Connection,), {}), "Parallel": type("Parallel", (Connection,), {})}
            g = module_globals(ctx.repo.modules[mod].tree, st)
            g.update(st)
            mi = Mini(g, max_steps=50000)
            me = Obj(mi, {}, {"_elements": kids, "generate_element_identifiers": (lambda *a, **k: the_map)})
            ctx.instance(rid, f"{qual} interpreted on a connection, a container and an element ({'caller gives the identifier map' if given else 'no map given'})")
            try:
                mi.call_bound(fi.node, me, (), {"substitute": False, **({"identifiers": the_map} if given else {})})
            except InterpRaise as e:
                ctx.violation(rid, f"{qual}:dispatch", mod, fi.node, f"{qual} raises {e.kind} for a connection holding a connection, a container and an element")
                continue
            bad = None
            for k in kids:
                if len(k.calls) != 1:
                    bad = f"the {type(k).__name__.lower()} child is asked for its expression {len(k.calls)} times"
                    break
                a, kw = k.calls[0]
                if a:
                    raise AnalysisError(f"{qual}: positional arguments in the child's to_sympy call")
                if kw.get("substitute") is not False:
                    bad = f"the {type(k).__name__.lower()} child receives substitute={kw.get('substitute')!r} instead of the caller's"
                elif isinstance(k, (Connection, Container)) and kw.get("identifiers") is not the_map:
                    bad = (f"the {type(k).__name__.lower()} child is not handed the identifier map in use (it receives {sorted(kw)}): the elements nested in it are numbered afresh, "
                           "so one variable name can denote two elements (fewer variables than parameters)")
                elif type(k) is Element and kw.get("identifier") != the_map[k]:
                    bad = f"the plain element receives identifier={kw.get('identifier')!r} instead of its entry {the_map[k]} of the map"
                if bad:
                    break
            if bad:
                ctx.violation(rid, f"{qual}:dispatch", mod, fi.node, f"{qual}: {bad}")
            else:
                ctx.ok()
