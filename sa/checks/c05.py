"""C05 — a data set keeps frequency, impedance and mask of each point together
(structural clauses)."""
from __future__ import annotations

import ast
from typing import Dict, List, Optional, Set, Tuple

from ..cfg import always_exits as always_exits_, dominating_conditions, flatten_conditions
from ..core import AnalysisError, Ctx, calls_in, dotted, enclosing, norm, parent, walk_ordered
from ..effects import param_mutations
from ..elements import fold_const
from ..model import get_model

LEVEL = "other"
DS = "pyimpspec.data.data_set"
STATE = ("_frequencies", "_impedances", "_mask")


def check(ctx: Ctx) -> None:
    model = get_model(ctx.repo)
    ctx.modules_consulted.add(DS)
    ctx.rule("R5.1", "public DataSet API never mutates a caller-owned argument (mask dictionary, import dictionary)")
    ctx.rule("R5.2", "a dictionary key read as optional (.get / in) in a function is not also subscripted or deleted unguarded there")
    ctx.rule("R5.3", "when the constructor reverses ascending input, frequencies, impedances and the mask keys undergo the same single reversal")
    ctx.rule("R5.4", "an enumerate index used as a mask key enumerates the unfiltered view")
    ctx.rule("R5.5", "get_frequencies and get_impedances filter with the same predicate; masked/unmasked views partition the full view")
    ctx.rule("R5.6", "keys written by to_dict, transformed by _parse, are exactly constructor parameters; _parse_v1 renames onto v2 names; VERSION has a parser")
    ctx.rule("R5.7", "only __init__, set_mask and subtract_impedances write the parallel state; only __init__ reorders it")
    ctx.rule("R5.8", "getters hand out copies of internal state (sibling cross-check, informational)")

    # ---------------- R5.1 ---------------------------------------------------------------
    parse_v = {name: model.fi(DS, name) for name in ("_parse_v1", "_parse_v2")}

    def mutates_own_param(fi) -> bool:
        p = fi.node.args.args[0].arg
        return bool(param_mutations(fi.node, p))

    def callee_mutates(call: ast.Call, where) -> bool:
        f = call.func
        if isinstance(f, ast.Name):
            r = model.resolve(DS, f.id)
            if r and r[0] == "func" and r[1] in model.funcs:
                cf = model.funcs[r[1]]
                params = [a.arg for a in cf.node.args.args]
                pname = params[where] if isinstance(where, int) and where < len(params) else where
                if pname in params:
                    return bool(param_mutations(cf.node, pname))
            if f.id == "p":  # dynamic dispatch through the parsers table
                return any(mutates_own_param(x) for x in parse_v.values())
        if isinstance(f, ast.Attribute) and f.attr in ("_parse", "set_mask", "from_dict"):
            m = model.fi(DS, f"DataSet.{f.attr}")
            params = [a.arg for a in m.node.args.args if a.arg not in ("self", "cls")]
            pname = params[where] if isinstance(where, int) and where < len(params) else where
            if pname in params:
                return bool(param_mutations(m.node, pname, callee_mutates))
        return False

    targets = [("DataSet.__init__", "mask"), ("DataSet.set_mask", "mask"), ("DataSet._parse", "dictionary"),
               ("DataSet.from_dict", "dictionary"), ("DataSet.duplicate", "data"), ("DataSet.average", "data_sets"),
               ("DataSet.subtract_impedances", "impedances"), ("DataSet.__init__", "frequencies"), ("DataSet.__init__", "impedances")]
    for qual, param in targets:
        fi = model.fi(DS, qual)
        if param not in [a.arg for a in fi.node.args.args]:
            raise AnalysisError(f"{qual}: parameter {param} not found")
        ctx.instance("R5.1", f"{qual}({param})")
        muts = param_mutations(fi.node, param, callee_mutates)
        if muts:
            m = muts[0]
            ctx.violation("R5.1", f"{qual}:{param}", DS, m.node,
                          f"{qual} mutates its caller's argument `{param}`: {m.how}" + (f" (+{len(muts) - 1} more)" if len(muts) > 1 else ""))
        else:
            ctx.ok()

    # ---------------- R5.2 ---------------------------------------------------------------
    n52 = 0
    for qual in ("DataSet._parse", "_parse_v1", "_parse_v2", "DataSet.__init__", "DataSet.duplicate"):
        fi = model.fi(DS, qual)
        optional: Dict[Tuple[str, str], ast.AST] = {}
        for n in walk_ordered(fi.node):
            if isinstance(n, ast.Call) and isinstance(n.func, ast.Attribute) and n.func.attr in ("get", "pop") and len(n.args) == 2 \
                    and isinstance(n.args[0], ast.Constant):
                optional[(norm(n.func.value), n.args[0].value)] = n
            if isinstance(n, ast.Compare) and isinstance(n.ops[0], (ast.In, ast.NotIn)) and isinstance(n.left, ast.Constant):
                optional[(norm(n.comparators[0]), n.left.value)] = n
        # defaults filled in by a loop over a table: for key, default in TABLE.items(): if key not in D: D[key] = default
        ensured: Dict[Tuple[str, str], int] = {}
        from ..elements import module_consts
        mc = module_consts(ctx.repo, DS)
        for lp in [n for n in walk_ordered(fi.node) if isinstance(n, ast.For) and isinstance(n.iter, ast.Call) and isinstance(n.iter.func, ast.Attribute)
                   and n.iter.func.attr == "items" and isinstance(n.target, ast.Tuple) and len(n.target.elts) == 2]:
            tab = n_tab = None
            src_t = lp.iter.func.value
            if isinstance(src_t, ast.Name):
                loc = [x.value for x in walk_ordered(fi.node) if isinstance(x, (ast.Assign, ast.AnnAssign)) and x.value is not None
                       and norm(x.targets[0] if isinstance(x, ast.Assign) else x.target) == src_t.id]
                tab = loc[0] if len(loc) == 1 else mc.get(src_t.id)
            if not isinstance(tab, ast.Dict) or not all(isinstance(k_, ast.Constant) for k_ in tab.keys):
                continue
            kv, vv = norm(lp.target.elts[0]), norm(lp.target.elts[1])
            for st_ in lp.body:
                if isinstance(st_, ast.If) and isinstance(st_.test, ast.Compare) and isinstance(st_.test.ops[0], ast.NotIn) and norm(st_.test.left) == kv \
                        and any(isinstance(a_, ast.Assign) and norm(a_.targets[0]) == f"{norm(st_.test.comparators[0])}[{kv}]" and norm(a_.value) == vv for a_ in st_.body):
                    dname = norm(st_.test.comparators[0])
                    for k_ in tab.keys:
                        optional[(dname, k_.value)] = st_.test
                        ensured[(dname, k_.value)] = getattr(lp, "end_lineno", lp.lineno)
        for (d, k), src in optional.items():
            n52 += 1
            ctx.instance("R5.2", f"{qual}: optional key {d}[{k!r}]")
            bad = None
            for n in walk_ordered(fi.node):
                sub = None
                if isinstance(n, ast.Subscript) and norm(n.value) == d and isinstance(n.slice, ast.Constant) and n.slice.value == k \
                        and isinstance(n.ctx, (ast.Load, ast.Del)):
                    sub = n
                if sub is None:
                    continue
                conds = flatten_conditions(dominating_conditions(sub))
                guarded = any((norm(c) == f"{k!r} in {d}" and pol) or (norm(c) == f"{k!r} not in {d}" and not pol) for c, pol in conds)
                # a preceding unconditional store of the key in the same function also makes it present
                stored = any(isinstance(m, ast.Assign) and norm(m.targets[0]) == f"{d}[{k!r}]" and m.lineno < sub.lineno
                             and enclosing(m, (ast.If, ast.For, ast.While)) is None for m in walk_ordered(fi.node))
                both_arms = False
                for m in walk_ordered(fi.node):
                    if isinstance(m, ast.If) and m.lineno < sub.lineno and m.orelse:
                        a = any(isinstance(x, ast.Assign) and norm(x.targets[0]) == f"{d}[{k!r}]" for x in m.body)
                        b = any(isinstance(x, ast.Assign) and norm(x.targets[0]) == f"{d}[{k!r}]" for x in m.orelse)
                        both_arms = both_arms or (a and b)
                after_fill = (d, k) in ensured and sub.lineno > ensured[(d, k)]
                if not (guarded or stored or both_arms or after_fill):
                    bad = sub
                    break
            if bad is not None:
                ctx.violation("R5.2", f"{qual}:{k}", DS, bad,
                              f"{qual} treats key {k!r} as optional ({norm(src)[:50]}) but also {'deletes' if isinstance(bad.ctx, ast.Del) else 'reads'} {d}[{k!r}] unguarded: KeyError when the key is absent")
            else:
                ctx.ok()
    if n52 < 3:
        raise AnalysisError(f"R5.2: only {n52} optional keys found (floor 3)")

    # ---------------- R5.9 (state machine) -------------------------------------------------------
    # The clauses R5.3-R5.5 are decided together by bounded explicit-state exploration of the DataSet on its own AST
    # (sa/checks/_c05_model.py); the shape rules below are the fallback when a construct is outside the interpreter.
    ctx.rule("R5.9", "state machine: after construction from descending or ascending input with any mask, and after every sequence (bounded) of set_mask / low_pass / high_pass / subtract_impedances, the mask and the masked/unmasked/full views of frequencies and impedances are those of the reference model")
    modelled = False
    try:
        from ._c05_model import run as _model_run
        probs_m, n_states, n_steps = _model_run(ctx, model, 3 if ctx.tier == "thorough" else 2)
        modelled = True
        ctx.instance("R5.9", f"DataSet explored from {n_states} initial states (1..3 points, both input orders, every initial mask), {n_steps} operation steps in sequences of length {3 if ctx.tier == 'thorough' else 2}")
        if not probs_m:
            ctx.ok()
        else:
            ctx.violation("R5.9", "DataSet:state-machine", DS, model.fi(DS, "DataSet.__init__").node,
                          "frequencies, impedances and mask do not stay together — " + probs_m[0])
        ctx.extra_cov["state_machine"] = {"initial_states": n_states, "steps": n_steps}
    except AnalysisError as e:
        ctx.note(f"DataSet not interpretable ({e}); falling back to the shape rules R5.3-R5.5")
    if not modelled:
        # ---------------- R5.3 ---------------------------------------------------------------
        _reversal(ctx, model)

        # ---------------- R5.4 ---------------------------------------------------------------
        from ..prov import Resolver
        for qual in ("DataSet.low_pass", "DataSet.high_pass"):
            fi = model.fi(DS, qual)
            R = Resolver(fi.node)
            sm = [c for c in calls_in(fi.node) if dotted(c.func) == "self.set_mask"]
            if len(sm) != 1 or len(sm[0].args) != 1:
                raise AnalysisError(f"{qual}: the call self.set_mask(<mask>) was not found")
            arg = sm[0].args[0]
            # (a) index space: the frequencies that are compared with the cutoff are the unfiltered view
            views = [c for c in calls_in(fi.node) if dotted(c.func) == "self.get_frequencies"]
            direct = [n for n in walk_ordered(fi.node) if isinstance(n, ast.Attribute) and n.attr == "_frequencies" and dotted(n.value) == "self"]
            ctx.instance("R5.4", f"{qual}: index space of the cutoff comparison")
            if not views and not direct:
                raise AnalysisError(f"{qual}: no read of the frequencies found")
            bad_view = None
            for c in views:
                m = [k.value for k in c.keywords if k.arg == "masked"] + list(c.args)
                if not (m and isinstance(m[0], ast.Constant) and m[0].value is None):
                    bad_view = c
            if bad_view is not None:
                ctx.violation("R5.4", f"{qual}:index-space", DS, bad_view,
                              f"{qual} derives mask indices from {norm(bad_view)}: that view is filtered, so its positions do not address the stored points")
            else:
                ctx.ok()
            # (b) filters only add to the current mask
            ctx.instance("R5.4", f"{qual}: the new mask extends the current one")
            t = R.text(arg, sm[0])
            if isinstance(arg, ast.Name):
                from ..prov import assignments
                b_ = [x for x in assignments(fi.node, arg.id) if x[2] == "assign"]
                t = norm(b_[-1][0].value) if b_ else t
            if "self.get_mask()" in t or "self._mask" in t:
                stores = [n for n in walk_ordered(fi.node) if isinstance(n, ast.Assign) and isinstance(n.targets[0], ast.Subscript)
                          and isinstance(arg, ast.Name) and norm(n.targets[0].value) == arg.id]
                if all(norm(n.value) == "True" for n in stores):
                    ctx.ok()
                else:
                    ctx.violation("R5.4", f"{qual}:unmasks", DS, stores[0], f"{qual} writes values other than True into the mask: a pass filter must never unmask points")
            else:
                # a partial dictionary is merged by set_mask (update) — unless it is empty, which set_mask treats as "clear everything"
                conds = flatten_conditions(dominating_conditions(sm[0]))
                an = norm(arg)
                guarded = any(pol and norm(c) in (an, f"len({an}) > 0", f"len({an}) != 0", f"len({an}) >= 1") for c, pol in conds) or \
                    any((not pol) and norm(c) in (f"len({an}) == 0", f"not {an}") for c, pol in conds)
                smf = model.fi(DS, "DataSet.set_mask")
                clears_on_empty = any(isinstance(n, ast.If) and norm(n.test).replace(" ", "") in ("len(mask)==0", "notmask") and always_exits_(n.body)
                                      for n in walk_ordered(smf.node))
                if guarded or not clears_on_empty:
                    ctx.ok()
                else:
                    ctx.violation("R5.4", f"{qual}:empty-selection-clears-mask", DS, sm[0],
                                  f"{qual} passes {t[:60]} to set_mask: it is not built from the current mask and may be empty, and set_mask({{}}) clears the "
                                  f"whole mask — a filter that selects nothing unmasks previously masked points")

        # ---------------- R5.5 ---------------------------------------------------------------
        preds = {}
        flags: Dict[str, Set[str]] = {}
        ds_methods = {n: m.node for n, m in model.classes[f"{DS}:DataSet"].methods.items()}

        def self_reads(fn_node, seen=None) -> Set[str]:
            seen = seen if seen is not None else set()
            out: Set[str] = set()
            for x in ast.walk(fn_node):
                if isinstance(x, ast.Attribute) and dotted(x.value) == "self":
                    if x.attr in ds_methods and x.attr not in seen:
                        seen.add(x.attr)
                        out |= self_reads(ds_methods[x.attr], seen)
                    elif x.attr not in ds_methods:
                        out.add(x.attr)
            return out
        core = {"_frequencies", "_impedances", "_mask"}
        getters = (("DataSet.get_frequencies", "_frequencies"), ("DataSet.get_impedances", "_impedances"))
        reads = {q: self_reads(model.fi(DS, q).node) for q, _ in getters}
        if all(r <= core for r in reads.values()):
            # the getters depend on the mask only through look-ups: interpret them (AST, sa.miniinterp) on every mask over up to
            # four points (each key absent / False / True) and both selections, and compare with the specification
            from itertools import product
            from ..miniinterp import InterpRaise, Mini, Obj
            from ..nplite import NP_STUBS, NArr
            stubs = dict(NP_STUBS)
            stubs.update({"_is_boolean": lambda x: isinstance(x, bool), "NDArray": None})
            for qual, attr in getters:
                fi = model.fi(DS, qual)
                d = fi.node.args.defaults
                ctx.instance("R5.5", f"{qual}: default of `masked` is False")
                if not (len(d) == 1 and isinstance(d[0], ast.Constant) and d[0].value is False):
                    ctx.violation("R5.5", f"{qual}:default", DS, fi.node, f"{qual}: default of `masked` is not False (analyses rely on it to exclude masked points)")
                else:
                    ctx.ok()
                witness = None
                n_w = 0
                for n in range(0, 5):
                    for combo in product(("absent", False, True), repeat=n):
                        mask = {i: v for i, v in enumerate(combo) if v != "absent"}
                        for masked in (None, False, True):
                            n_w += 1
                            me = Obj(Mini(stubs), ds_methods, {"_frequencies": NArr(("f", i) for i in range(n)), "_impedances": NArr(("Z", i) for i in range(n)), "_mask": dict(mask)})
                            try:
                                got = list(Mini(stubs).call_function(fi.node, {"self": me, "masked": masked}))
                            except InterpRaise as e:
                                got = e.kind
                            tag = "f" if attr == "_frequencies" else "Z"
                            want = [(tag, i) for i in range(n) if masked is None or mask.get(i, False) == masked]
                            if got != want and witness is None:
                                witness = (mask, masked, got, want)
                ctx.instance("R5.5", f"{qual}: selection on all {n_w} (mask, masked) combinations over 0..4 points")
                if witness is None:
                    ctx.ok()
                else:
                    mask, masked, got, want = witness
                    ctx.violation("R5.5", "getters:predicate-mismatch" if isinstance(got, list) else f"{qual}:raises", DS, fi.node,
                                  f"{qual}(masked={masked}) with mask {mask} returns the points {got} instead of {want}: frequencies and impedances no longer select the same points")
            flags = {q: set() for q, _ in getters}
        else:
            for qual, attr in getters:
                fi = model.fi(DS, qual)
                shape = _filter_shape(fi.node, attr)
                if shape is None:
                    raise AnalysisError(f"{qual}: filter expression not recognised (neither a comprehension over enumerate(self.{attr}) nor boolean indexing of self.{attr})")
                preds[qual], flags[qual], src_ok, elt_ok = shape
                ctx.instance("R5.5", f"{qual}: predicate {preds[qual]}")
                if not src_ok:
                    ctx.violation("R5.5", f"{qual}:source", DS, fi.node, f"{qual} does not filter self.{attr}")
                if not elt_ok:
                    ctx.violation("R5.5", f"{qual}:element", DS, fi.node, f"{qual} does not yield the enumerated item")
                d = fi.node.args.defaults
                if not (len(d) == 1 and isinstance(d[0], ast.Constant) and d[0].value is False):
                    ctx.violation("R5.5", f"{qual}:default", DS, fi.node, f"{qual}: default of `masked` is not False (analyses rely on it to exclude masked points)")
                else:
                    ctx.ok()
            vals = set(preds.values())
            if len(vals) != 1:
                ctx.violation("R5.5", "getters:predicate-mismatch", DS, model.fi(DS, "DataSet.get_impedances").node,
                              f"get_frequencies and get_impedances filter with different predicates: {preds}")
            else:
                p = next(iter(vals))
                if p in ("self._mask.get(<i>, False) == masked",) or (p.startswith("self.") and p.endswith(" == masked")):
                    ctx.ok()  # x == True / x == False partition the index set
                else:
                    raise AnalysisError(f"R5.5: filter predicate {p!r} not recognised as a two-way partition")
        # derived mask state must be refreshed on every path that changes the mask
        derived = set().union(*flags.values()) - {"_mask"}
        for dattr in sorted(derived):
            from ..cfg import CFG
            ds_cls = model.classes[f"{DS}:DataSet"]
            for mname, mfi in ds_cls.methods.items():
                def writes(a, attr_):
                    for x in ast.walk(a):
                        if isinstance(x, (ast.Assign, ast.AnnAssign, ast.AugAssign)):
                            tg = x.targets if isinstance(x, ast.Assign) else [x.target]
                            for t_ in tg:
                                base = t_.value if isinstance(t_, ast.Subscript) else t_
                                if isinstance(base, ast.Attribute) and base.attr == attr_ and dotted(base.value) == "self" and (not isinstance(x, ast.AnnAssign) or x.value is not None):
                                    return True
                        if isinstance(x, ast.Call) and isinstance(x.func, ast.Attribute) and x.func.attr in ("update", "clear", "pop", "setdefault") \
                                and isinstance(x.func.value, ast.Attribute) and x.func.value.attr == attr_ and dotted(x.func.value.value) == "self":
                            return True
                    return False
                from ..cfg import own_expr
                cfg = CFG(mfi.node)
                wnodes = [nd for nd in cfg.nodes if own_expr(nd) is not None and writes(own_expr(nd), "_mask")]
                if not wnodes:
                    continue
                ctx.instance("R5.5", f"DataSet.{mname}: every change of _mask is followed by a refresh of {dattr}")
                blocked = {nd.id for nd in cfg.nodes if own_expr(nd) is not None and (writes(own_expr(nd), dattr) or
                           any(isinstance(c_, ast.Call) and dotted(c_.func) == "self.set_mask" for c_ in ast.walk(own_expr(nd))))}
                stale = None
                for wn in wnodes:
                    if wn.id in blocked:
                        continue
                    reach = cfg.reachable_from(wn.id, blocked - {wn.id})
                    if cfg.exit.id in reach:
                        stale = wn
                if stale is not None:
                    ctx.violation("R5.5", f"DataSet.{mname}:stale-{dattr}", DS, stale.ast,
                                  f"DataSet.{mname} changes _mask on a path that returns without refreshing {dattr}, which the masked/unmasked views read: "
                                  f"get_mask()/to_dict() and the filtered views disagree afterwards")
                else:
                    ctx.ok()
        for qual in ("DataSet.get_magnitudes", "DataSet.get_phases", "DataSet.get_num_points", "DataSet.get_nyquist_data",
                     "DataSet.get_bode_data", "DataSet.to_dataframe"):
            fi = model.fi(DS, qual)
            ctx.instance("R5.5", f"{qual} goes through the getters")
            direct = [n for n in walk_ordered(fi.node) if isinstance(n, ast.Attribute) and n.attr in STATE and dotted(n.value) == "self"]
            passes = all(any(k.arg == "masked" and norm(k.value) == "masked" for k in c.keywords)
                         for c in calls_in(fi.node) if dotted(c.func) in ("self.get_impedances", "self.get_frequencies"))
            if direct or not passes:
                ctx.violation("R5.5", f"{qual}:bypass", DS, fi.node,
                              f"{qual} must obtain its data through get_frequencies/get_impedances(masked=masked)")
            else:
                ctx.ok()


    # ---------------- R5.6 ---------------------------------------------------------------
    td = model.fi(DS, "DataSet.to_dict")
    rets = [n for n in walk_ordered(td.node) if isinstance(n, ast.Return)]
    if len(rets) != 1 or not isinstance(rets[0].value, ast.Dict):
        raise AnalysisError("DataSet.to_dict: dictionary display not found")
    out_keys = [k.value for k in rets[0].value.keys if isinstance(k, ast.Constant)]
    pr = model.fi(DS, "DataSet._parse")
    removed: Set[str] = set()
    added: Set[str] = set()
    read: Set[str] = set()
    dname = pr.node.args.args[0].arg
    for n in walk_ordered(pr.node):
        if isinstance(n, ast.Delete):
            for t in n.targets:
                if isinstance(t, ast.Subscript) and isinstance(t.slice, ast.Constant):
                    removed.add(t.slice.value)
        if isinstance(n, ast.Call) and isinstance(n.func, ast.Attribute) and n.func.attr == "pop" and n.args and isinstance(n.args[0], ast.Constant) \
                and norm(n.func.value) == dname:
            removed.add(n.args[0].value)
        if isinstance(n, ast.Assign) and isinstance(n.targets[0], ast.Subscript) and isinstance(n.targets[0].slice, ast.Constant) \
                and norm(n.targets[0].value) == dname:
            added.add(n.targets[0].slice.value)
        if isinstance(n, ast.Subscript) and isinstance(n.ctx, ast.Load) and isinstance(n.slice, ast.Constant) and norm(n.value) == dname:
            read.add(n.slice.value)
    init = model.fi(DS, "DataSet.__init__")
    params = [a.arg for a in init.node.args.args][1:]
    required = params[: len(params) - len(init.node.args.defaults)]
    result = (set(out_keys) - removed) | added
    ctx.instance("R5.6", f"to_dict keys {sorted(out_keys)} → _parse → {sorted(result)} vs __init__{params}")
    if not result <= set(params) or not set(required) <= result:
        ctx.violation("R5.6", "to_dict/_parse/__init__:keys", DS, pr.node,
                      f"keys after _parse {sorted(result)} do not fit DataSet.__init__ parameters {params} (required {required})")
    else:
        ctx.ok()
    ctx.instance("R5.6", "keys read by _parse are written by to_dict")
    missing = (read - set(out_keys)) - added
    if missing:
        ctx.violation("R5.6", "to_dict/_parse:read-keys", DS, pr.node, f"_parse reads keys {sorted(missing)} that to_dict does not write")
    else:
        ctx.ok()
    v1 = model.fi(DS, "_parse_v1")
    v1_new = set()
    for n in walk_ordered(v1.node):
        if isinstance(n, ast.Assign) and isinstance(n.targets[0], ast.Subscript) and isinstance(n.targets[0].slice, ast.Constant):
            v1_new.add(n.targets[0].slice.value)
    ctx.instance("R5.6", f"_parse_v1 renames onto {sorted(v1_new)}")
    if v1_new <= set(out_keys) and v1_new:
        ctx.ok()
    else:
        ctx.violation("R5.6", "_parse_v1:targets", DS, v1.node, f"_parse_v1 produces keys {sorted(v1_new - set(out_keys))} that are not version-2 keys")
    ver = fold_const(model.const(DS, "VERSION"))
    pd = next((n for n in walk_ordered(pr.node) if isinstance(n, (ast.Assign, ast.AnnAssign)) and norm(n.targets[0] if isinstance(n, ast.Assign) else n.target) == "parsers"), None)
    if pd is not None and isinstance(pd.value, ast.Name):
        # the table may be a module-level constant the local name refers to
        from ..elements import module_consts
        tv = module_consts(ctx.repo, DS).get(pd.value.id)
        if isinstance(tv, ast.Dict):
            import copy as _c
            pd = _c.copy(pd)
            pd.value = tv
    if pd is None or not isinstance(pd.value, ast.Dict):
        raise AnalysisError("DataSet._parse: parsers table not found")
    pkeys = [k.value for k in pd.value.keys if isinstance(k, ast.Constant)]
    ctx.instance("R5.6", f"VERSION={ver} in parsers {pkeys}")
    if ver in pkeys and sorted(pkeys) == list(range(1, ver + 1)):
        ctx.ok()
    else:
        ctx.violation("R5.6", "VERSION:no-parser", DS, pd, f"parsers table {pkeys} does not cover versions 1..{ver}")

    # ---------------- R5.7 ---------------------------------------------------------------
    allowed = {"_frequencies": {"__init__"}, "_impedances": {"__init__", "subtract_impedances"}, "_mask": {"__init__", "set_mask"}}
    n_w = 0
    for mname, mod in ctx.repo.modules.items():
        for n in walk_ordered(mod.tree, into_functions=True):
            tgt = None
            how = None
            if isinstance(n, ast.Assign):
                for t in n.targets:
                    base = t.value if isinstance(t, ast.Subscript) else t
                    if isinstance(base, ast.Attribute) and base.attr in STATE:
                        tgt, how = base, "store"
            elif isinstance(n, (ast.AugAssign, ast.AnnAssign)):
                t = n.target
                base = t.value if isinstance(t, ast.Subscript) else t
                if isinstance(base, ast.Attribute) and base.attr in STATE and (not isinstance(n, ast.AnnAssign) or n.value is not None):
                    tgt, how = base, "store"
            elif isinstance(n, ast.Call) and isinstance(n.func, ast.Attribute) and n.func.attr in ("update", "clear", "pop", "sort", "fill", "setdefault") \
                    and isinstance(n.func.value, ast.Attribute) and n.func.value.attr in STATE:
                tgt, how = n.func.value, n.func.attr
            elif isinstance(n, ast.Delete):
                for t in n.targets:
                    base = t.value if isinstance(t, ast.Subscript) else t
                    if isinstance(base, ast.Attribute) and base.attr in STATE:
                        tgt, how = base, "del"
            if tgt is None:
                continue
            # only DataSet state: receiver self inside DataSet, or anything named like a data set elsewhere
            from ..core import enclosing_function_name
            fn = enclosing_function_name(n)
            in_ds = mname == DS and fn.startswith("DataSet.")
            if not in_ds and dotted(tgt.value) == "self":
                continue  # another class's own attribute of the same name
            n_w += 1
            meth = fn.split(".")[1] if in_ds else fn
            ctx.instance("R5.7", f"{mname.split('.')[-1]}:{fn} writes {tgt.attr} ({how})")
            if in_ds and meth in allowed[tgt.attr]:
                ctx.ok()
            else:
                ctx.violation("R5.7", f"{mname}:{fn}:{tgt.attr}", mname, n,
                              f"{fn} writes DataSet.{tgt.attr}; only {sorted(allowed[tgt.attr])} may (alignment of the parallel arrays)")
    if n_w < 4:
        raise AnalysisError(f"R5.7: only {n_w} writers of DataSet state found (floor 4)")
    # only __init__ reorders
    ds_cls = model.classes[f"{DS}:DataSet"]
    for mname, fi in ds_cls.methods.items():
        if mname == "__init__":
            continue
        for c in calls_in(fi.node):
            if dotted(c.func) in ("flip", "sorted", "argsort", "sort") or (isinstance(c.func, ast.Attribute) and c.func.attr in ("sort", "reverse")):
                if any(a in norm(c) for a in STATE):
                    ctx.violation("R5.7", f"DataSet.{mname}:reorders", DS, c, f"DataSet.{mname} reorders stored points ({norm(c)[:50]})")

    # subtraction applies to every stored point alike (the mask decides visibility, not arithmetic)
    sub = model.fi(DS, "DataSet.subtract_impedances")
    ctx.instance("R5.7", "subtract_impedances is mask-independent whole-array arithmetic")
    reads_mask = [n for n in walk_ordered(sub.node) if (isinstance(n, ast.Attribute) and n.attr == "_mask" and dotted(n.value) == "self") or
                  (isinstance(n, ast.Call) and isinstance(n.func, ast.Attribute) and dotted(n.func.value) == "self" and n.func.attr.startswith("get_")
                   and any(k.arg == "masked" for k in n.keywords))]
    asg = [n for n in walk_ordered(sub.node) if isinstance(n, (ast.Assign, ast.AugAssign)) and any(
        norm(t).startswith("self._impedances") for t in (n.targets if isinstance(n, ast.Assign) else [n.target]))]
    whole = bool(asg) and all(isinstance(n, ast.Assign) and norm(n.targets[0]) == "self._impedances" and isinstance(n.value, ast.BinOp) and isinstance(n.value.op, ast.Sub)
                              and norm(n.value.left) == "self._impedances" and norm(n.value.right) == "impedances" for n in asg)
    if reads_mask:
        ctx.violation("R5.7", "subtract_impedances:mask-dependent", DS, reads_mask[0],
                      "subtract_impedances consults the mask: masked and unmasked points can be treated differently, so a point's impedance no longer follows the same history as its neighbours")
    elif not whole:
        ctx.violation("R5.7", "subtract_impedances:not-whole-array", DS, sub.node,
                      "subtract_impedances must rebind self._impedances = self._impedances - impedances (a new array for all points); in-place or index-restricted updates alter arrays handed out earlier or only some points")
    else:
        ctx.ok()

    # ---------------- R5.8 ---------------------------------------------------------------
    gm = model.fi(DS, "DataSet.get_mask")
    ctx.instance("R5.8", "get_mask returns a copy")
    r = [n for n in walk_ordered(gm.node) if isinstance(n, ast.Return)]
    if len(r) == 1 and norm(r[0].value) in ("self._mask.copy()", "dict(self._mask)"):
        ctx.ok()
    else:
        ctx.violation("R5.8", "get_mask:alias", DS, gm.node, "get_mask hands out the internal mask dictionary itself: low_pass/high_pass and callers would edit the stored mask behind set_mask's range filter")
    gi = model.fi(DS, "DataSet.get_impedances")
    if any(isinstance(n, ast.Return) and norm(n.value) == "self._impedances" for n in walk_ordered(gi.node)):
        ctx.note("get_impedances(masked=None) returns the internal array itself while get_frequencies(None) and get_mask copy (sibling inconsistency; not a violation of the stated property)")
    # values obtained from a getter that hands out internal state must not be modified in place
    gi_alias = any(isinstance(n, ast.Return) and norm(n.value) == "self._impedances" for n in walk_ordered(gi.node))
    if gi_alias:
        n_alias = 0
        for q, fi in sorted(model.funcs.items()):
            if not (fi.module == DS or fi.module.startswith("pyimpspec.analysis") or fi.module.startswith("pyimpspec.cli") or fi.module == "pyimpspec.circuit"):
                continue
            srcs = [c for c in calls_in(fi.node, into_functions=True) if isinstance(c.func, ast.Attribute) and c.func.attr == "get_impedances"
                    and (any(k.arg == "masked" and isinstance(k.value, ast.Constant) and k.value.value is None for k in c.keywords)
                         or (c.args and isinstance(c.args[0], ast.Constant) and c.args[0].value is None))]
            lam = [c for n in walk_ordered(fi.node) if isinstance(n, ast.Lambda) for c in calls_in(n.body) if isinstance(c.func, ast.Attribute) and c.func.attr == "get_impedances"
                   and any(k.arg == "masked" and isinstance(k.value, ast.Constant) and k.value.value is None for k in c.keywords)]
            srcs += lam
            if not srcs:
                continue
            tainted = set()
            for _ in range(3):
                for n in walk_ordered(fi.node):
                    if isinstance(n, (ast.Assign, ast.AnnAssign)) and n.value is not None:
                        t = n.targets[0] if isinstance(n, ast.Assign) else n.target
                        v = n.value
                        hit = any(x in srcs for x in ast.walk(v)) or any(isinstance(x, ast.Name) and x.id in tainted for x in ast.walk(v))
                        # arithmetic creates a new array; copies too
                        fresh = isinstance(v, ast.BinOp) or (isinstance(v, ast.Call) and (dotted(v.func) in ("mean", "array", "copy", "deepcopy", "abs", "angle") or
                                                                                          (isinstance(v.func, ast.Attribute) and v.func.attr in ("copy", "astype"))))
                        if hit and not fresh and isinstance(t, ast.Name):
                            tainted.add(t.id)
                    if isinstance(n, ast.For) and any(isinstance(x, ast.Name) and x.id in tainted for x in ast.walk(n.iter)):
                        for x in ast.walk(n.target):
                            if isinstance(x, ast.Name):
                                tainted.add(x.id)
            for n in walk_ordered(fi.node):
                bad = None
                if isinstance(n, ast.AugAssign):
                    base = n.target.value if isinstance(n.target, ast.Subscript) else n.target
                    if isinstance(base, ast.Name) and base.id in tainted:
                        bad = n
                elif isinstance(n, ast.Assign) and isinstance(n.targets[0], ast.Subscript) and isinstance(n.targets[0].value, ast.Name) and n.targets[0].value.id in tainted:
                    bad = n
                elif isinstance(n, ast.Call) and isinstance(n.func, ast.Attribute) and n.func.attr in ("sort", "fill", "resize", "put", "itemset") \
                        and isinstance(n.func.value, ast.Name) and n.func.value.id in tainted:
                    bad = n
                if bad is not None:
                    n_alias += 1
                    ctx.instance("R5.8", f"{fi.qual}: in-place update of an array obtained from get_impedances(masked=None)")
                    ctx.violation("R5.8", f"{fi.qual}:inplace-on-internal-array", fi.module, bad,
                                  f"{fi.qual} modifies in place ({norm(bad)[:50]}) an array that get_impedances(masked=None) hands out without copying: "
                                  f"the stored impedances of that data set change behind its back")
        ctx.instance("R5.8", f"in-place updates of arrays aliasing DataSet._impedances: {n_alias}")
        if n_alias == 0:
            ctx.ok()
    ctx.sample({"to_dict_keys": out_keys, "parse_removed": sorted(removed), "parse_added": sorted(added), "init_params": params})


def _filter_shape(fn: ast.AST, attr: str):
    """(predicate text with the index as <i>, set of self attributes the predicate reads, source ok, element ok)"""
    comps = [n for n in walk_ordered(fn) if isinstance(n, ast.ListComp)]
    if len(comps) == 1 and len(comps[0].generators) == 1:
        g = comps[0].generators[0]
        if isinstance(g.target, ast.Tuple) and len(g.target.elts) == 2 and isinstance(g.iter, ast.Call) and dotted(g.iter.func) == "enumerate":
            idx, item = g.target.elts[0].id, g.target.elts[1].id
            pred = " and ".join(norm(c).replace(idx, "<i>") for c in g.ifs)
            fl = {n.attr for c in g.ifs for n in ast.walk(c) if isinstance(n, ast.Attribute) and dotted(n.value) == "self"}
            return pred, fl, norm(g.iter) == f"enumerate(self.{attr})", norm(comps[0].elt) == item
    for n in walk_ordered(fn):
        if isinstance(n, ast.Subscript) and norm(n.value) == f"self.{attr}" and isinstance(n.slice, ast.Compare) \
                and len(n.slice.ops) == 1 and isinstance(n.slice.ops[0], ast.Eq) and norm(n.slice.comparators[0]) == "masked" \
                and isinstance(n.slice.left, ast.Attribute) and dotted(n.slice.left.value) == "self":
            return norm(n.slice), {n.slice.left.attr}, True, True
    return None


def _reversal(ctx: Ctx, model) -> None:
    init = model.fi(DS, "DataSet.__init__")
    flips = [n for n in walk_ordered(init.node) if isinstance(n, ast.If) and "frequencies[-1]" in norm(n.test) and "frequencies[0]" in norm(n.test)]
    if len(flips) != 1:
        raise AnalysisError("DataSet.__init__: the ascending-input branch was not found")
    br = flips[0]
    ctx.instance("R5.3", f"DataSet.__init__: if {norm(br.test)}")
    t = norm(br.test)
    if t not in ("frequencies[-1] > frequencies[0]", "frequencies[0] < frequencies[-1]"):
        raise AnalysisError(f"DataSet.__init__: reversal test {t!r} not recognised")
    flipped = {}
    for s in br.body:
        if isinstance(s, ast.Assign) and isinstance(s.targets[0], ast.Name) and isinstance(s.value, ast.Call):
            v = norm(s.value)
            name = s.targets[0].id
            if v in (f"flip({name})", f"{name}[::-1]", f"array(list(reversed({name})))"):
                flipped[name] = flipped.get(name, 0) + 1
        elif isinstance(s, ast.Assign) and isinstance(s.targets[0], ast.Name) and isinstance(s.value, ast.Subscript) and norm(s.value.slice) == "::-1":
            flipped[s.targets[0].id] = flipped.get(s.targets[0].id, 0) + 1
    if flipped.get("frequencies", 0) % 2 != 1:
        ctx.violation("R5.3", "__init__:frequencies-not-reversed", DS, br, "ascending input is detected but the frequencies are not reversed exactly once")
    else:
        ctx.ok()
    if flipped.get("impedances", 0) % 2 != 1:
        ctx.violation("R5.3", "__init__:impedances-not-reversed", DS, br, "frequencies are reversed but the impedances are not reversed exactly once: points get the wrong impedance")
    else:
        ctx.ok()
    # mask re-indexing
    ctx.instance("R5.3", "DataSet.__init__: mask re-indexing under the reversal")
    net = _mask_permutation(br)
    if net is None:
        raise AnalysisError("DataSet.__init__: mask re-indexing idiom under the reversal branch not recognised")
    kind, where = net
    if kind == "reversal":
        ctx.ok()
    else:
        ctx.violation("R5.3", f"__init__:mask-{kind}", DS, where,
                      f"under the reversal of ascending input the mask keys undergo the permutation '{kind}' instead of i ↦ n-1-i: "
                      f"a mask given with ascending data lands on the wrong points")
    ctx.extra_cov["mask_permutation_model"] = {"kind": kind, "n_checked": list(range(1, 13))}


def _mask_permutation(br: ast.If) -> Optional[Tuple[str, ast.AST]]:
    """Net permutation applied to mask keys inside the reversal branch:
    'reversal', 'identity', 'none', or 'other'."""
    size_names = ("frequencies.size", "len(frequencies)", "len(impedances)", "impedances.size", "n", "num_points")
    # (a) comprehension re-keying
    for n in walk_ordered(br):
        if isinstance(n, ast.Assign) and norm(n.targets[0]) == "mask" and isinstance(n.value, ast.DictComp):
            dc = n.value
            if len(dc.generators) == 1 and norm(dc.generators[0].iter) in ("mask.items()",):
                k, v = [e.id for e in dc.generators[0].target.elts]
                key = norm(dc.key).replace(" ", "")
                val = norm(dc.value)
                for sz in size_names:
                    if key in (f"{sz}-1-{k}".replace(" ", ""), f"{sz}-{k}-1".replace(" ", ""), f"{sz}-({k}+1)".replace(" ", "")) and val == v:
                        return "reversal", n
                if key == k and val == v:
                    return "identity", n
                return "other", n
    # (b) swap loop
    for lp in [n for n in walk_ordered(br) if isinstance(n, ast.For)]:
        if not (isinstance(lp.iter, ast.Call) and dotted(lp.iter.func) == "range" and isinstance(lp.target, ast.Name)):
            continue
        i = lp.target.id
        env_src = {}
        j_expr = None
        stores = []
        temp = {}
        for s in lp.body:
            if isinstance(s, (ast.Assign, ast.AnnAssign)):
                t = s.targets[0] if isinstance(s, ast.Assign) else s.target
                v = s.value
                if v is None:
                    continue
                if isinstance(t, ast.Name) and isinstance(v, ast.Call) and norm(v.func) == "mask.get":
                    temp[t.id] = norm(v.args[0])
                elif isinstance(t, ast.Name):
                    j_expr = (t.id, v)
                elif isinstance(t, ast.Subscript) and norm(t.value) == "mask":
                    if isinstance(v, ast.Call) and norm(v.func) == "mask.get":
                        stores.append((norm(t.slice), ("key", norm(v.args[0]))))
                    elif isinstance(v, ast.Name) and v.id in temp:
                        stores.append((norm(t.slice), ("key", temp[v.id])))
                    else:
                        return None
        if j_expr is None or len(stores) != 2:
            return None
        j, jv = j_expr
        # swap shape: mask[i] <- old mask[j]; mask[j] <- old mask[i]
        if not (stores[0] == (i, ("key", j)) and stores[1] == (j, ("key", i))):
            return None

        def ev(node, n, ival=None):
            src = norm(node)
            for sz in ("frequencies.size", "len(frequencies)", "impedances.size", "len(impedances)"):
                src = src.replace(sz, "n")
            allowed = set("n0123456789+-*/() i")
            if not set(src) <= allowed:
                raise ValueError(src)
            return eval(src, {"__builtins__": {}}, {"n": n, "i": ival})

        try:
            kinds = set()
            for n in range(1, 13):
                args = [ev(a, n) for a in lp.iter.args]
                perm = list(range(n))
                for iv in range(*args):
                    jvv = ev(jv, n, iv)
                    if not (0 <= iv < n and 0 <= jvv < n):
                        return "other", lp
                    perm[iv], perm[jvv] = perm[jvv], perm[iv]
                if perm == list(range(n))[::-1]:
                    kinds.add("reversal" if n > 1 else "any")
                elif perm == list(range(n)):
                    kinds.add("identity" if n > 1 else "any")
                else:
                    kinds.add("other")
            kinds.discard("any")
            if kinds == {"reversal"}:
                return "reversal", lp
            if kinds == {"identity"}:
                return "identity", lp
            return "other", lp
        except ValueError:
            return None
    # (c) no mask handling at all inside the branch
    if not any("mask" in norm(n) for n in br.body):
        return "none", br
    return None
