"""Shared rule: the substitution table built by Element.to_sympy / Container.to_sympy.

The functions depend on their inputs only through a finite abstraction — `substitute` (2), whether the label is
empty (2), the sign of the identifier (2, plus the value itself being copied), the class of each parameter value
(finite, +inf, −inf), whether a sub-circuit is absent — so they are interpreted (sa.miniinterp, on the AST) over
every combination and the resulting table compared with the specification:

  substitute=False → {key: key_<label> if labelled else key_<identifier> if identifier >= 0 else key}
  substitute=True  → {key: 'oo' | '-oo' | value}; sub-circuits: absent → 'oo', else its own to_sympy(substitute, identifiers)
  result = self._sympy(substitute=…, identifier(s)=…, …).subs(table)
"""
from __future__ import annotations

import math
from typing import Any, Dict, List, Tuple

from ..core import AnalysisError
from ..miniinterp import InterpRaise, Mini


class _Expr:
    def __init__(self, owner):
        self.owner = owner

    def subs(self, d):
        return ("SUBS", dict(d), self.owner.sympy_kwargs)


class _Child:
    def __init__(self):
        self.calls = []

    def to_sympy(self, *a, **kw):
        self.calls.append((a, kw))
        return ("CHILD", kw.get("substitute", a[0] if a else None), id(kw.get("identifiers", a[1] if len(a) > 1 else None)))


class _Self:
    def __init__(self, label, values, subcircuits=None):
        self._label = label
        self._values = values
        self._subs = subcircuits or {}
        self.sympy_kwargs = None
        self.gen = []

    def get_label(self):
        return self._label

    def get_values(self):
        return dict(self._values)

    def get_subcircuits(self):
        return dict(self._subs)

    def generate_element_identifiers(self, running=None, **kw):
        self.gen.append(running)
        return {self: (70 if running else 7)}

    def _sympy(self, **kw):
        self.sympy_kwargs = kw
        return _Expr(self)


STUBS = {"_is_boolean": lambda x: isinstance(x, bool), "_is_integer": lambda x: isinstance(x, int) and not isinstance(x, bool),
         "isposinf": lambda x: x == math.inf, "isneginf": lambda x: x == -math.inf, "isinf": lambda x: abs(x) == math.inf, "inf": math.inf}
VALUES = {"A": 2.5, "B": math.inf, "C": -math.inf, "D": 3e-13, "E": 0.1}  # D: a small but legal value (lower limits are 1e-24 or 0)


def _globals(model) -> Dict[str, Any]:
    """Module-level helpers of base.py are interpreted too; names imported from SymPy are SymPy's own functions (library
    semantics are trusted, the repository's are not)."""
    import ast
    import sympy
    from ..miniinterp import module_globals
    tree = model.repo.modules["pyimpspec.circuit.base"].tree
    lib: Dict[str, Any] = {}
    for st in tree.body:
        if isinstance(st, ast.ImportFrom) and st.module == "sympy":
            for a in st.names:
                if hasattr(sympy, a.name):
                    lib[a.asname or a.name] = getattr(sympy, a.name)
    lib.update(STUBS)
    g = module_globals(tree, lib)
    g.update(lib)
    return g


def _same_table(got: Dict[str, Any], want: Dict[str, Any]) -> bool:
    if set(got) != set(want):
        return False
    for k, w in want.items():
        g = got[k]
        if isinstance(w, float) and not isinstance(g, (str, tuple)) and g is not None:
            try:
                if abs(complex(g) - w) > 1e-12 * abs(w):
                    return False
            except (TypeError, ValueError):
                return False
        elif isinstance(w, str) and w in ("oo", "-oo") and not isinstance(g, (str, tuple)) and g is not None:
            try:
                if float(g) != (math.inf if w == "oo" else -math.inf):
                    return False
            except (TypeError, ValueError):
                return False
        elif g != w:
            return False
    return True


def _expected(values, label, identifier, substitute) -> Dict[str, Any]:
    if substitute:
        return {k: ("oo" if v == math.inf else "-oo" if v == -math.inf else v) for k, v in values.items()}
    if label != "":
        return {k: f"{k}_{label}" for k in values}
    if identifier >= 0:
        return {k: f"{k}_{identifier}" for k in values}
    return {k: k for k in values}


def naming_problems(model, qual: str) -> Tuple[List[Dict[str, Any]], int]:
    """→ (problems, number of abstract inputs interpreted).  problem = dict(kind='naming'|'substitution'|'result'|'raises', input=…, got=…, want=…)"""
    fi = model.fi("pyimpspec.circuit.base", qual)
    problems: List[Dict[str, Any]] = []
    n = 0
    container = qual.startswith("Container")
    glob = _globals(model)
    for substitute in (False, True):
        for label in ("", "lbl"):
            for ident in ((-1, 0, 5) if not container else ("none", 4)):
                n += 1
                child = _Child()
                me = _Self(label, VALUES, {"X": None, "Y": child} if container else None)
                args: Dict[str, Any] = {"self": me, "substitute": substitute}
                idmap = None
                if container:
                    idmap = None if ident == "none" else {me: ident}
                    args["identifiers"] = idmap
                    identifier = 7 if ident == "none" else ident
                else:
                    args["identifier"] = ident
                    identifier = ident
                desc = f"substitute={substitute}, label={label!r}, identifier{'s' if container else ''}={ident}"
                try:
                    out = Mini(glob).call_function(fi.node, args)
                except InterpRaise as e:
                    problems.append(dict(kind="raises", input=desc, got=e.kind, want="a SymPy expression"))
                    continue
                if not (isinstance(out, tuple) and out and out[0] == "SUBS"):
                    problems.append(dict(kind="result", input=desc, got=repr(out)[:80], want="self._sympy(…).subs(table)"))
                    continue
                table, kw = out[1], out[2] or {}
                want = _expected(VALUES, label, identifier, substitute)
                if container:
                    used_ids = kw.get("identifiers")
                    want = dict(want)
                    want["X"] = "oo"
                    want["Y"] = ("CHILD", substitute, id(used_ids))
                    if ident == "none" and me.gen != [False]:
                        problems.append(dict(kind="naming", input=desc, got=f"generate_element_identifiers(running={me.gen})", want="generate_element_identifiers(running=False) when no identifiers are given"))
                    if ident != "none" and used_ids is not idmap:
                        problems.append(dict(kind="naming", input=desc, got="another identifier map is handed to _sympy", want="the caller's identifiers"))
                if not _same_table(table, want):
                    bad_names = not substitute and {k: table.get(k) for k in VALUES} != {k: want[k] for k in VALUES}
                    problems.append(dict(kind="naming" if bad_names else "substitution", input=desc, got=_short(table), want=_short(want)))
                if kw.get("substitute") is not substitute:
                    problems.append(dict(kind="result", input=desc, got=f"_sympy(substitute={kw.get('substitute')!r})", want=f"_sympy(substitute={substitute})"))
                if not container and kw.get("identifier") != identifier:
                    problems.append(dict(kind="naming", input=desc, got=f"_sympy(identifier={kw.get('identifier')!r})", want=f"_sympy(identifier={identifier})"))
    return problems, n


def _short(d) -> str:
    return "{" + ", ".join(f"{k}: {('<child expr>' if isinstance(v, tuple) else v)!r}" for k, v in d.items()) + "}"
