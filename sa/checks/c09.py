"""C09 — Kramers-Kronig verdicts do not depend on units or point order.

Decides dimensional homogeneity of the linear Kramers-Kronig pipeline, which
is the mechanism of the invariance: every design-matrix column is homogeneous
under (ω → kω, τ → τ/k); time constants scale as 1/k and do not see Z; the
fitted parameters therefore rescale with exactly the degrees their declared
units prescribe; weight, residual and pseudo chi-squared terms have degree 0.
Terms are the ones extracted for C07; homogeneity is decided by substitution
and simplification (sympy), not by running anything."""
from __future__ import annotations

import ast
import itertools
from typing import Any, Dict, List, Optional, Tuple

import sympy as sp

from ..core import AnalysisError, Ctx, calls_in, dotted, norm, walk_ordered
from ..elements import registered_elements
from ..model import get_model
from ..numeric import RepoInterp
from ..terms import Unsupported
from .c07 import LS, MI, TAU, UT, W, XC, XK, XL, XR, columns_of, mapping_of, zero_guard_rule

LEVEL = "other"
KK = "pyimpspec.analysis.kramers_kronig"
K = sp.Symbol("k", positive=True)
C = sp.Symbol("c", positive=True)

UNIT_DEG = {  # unit string → (degree in Z, degree in f)
    "ohm": (1, 0), "F": (-1, -1), "H": (1, -1), "s": (0, -1), "": (0, 0), "S": (-1, 0),
}


def hom_degree(term: sp.Expr) -> Optional[int]:
    """d such that term(kω, τ/k) = k**d · term(ω, τ), or None."""
    term = sp.sympify(term)
    if term == 0:
        return 0
    scaled = term.subs({W: K * W, TAU: TAU / K}, simultaneous=True)
    ratio = sp.simplify(scaled / term)
    for d in (-2, -1, 0, 1, 2):
        if sp.simplify(ratio - K ** d) == 0:
            return d
    return None


def check(ctx: Ctx) -> None:
    model = get_model(ctx.repo)
    ctx.modules_consulted.update({LS, MI, UT, "pyimpspec.analysis.utility"})
    ctx.rule("R9.1", "every design-matrix column is homogeneous under (ω→kω, τ→τ/k), with one degree for all its row blocks")
    ctx.rule("R9.2", "fitted parameters rescale with the degrees their declared units prescribe (x_j scales as b/col_j; mapping from _update_circuit)")
    ctx.rule("R9.3", "time constants: τ(k·ω) = τ(ω)/k, computed from max/min of ω only (order-free) and independent of Z")
    ctx.rule("R9.4", "weight has degree -2 in the immittance; residual and pseudo chi-squared summand have degree 0; matrix-inversion row scaling is one factor for A and b")
    ctx.rule("R9.5", "numeric literals assigned to dimensioned fit variables are the reviewed nullifying constants")
    ctx.assumptions += [
        "equivariance of the least-squares solution: if every column j of A scales by a factor s_j and b by a factor t (uniformly over rows), the minimiser scales as x_j → (t/s_j)·x_j",
        "well-conditioned design matrix (the property's quantifier)",
    ]
    eds = {e.cls: e for e in registered_elements(ctx.repo)}

    def unit_deg(cls: str, p: str) -> Tuple[int, int]:
        u = next(x.unit for x in eds[cls].params if x.symbol == p)
        if u not in UNIT_DEG:
            raise AnalysisError(f"unit {u!r} of {cls}.{p} not in the unit table")
        return UNIT_DEG[u]

    # ---------------- R9.1 / R9.2 ------------------------------------------------------
    var_of = {"R": XR, "k": XK, "C": XC, "L": XL}
    for impl, mod in (("least_squares", LS), ("matrix_inversion", MI)):
        adders = {
            "R": model.fi(mod, "_add_resistance_to_A_matrix"),
            "k": model.fi(mod, "_add_kth_variables_to_A_matrix" if impl == "least_squares" else "_add_kth_variables_to_A_matrices"),
            "C": model.fi(mod, "_add_capacitance_to_A_matrix"),
            "L": model.fi(mod, "_add_inductance_to_A_matrix"),
        }
        upd = model.fi(mod, "_update_circuit")
        for adm in (False, True):
            consts = {"test": "complex", "admittance": adm, "add_capacitance": True, "add_inductance": True}
            degs: Dict[str, int] = {}
            for cid, fi in adders.items():
                cols = columns_of(model, fi, consts)
                blocks = {b: t for m_ in cols.values() for b, t in m_.items()}
                ds = {b: hom_degree(t) for b, t in blocks.items()}
                ctx.instance("R9.1", f"{impl}/{'Y' if adm else 'Z'}: column {cid} degrees {ds}")
                vals = set(ds.values())
                if None in vals or len(vals) != 1:
                    ctx.violation("R9.1", f"{impl}:{'Y' if adm else 'Z'}:column-{cid}", mod, fi.node,
                                  f"{impl}, {'admittance' if adm else 'impedance'}: column {cid} is not homogeneous under a change of the frequency unit "
                                  f"(per-block degrees {ds}; terms {blocks}): residuals would depend on the unit of frequency")
                    continue
                ctx.ok()
                degs[cid] = vals.pop()
            if len(degs) < 4:
                continue
            g = mapping_of(model, upd, consts, [XR, XK, XC, XL])
            # x_j → c^(±1) · k^(−d_j) · x_j   (b scales as c for Z, 1/c for Y; b has frequency degree 0)
            zsign = -1 if adm else 1
            scale = {var_of[cid]: (C ** zsign) * K ** (-d) * var_of[cid] for cid, d in degs.items()}
            expect = {"Resistor.R": ("Resistor", "R"), "Capacitor.C": ("Capacitor", "C"), "Inductor.L": ("Inductor", "L"),
                      ("KramersKronigAdmittanceRC.C" if adm else "KramersKronigRC.R"): (("KramersKronigAdmittanceRC", "C") if adm else ("KramersKronigRC", "R"))}
            for pname, (cls, sym) in expect.items():
                term = g.get(pname)
                if term is None:
                    raise AnalysisError(f"{impl}: mapping for {pname} not found")
                dz, df = unit_deg(cls, sym)
                got = sp.simplify(term.subs(scale, simultaneous=True) / term)
                want = C ** dz * K ** df
                ctx.instance("R9.2", f"{impl}/{'Y' if adm else 'Z'}: {pname} scales as {got} (unit {next(x.unit for x in eds[cls].params if x.symbol == sym)!r} → {want})")
                if sp.simplify(got - want) == 0:
                    ctx.ok()
                else:
                    ctx.violation("R9.2", f"{impl}:{'Y' if adm else 'Z'}:{pname}", mod, upd.node,
                                  f"{impl}, {'admittance' if adm else 'impedance'}: {pname} = {term} rescales as {got} under Z→cZ, f→kf, but its unit prescribes {want}")

    # ---------------- R9.3 ------------------------------------------------------------------
    tc = model.fi(UT, "_generate_time_constants")
    Mx, Mn = sp.symbols("w_max w_min", positive=True)

    def extra_call(fi, name, node, args, kwargs, env):
        if name == "max" and len(node.args) == 1 and norm(node.args[0]) == "w":
            return Mx
        if name == "min" and len(node.args) == 1 and norm(node.args[0]) == "w":
            return Mn
        if name in ("array", "list", "range", "arange", "linspace"):
            return sp.Symbol("k_index", positive=True)
        if name == "log":
            r = model.resolve(fi.module, "log")
            if r and r[1].endswith("log10"):
                return sp.log(args[0]) / sp.log(10)
            return sp.log(args[0])
        return NotImplemented

    interp = RepoInterp(model, extra_call=extra_call, decide=lambda t, e: False if "num_RC < 2" in norm(t) else None)
    n = sp.Symbol("num_RC", positive=True)
    positional = [x for x in walk_ordered(tc.node) if isinstance(x, ast.Subscript) and norm(x.value) == "w"]
    if positional:
        ctx.instance("R9.3", "time constants read individual positions of ω")
        ctx.violation("R9.3", "_generate_time_constants:order", UT, positional[0],
                      f"time constants are computed from {norm(positional[0])}, a particular position of the frequency array, instead of max/min: they depend on the order of the points")
        return
    try:
        paths = [p for p in interp.paths(tc, {"w": sp.Symbol("w_array"), "num_RC": n, "log_F_ext": sp.Symbol("log_F_ext", real=True)}) if p.kind == "return"]
    except Unsupported as e:
        raise AnalysisError(f"_generate_time_constants outside the term fragment: {e}")
    if len(paths) != 1:
        raise AnalysisError("_generate_time_constants: expected one return path")
    tau_term = paths[0].value
    ctx.instance("R9.3", f"τ_k = {str(tau_term)[:100]}")
    if sp.Symbol("w_array") in tau_term.free_symbols:
        ctx.violation("R9.3", "_generate_time_constants:order", UT, tc.node, "time constants depend on ω other than through max(ω) and min(ω): they depend on the order or the individual positions of the points")
    else:
        ratio = sp.simplify(sp.expand_log(sp.simplify(tau_term.subs({Mx: K * Mx, Mn: K * Mn}, simultaneous=True) / tau_term), force=True))
        ratio = sp.simplify(sp.powsimp(sp.expand_power_base(ratio, force=True), force=True))
        ok = sp.simplify(ratio * K) == 1
        if not ok:
            # numeric confirmation on the *term* (random interpretation), e.g. when log/power normal forms differ
            import random
            rnd = random.Random(ctx.seed or 7)
            ok = True
            for _ in range(20):
                sub = {Mx: rnd.uniform(1e2, 1e6), Mn: rnd.uniform(1e-3, 1.0), K: rnd.uniform(0.01, 100), n: rnd.randint(3, 40), sp.Symbol("k_index", positive=True): rnd.randint(1, 3),
                       sp.Symbol("log_F_ext", real=True): rnd.uniform(-1, 1)}
                a = complex(sp.N(tau_term.subs({Mx: K * Mx, Mn: K * Mn}, simultaneous=True).subs(sub)))
                b = complex(sp.N(tau_term.subs(sub))) / float(sub[K])
                if abs(a - b) > 1e-9 * abs(b):
                    ok = False
        if ok:
            ctx.ok()
        else:
            ctx.violation("R9.3", "_generate_time_constants:scaling", UT, tc.node, f"time constants do not scale as 1/k when all frequencies are multiplied by k (τ_k = {tau_term})")
    ctx.instance("R9.3", "time constants are computed from w = 2πf only (no impedance data)")
    params = [a.arg for a in tc.node.args.args]
    if params == ["w", "num_RC", "log_F_ext"]:
        ctx.ok()
    else:
        ctx.violation("R9.3", "_generate_time_constants:inputs", UT, tc.node, f"_generate_time_constants takes {params}: time constants must not depend on the impedance values")

    # ---------------- R9.4 ------------------------------------------------------------------
    a1, a2, b1, b2 = sp.symbols("a1 a2 b1 b2", real=True)
    A, B = a1 + sp.I * a2, b1 + sp.I * b2
    AU = "pyimpspec.analysis.utility"
    it = RepoInterp(model, extra_call=lambda fi, name, node, args, kwargs, env: (sp.Integer(0) if name.startswith("_is_") else (args[0] if name in ("float", "array_sum") else NotImplemented)))

    def ret(mod, fn, env):
        try:
            ps = [p for p in it.paths(model.fi(mod, fn), env) if p.kind == "return"]
        except Unsupported as e:
            raise AnalysisError(f"{fn}: {e}")
        return ps[-1].value

    def zdeg(term, syms=(a1, a2, b1, b2)) -> Optional[int]:
        sc = term.subs({s: C * s for s in syms}, simultaneous=True)
        r = sp.simplify(sc / term)
        for d in (-2, -1, 0, 1, 2):
            if sp.simplify(r - C ** d) == 0:
                return d
        return None

    wt = ret(AU, "_boukamp_weight", {"Z_exp": A})
    ctx.instance("R9.4", f"analysis.utility._boukamp_weight degree {zdeg(wt)}")
    if zdeg(wt) == -2:
        ctx.ok()
    else:
        ctx.violation("R9.4", "_boukamp_weight:degree", AU, model.fi(AU, "_boukamp_weight").node, f"the weight {wt} does not scale as |Z|^-2")
    res = ret(AU, "_calculate_residuals", {"Z_exp": A, "Z_fit": B})
    ctx.instance("R9.4", f"residual degree {zdeg(res)}")
    if zdeg(res) == 0:
        ctx.ok()
    else:
        ctx.violation("R9.4", "_calculate_residuals:degree", AU, model.fi(AU, "_calculate_residuals").node, f"the residual {res} is not invariant under Z→cZ")
    chi = ret(AU, "_calculate_pseudo_chisqr", {"Z_exp": A, "Z_fit": B, "weight": wt})
    ctx.instance("R9.4", f"pseudo chi-squared summand degree {zdeg(chi)}")
    if zdeg(chi) == 0:
        ctx.ok()
    else:
        ctx.violation("R9.4", "_calculate_pseudo_chisqr:degree", AU, model.fi(AU, "_calculate_pseudo_chisqr").node, "the pseudo chi-squared summand is not invariant under Z→cZ")
    kkw = model.fi(UT, "_boukamp_weight")
    for adm in (False, True):
        itk = RepoInterp(model, decide=lambda t, e, adm=adm: adm if norm(t) == "admittance" else None)
        ps = [p for p in itk.paths(kkw, {"Z": A, "admittance": adm}) if p.kind == "return"]
        d = zdeg(sp.simplify(sp.expand_complex(ps[-1].value)), (a1, a2))
        ctx.instance("R9.4", f"kramers_kronig._boukamp_weight(admittance={adm}) degree in Z: {d}")
        if d == (2 if adm else -2):
            ctx.ok()
        else:
            ctx.violation("R9.4", f"kk._boukamp_weight:degree:{adm}", UT, kkw.node, f"the Kramers-Kronig weight for admittance={adm} does not scale as |X|^-2")

    _pseudo_chisqr_weight_rule(ctx, model)

    # ---------------- R9.5 ------------------------------------------------------------------
    reviewed = {"1e+18": "stand-in for 1/0 under an `== 0.0` guard (open resistor / inductor in the admittance map)",
                "1e-50": "stand-in for a vanishing capacitance under an `== 0.0` guard",
                "1e-18": "nullifies the capacitance variable of the real test before it is overwritten by the imaginary-part correction"}
    n_lit = 0
    for mod in (LS, MI):
        for q, fi in sorted(model.funcs.items()):
            if fi.module != mod:
                continue
            for s in walk_ordered(fi.node):
                if isinstance(s, ast.Assign) and isinstance(s.value, ast.Constant) and isinstance(s.value.value, float) and s.value.value not in (0.0, 1.0):
                    tgt = norm(s.targets[0])
                    if tgt.split("[")[0] in ("R", "L", "C", "variables", "x"):
                        n_lit += 1
                        key = f"{s.value.value:.0e}"
                        ctx.instance("R9.5", f"{fi.qual}: {tgt} = {key}")
                        if key in reviewed:
                            ctx.ok()
                        else:
                            ctx.violation("R9.5", f"{fi.qual}:{tgt}:{key}", mod, s, f"{fi.qual} assigns the dimensioned fit variable {tgt} the bare number {key}: its meaning changes with the unit of impedance/frequency")
    if n_lit < 3:
        raise AnalysisError(f"R9.5: only {n_lit} numeric literals on fit variables found (floor 3)")
    zero_guard_rule(ctx, model, "R9.5", "the tolerance is a bare number compared with a dimensioned quantity, so whether the coefficient survives depends on the unit of impedance/frequency")
    ctx.sample({"tau_term": str(tau_term)[:160]})



def _pseudo_chisqr_weight_rule(ctx: Ctx, model) -> None:
    """R9.4: the pseudo chi-squared compares impedances (degree 1), so its weight must be the impedance weight |Z|^-2 in both
    representations; a weight computed for the admittance representation (|Y|^-2 = |Z|^2) makes the statistic scale as c^4.
    Every weight argument of _calculate_pseudo_chisqr in the Kramers-Kronig package is followed to its producer (through
    local bindings, branches and the callers of the enclosing function)."""
    from ..prov import Resolver, call_args
    AUq = "pyimpspec.analysis.utility:_calculate_pseudo_chisqr"

    def callers_of(fi):
        for q, g in model.funcs.items():
            if g.module.startswith(KK):
                for c in calls_in(g.node):
                    if model.resolve_call(g, c) == fi.qname:
                        yield g, c

    def kind(fi, expr, at, depth=0) -> List[str]:
        r = Resolver(fi.node).resolve(expr, at)
        return kind_of(fi, r, depth)

    def kind_of(fi, r, depth) -> List[str]:
        if isinstance(r, ast.Constant) and r.value is None:
            return ["impedance"]
        if isinstance(r, ast.Call) and isinstance(r.func, ast.Name) and r.func.id == "phi":
            return [k for a in r.args for k in kind_of(fi, a, depth)]
        if isinstance(r, ast.Call) and dotted(r.func).split(".")[-1] == "_boukamp_weight":
            adm = next((k.value for k in r.keywords if k.arg == "admittance"), r.args[1] if len(r.args) > 1 else None)
            if adm is None or (isinstance(adm, ast.Constant) and adm.value is False):
                return ["impedance"]
            if isinstance(adm, ast.Constant) and adm.value is True:
                return ["admittance"]
            return [f"representation-specific (admittance={norm(adm)})"]
        if isinstance(r, ast.Name) and r.id in {a.arg for a in fi.node.args.posonlyargs + fi.node.args.args + fi.node.args.kwonlyargs} and depth < 3:
            out: List[str] = []
            for g, c in callers_of(fi):
                m_ = dict(call_args(c, fi.node))
                if m_.get(r.id) is None:
                    # handed over inside a keyword dictionary: **d with d = dict(name=value, …) or {"name": value, …}
                    for kw in c.keywords:
                        if kw.arg is None:
                            d_ = Resolver(g.node).resolve(kw.value, c)
                            if isinstance(d_, ast.Call) and dotted(d_.func) == "dict":
                                m_.update({k.arg: k.value for k in d_.keywords if k.arg})
                            elif isinstance(d_, ast.Dict):
                                m_.update({k.value: v for k, v in zip(d_.keys, d_.values) if isinstance(k, ast.Constant)})
                if m_.get(r.id) is None:
                    out.append("impedance" if _default_none(fi.node, r.id) else f"unknown (parameter {r.id} not passed by {g.qual})")
                else:
                    out += [k + f" via {g.qual}" if k != "impedance" else k for k in kind(g, m_[r.id], c, depth + 1)]
            return out or [f"unknown (parameter {r.id} of {fi.qual}, no caller found)"]
        return [f"unknown ({norm(r)[:60]})"]

    n = 0
    for q, fi in sorted(model.funcs.items()):
        if not fi.module.startswith(KK):
            continue
        for c in calls_in(fi.node):
            if model.resolve_call(fi, c) != AUq:
                continue
            n += 1
            w = next((k.value for k in c.keywords if k.arg == "weight"), c.args[2] if len(c.args) > 2 else None)
            kinds = ["impedance"] if w is None else kind(fi, w, c)
            ctx.instance("R9.4", f"{fi.qual}: weight of the pseudo chi-squared is {sorted(set(kinds))}")
            unknown = [k for k in kinds if k.startswith("unknown")]
            bad = [k for k in kinds if k != "impedance" and not k.startswith("unknown")]
            if bad:
                ctx.violation("R9.4", f"{fi.qual}:pseudo-chisqr-weight", fi.module, c,
                              f"{fi.qual} weights the impedance residuals of the pseudo chi-squared with a {bad[0]} weight: in the admittance representation the statistic then scales as c^4 under Z→cZ instead of being invariant")
            elif unknown:
                raise AnalysisError(f"{fi.qual}: producer of the pseudo chi-squared weight not understood: {unknown[0]}")
            else:
                ctx.ok()
    if n < 1:
        raise AnalysisError("R9.4: no pseudo chi-squared site found in the Kramers-Kronig package")


def _default_none(fn: ast.FunctionDef, name: str) -> bool:
    a = fn.args
    pos = a.posonlyargs + a.args
    for p_, d in zip(pos[len(pos) - len(a.defaults):], a.defaults):
        if p_.arg == name:
            return isinstance(d, ast.Constant) and d.value is None
    for p_, d in zip(a.kwonlyargs, a.kw_defaults):
        if p_.arg == name:
            return isinstance(d, ast.Constant) and d is not None and d.value is None
    return False
