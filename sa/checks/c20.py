"""C20 — symbolic, LaTeX and diagram exports exist for every circuit
(traversal exhaustiveness, symbols, framing)."""
from __future__ import annotations

import ast
from typing import Dict, List, Optional, Set, Tuple

from ..cfg import always_exits
from ..core import AnalysisError, Ctx, calls_in, dotted, enclosing, norm, parent, walk_ordered
from ..model import get_model

LEVEL = "other"
TIKZ = "pyimpspec.circuit.diagrams.circuitikz"
SCHEM = "pyimpspec.circuit.diagrams.schemdraw"
BASE = "pyimpspec.circuit.base"
KINDS = {"Series", "Parallel", "Element"}
COVERS = {"Series": {"Series"}, "Parallel": {"Parallel"}, "Connection": {"Series", "Parallel"}, "Element": {"Element"},
          "Container": set(), "int": set()}


def kinds_of_test(test: ast.AST, var: str) -> Optional[Set[str]]:
    """Kinds admitted by a dispatch test on `var` (None if not a kind test)."""
    if isinstance(test, ast.BoolOp) and isinstance(test.op, ast.Or):
        out: Set[str] = set()
        for v in test.values:
            k = kinds_of_test(v, var)
            if k is None:
                return None
            out |= k
        return out
    if isinstance(test, ast.Call) and dotted(test.func) == "isinstance" and len(test.args) == 2 and norm(test.args[0]) == var:
        c = norm(test.args[1])
        return set(COVERS[c]) if c in COVERS else None
    if isinstance(test, ast.Compare) and len(test.ops) == 1 and isinstance(test.ops[0], ast.Is) \
            and norm(test.left) == f"type({var})" and norm(test.comparators[0]) in COVERS:
        return set(COVERS[norm(test.comparators[0])])
    return None


def decide_kind(test: ast.AST, var: str, K: str) -> Optional[bool]:
    """Truth of a test when `var` is known to be of kind K (None: the test is not about the kind of var)."""
    if isinstance(test, ast.UnaryOp) and isinstance(test.op, ast.Not):
        d = decide_kind(test.operand, var, K)
        return None if d is None else not d
    if isinstance(test, ast.BoolOp):
        ds = [decide_kind(v, var, K) for v in test.values]
        if isinstance(test.op, ast.Or):
            if any(d is True for d in ds):
                return True
            return False if all(d is False for d in ds) else None
        if any(d is False for d in ds):
            return False
        return True if all(d is True for d in ds) else None
    if isinstance(test, ast.Call) and dotted(test.func) == "isinstance" and len(test.args) == 2 and norm(test.args[0]) == var:
        cl = test.args[1]
        names = [norm(e) for e in cl.elts] if isinstance(cl, ast.Tuple) else [norm(cl)]
        if all(n in COVERS for n in names):
            return any(K in COVERS[n] for n in names)
        return None
    if isinstance(test, ast.Compare) and len(test.ops) == 1 and isinstance(test.ops[0], (ast.Is, ast.Eq, ast.IsNot, ast.NotEq)) \
            and norm(test.left) == f"type({var})" and norm(test.comparators[0]) in COVERS:
        r = K in COVERS[norm(test.comparators[0])]
        return r if isinstance(test.ops[0], (ast.Is, ast.Eq)) else not r
    if isinstance(test, ast.Compare) and len(test.ops) == 1 and isinstance(test.ops[0], (ast.In, ast.NotIn)) and norm(test.left) == f"type({var})" \
            and isinstance(test.comparators[0], (ast.Tuple, ast.List, ast.Set)) and all(norm(e) in COVERS for e in test.comparators[0].elts):
        r = any(K in COVERS[norm(e)] for e in test.comparators[0].elts)
        return r if isinstance(test.ops[0], ast.In) else not r
    return None


def kind_outcome(stmts: List[ast.stmt], var: str, K: str, decided: bool = True):
    """('returns' | 'raises' | 'falls', statements executed under kind-decided conditions) for a child of kind K."""
    executed: List[ast.stmt] = []
    for s in stmts:
        if isinstance(s, ast.If):
            d = decide_kind(s.test, var, K)
            if d is not None:
                res, ex = kind_outcome(s.body if d else s.orelse, var, K, decided)
                executed += ex
                if res != "falls":
                    return res, executed
            else:
                r1, e1 = kind_outcome(s.body, var, K, False)
                r2, e2 = kind_outcome(s.orelse, var, K, False)
                executed.append(s)
                if r1 != "falls" and r2 != "falls":
                    return "returns", executed
        elif isinstance(s, ast.Return):
            executed.append(s)
            return "returns", executed
        elif isinstance(s, ast.Raise):
            return ("raises" if decided else "returns"), executed
        elif isinstance(s, ast.Continue):
            return "falls", executed
        elif isinstance(s, (ast.For, ast.While, ast.With, ast.Try)):
            executed.append(s)
        else:
            executed.append(s)
    return "falls", executed


def dispatch_chain(first: ast.If, var: str):
    arms: List[Tuple[Set[str], List[ast.stmt], ast.AST]] = []
    cur = first
    els: List[ast.stmt] = []
    while True:
        k = kinds_of_test(cur.test, var)
        if k is None:
            return None
        arms.append((k, cur.body, cur.test))
        if len(cur.orelse) == 1 and isinstance(cur.orelse[0], ast.If) and kinds_of_test(cur.orelse[0].test, var) is not None:
            cur = cur.orelse[0]
        else:
            els = cur.orelse
            break
    return arms, els


def find_dispatches(fn: ast.AST, var: str):
    """Top-most kind-dispatch chains on `var` inside fn (including leading early-return ifs)."""
    out = []
    seen: Set[int] = set()
    for n in walk_ordered(fn):
        if isinstance(n, ast.If) and id(n) not in seen and kinds_of_test(n.test, var) is not None:
            p = parent(n)
            if isinstance(p, ast.If) and n in p.orelse and kinds_of_test(p.test, var) is not None:
                continue
            ch = dispatch_chain(n, var)
            if ch:
                out.append((n, ch))
                cur = n
                while True:
                    seen.add(id(cur))
                    if len(cur.orelse) == 1 and isinstance(cur.orelse[0], ast.If):
                        cur = cur.orelse[0]
                    else:
                        break
    return out


def check(ctx: Ctx) -> None:
    model = get_model(ctx.repo)
    ctx.modules_consulted.update({TIKZ, SCHEM, BASE, "pyimpspec.circuit.series", "pyimpspec.circuit.parallel", "pyimpspec.circuit.circuit", "pyimpspec.circuit"})
    ctx.rule("R20.1", "exhaustive traversal: every dispatch over a child's kind covers {Series, Parallel, Element}; the fall-through raises, never skips silently; each element leaf reaches exactly one emit call")
    ctx.rule("R20.2", "to_latex is latex(to_sympy(substitute=False)); parameter variables carry the element's own identifier (one variable per parameter); identifier maps are recomputed from the current structure on every export (no stale map → KeyError); symbol tables are C02 R2.2")
    ctx.rule("R20.3", "framing: \\begin{circuitikz} first and \\end{circuitikz} last; push/pop in draw_parallel issued in equal number; exporters are installed on Circuit and Connection")

    sites = [
        (TIKZ, "to_circuitikz.phase_1_series", "element_connection", {"phase_1_element"}),
        (TIKZ, "to_circuitikz.phase_1_parallel", "element_connection", {"phase_1_element"}),
        (TIKZ, "to_circuitikz.phase_2", "element_connection", {"lines.append"}),
        (SCHEM, "to_drawing.get_width", "element_connection", set()),
        (SCHEM, "to_drawing.get_height", "element_connection", set()),
        (SCHEM, "to_drawing.draw_parallel", "elem_con", {"draw_element"}),
        (SCHEM, "to_drawing.draw_series", "elem_con", {"draw_element"}),
        ("pyimpspec.circuit.series", "Series.to_stack", "element", {"stack.append"}),
        ("pyimpspec.circuit.parallel", "Parallel.to_stack", "element", {"stack.append"}),
        ("pyimpspec.circuit.series", "Series.to_sympy", "element", set()),
        ("pyimpspec.circuit.parallel", "Parallel.to_sympy", "element", set()),
    ]
    n_sites = 0
    for mod, qual, var, emits in sites:
        fi = model.fi(mod, qual)
        if not any(kinds_of_test(n.test, var) is not None or decide_kind(n.test, var, "Series") is not None for n in walk_ordered(fi.node) if isinstance(n, ast.If)):
            raise AnalysisError(f"{qual}: no kind dispatch on `{var}` found")
        n_sites += 1
        # abstract interpretation over the kind of `var`: for each kind the isinstance tests are decided, everything else
        # is explored on both sides; a raise reached under decided tests only is a rejection of that kind
        # scope: the body of the loop that binds `var` (a child being visited), else the function body (var is a parameter)
        loops_v = [n for n in walk_ordered(fi.node) if isinstance(n, ast.For) and any(isinstance(x, ast.Name) and x.id == var for x in ast.walk(n.target))
                   and any(isinstance(m, ast.If) and decide_kind(m.test, var, "Series") is not None for m in walk_ordered(n))]
        scope = loops_v[0].body if loops_v else fi.node.body
        outcomes = {K: kind_outcome(scope, var, K) for K in sorted(KINDS)}
        valued = (not loops_v) and any(isinstance(n, ast.Return) and n.value is not None for n in walk_ordered(fi.node))
        ctx.instance("R20.1", f"{qual}: " + ", ".join(f"{K}→{outcomes[K][0]}" for K in sorted(KINDS)))
        missing = {K for K, (res, ex) in outcomes.items() if res == "raises" or (res == "falls" and valued)}
        first = next(n for n in walk_ordered(fi.node) if isinstance(n, ast.If))
        if missing:
            ctx.violation("R20.1", f"{qual}:missing-{'+'.join(sorted(missing))}", mod, first,
                          f"{qual} does not handle children of kind {sorted(missing)}: they would be skipped or rejected in this export")
        else:
            ctx.ok()
        silent = [K for K, (res, ex) in outcomes.items() if res in ("falls", "returns") and (not valued or loops_v)
                  and not any(isinstance(x, (ast.Call, ast.Assign, ast.AugAssign)) for s_ in ex for x in ast.walk(s_))]
        if silent:
            ctx.violation("R20.1", f"{qual}:silent-else", mod, first, f"{qual}: children of kind {silent} fall through the kind dispatch without anything being done (they are skipped)")
        # exactly one emit per element
        if emits:
            body = outcomes["Element"][1]
            cnt = sum(1 for s_ in body for c in calls_in(s_) if dotted(c.func) in emits)
            ctx.instance("R20.1", f"{qual}: an element child emits {cnt}×{sorted(emits)}")
            if cnt == 1:
                ctx.ok()
            else:
                ctx.violation("R20.1", f"{qual}:element-emit", mod, first,
                              f"{qual}: for an element child {sorted(emits)} is called {cnt} times; each element must be emitted exactly once")
    if n_sites < 11:
        raise AnalysisError(f"R20.1: only {n_sites} traversal sites analysed (floor 11)")
    # recursion is structural: every recursive call passes the loop child
    for mod, qual, var, _ in sites[:7]:
        fi = model.fi(mod, qual)
        name = qual.split(".")[-1]
        for c in calls_in(fi.node):
            if isinstance(c.func, ast.Name) and c.func.id in ("phase_1_series", "phase_1_parallel", "draw_series", "draw_parallel", "get_width", "get_height") and c.args:
                a = norm(c.args[0])
                ctx.instance("R20.1", f"{qual}: recursive call {c.func.id}({a})")
                if a in (var, "elem_con", "element_connection", "parallel", "series"):
                    ctx.ok()
                else:
                    ctx.violation("R20.1", f"{qual}:recursion-arg", mod, c, f"{qual} recurses on {a}, not on the child being visited")

    # ---------------- R20.2 ---------------------------------------------------------
    for mod, qual in (("pyimpspec.circuit.circuit", "Circuit.to_latex"), (BASE, "Connection.to_latex"), (BASE, "Element.to_latex")):
        fi = model.fi(mod, qual)
        ctx.instance("R20.2", qual)
        r = [n for n in walk_ordered(fi.node) if isinstance(n, ast.Return)]
        t = norm(r[0].value) if r else ""
        if len(r) == 1 and "Z = {latex(self.to_sympy(substitute=False)" in t:
            ctx.ok()
        else:
            ctx.violation("R20.2", f"{qual}:source", mod, fi.node, f"{qual} must return 'Z = ' + latex(self.to_sympy(substitute=False))")
    cs = model.fi("pyimpspec.circuit.circuit", "Circuit.to_sympy")
    ctx.instance("R20.2", "Circuit.to_sympy delegates to its series with running identifiers and checks the type")
    t = norm(cs.node)
    if "self._elements.to_sympy(substitute=substitute, identifiers=self.generate_element_identifiers(running=True))" in t:
        ctx.ok()
    else:
        ctx.violation("R20.2", "Circuit.to_sympy:delegate", "pyimpspec.circuit.circuit", cs.node, "Circuit.to_sympy must delegate to its top-level series with the running identifiers")

    # one variable per parameter / exports never read a stale identifier map (shared with C16)
    from .c16 import identifier_source_rule, recompute_rule, diagram_label_rule, label_validation_rule, identifier_forwarding_rule
    identifier_source_rule(ctx, model, "R20.2")
    recompute_rule(ctx, model, "R20.2")
    ctx.rule("R20.4", "naming: a diagram component is named <symbol>_<label or identifier> of that very element from the circuit's identifier map, unmodified; a stored label is never all digits (it would coincide with another element's identifier: fewer variables than parameters)")
    diagram_label_rule(ctx, model, "R20.4")
    label_validation_rule(ctx, model, "R20.4")
    identifier_forwarding_rule(ctx, model, "R20.4")

    # ---------------- R20.5 both exporters interpreted on every topology up to a bound -------------
    ctx.rule("R20.5", "bounded-exhaustive interpretation of to_circuitikz and to_drawing (their AST, over stand-in circuits of every topology up to the bound): no raise, one begin/end frame, balanced push/pop, one component per element named <symbol>_<label or identifier>")
    from . import _c20_layout as LAY
    general, wf = (4, 7) if ctx.tier == "quick" else (5, 8)
    layout_done = True
    try:
        rt = LAY.run(ctx, model, general, wf)
        rd = LAY.run_drawing(ctx, model, general, wf)
    except AnalysisError as e:
        layout_done = False
        ctx.note(f"R20.5: the exporters could not be interpreted ({e}); the shape rules of R20.1/R20.3/R20.4 alone decide")
    if layout_done:
        ctx.trusted.append("sa/checks/_c20_layout.py: stand-ins for Series/Parallel/Element/Circuit (children, iteration, contains(top_level), identifiers, symbol, label) and for the schemdraw recorder")
        ctx.extra_cov["layout_topologies"] = {"to_circuitikz": rt["n"], "to_drawing": rd["n"], "bounds": {"all shapes up to nodes": general, "shapes the parser's rules allow up to nodes": wf}}
        tzf, sdf = model.fi(TIKZ, "to_circuitikz"), model.fi(SCHEM, "to_drawing")
        for who, fi_, mod_, res, small_key, small_txt, others in (
                ("to_circuitikz", tzf, TIKZ, rt, "raises_small", "a parallel connection with fewer than two children", ("framing", "components", "naming")),
                ("to_drawing", sdf, SCHEM, rd, "raises_empty", "an empty connection inside a parallel connection", ("stack", "components", "naming"))):
            ctx.instance("R20.5", f"{who}: {res['n']} topologies interpreted")
            if res[small_key]:
                d_, m_ = res[small_key][0]
                ctx.violation("R20.5", f"{who}:{'parallel-with-fewer-than-two-paths' if who == 'to_circuitikz' else 'empty-connection'}", mod_, fi_.node,
                              f"{who} raises for circuits holding {small_txt} ({len(res[small_key])} of the interpreted topologies, e.g. {d_}: {m_}); such circuits can only be built through the API and simulate fine")
            else:
                ctx.ok()
            if res["raises_other"]:
                d_, m_ = res["raises_other"][0]
                ctx.violation("R20.5", f"{who}:not-total", mod_, fi_.node,
                              f"{who} raises for {len(res['raises_other'])} topologies in which every parallel connection has at least two children and no connection is empty, e.g. {d_}: {m_}")
            else:
                ctx.ok()
            for k_ in others:
                if res[k_]:
                    d_, m_ = res[k_][0]
                    ctx.violation("R20.5", f"{who}:{k_}", mod_, fi_.node, f"{who}: {m_} for {len(res[k_])} topologies, e.g. {d_}")
                else:
                    ctx.ok()

    # ---------------- R20.3 ---------------------------------------------------------
    tz = model.fi(TIKZ, "to_circuitikz")
    ctx.instance("R20.3", "circuitikz framing")
    lines_def = [n for n in walk_ordered(tz.node) if isinstance(n, (ast.Assign, ast.AnnAssign)) and norm(n.targets[0] if isinstance(n, ast.Assign) else n.target) == "lines"]
    src_def = [n for n in walk_ordered(tz.node) if isinstance(n, (ast.Assign, ast.AnnAssign)) and norm(n.targets[0] if isinstance(n, ast.Assign) else n.target) == "source"]
    ok = len(lines_def) == 1 and isinstance(lines_def[0].value, ast.List) and lines_def[0].value.elts \
        and isinstance(lines_def[0].value.elts[0], ast.Constant) and lines_def[0].value.elts[0].value == "\\begin{circuitikz}"
    ok = ok and len(src_def) == 1 and norm(src_def[0].value).endswith("'\\n\\\\end{circuitikz}'") and ".join(lines)" in norm(src_def[0].value)
    rets = [n for n in tz.node.body if isinstance(n, ast.Return)]
    ok = ok and len(rets) == 1 and norm(rets[0].value) == "source"
    # nothing is inserted before the first line / appended after the join
    ins = [c for c in calls_in(tz.node, into_functions=True) if dotted(c.func) == "lines.insert"]
    ok = ok and not ins
    if ok:
        ctx.ok()
    else:
        ctx.violation("R20.3", "to_circuitikz:framing", TIKZ, tz.node, "the source must start with \\begin{circuitikz} and end with \\end{circuitikz} on every path")
    dp = model.fi(SCHEM, "to_drawing.draw_parallel")
    ctx.instance("R20.3", "draw_parallel: push and pop in equal number")
    ok = None
    try:
        # interpreted (AST, sa.miniinterp) for 1..6 element branches with a drawing stub that counts: the saved-position stack
        # never underflows and is empty at the end, every branch is drawn once
        from ..miniinterp import InterpRaise, Mini

        class _KE:  # kinds
            pass

        class _KS:
            pass

        class _KP:
            def __init__(self, kids):
                self.kids = kids

            def __iter__(self):
                return iter(self.kids)

        class _Line:
            def __init__(self, **k):
                pass

            def down(self, *a, **k): return self
            def up(self, *a, **k): return self
            def right(self, *a, **k): return self
            def left(self, *a, **k): return self

        class _Elm:
            Line = _Line

        class _Drawing:
            def __init__(self):
                self.depth, self.min_depth, self.pushes, self.pops = 0, 0, 0, 0

            def push(self):
                self.depth += 1; self.pushes += 1

            def pop(self):
                self.depth -= 1; self.pops += 1; self.min_depth = min(self.min_depth, self.depth)

            def add(self, *a, **k):
                return None
        ok = True
        for n_ in range(1, 7):
            drawn = []
            dr = _Drawing()
            env_stubs = {"Element": _KE, "Series": _KS, "Parallel": _KP, "elm": _Elm, "get_height": lambda x: 1.0, "get_width": lambda x: 2.0,
                         "draw_element": lambda e_, d_: drawn.append(e_), "draw_series": lambda e_, d_, *a, **k: drawn.append(e_)}
            mi = Mini(env_stubs)
            env_stubs["draw_parallel"] = lambda p_, d_: mi.call_function(dp.node, {"parallel": p_, "drawing": d_})
            try:
                mi.call_function(dp.node, {"parallel": _KP([_KE() for _ in range(n_)]), "drawing": dr})
            except InterpRaise:
                ok = False
                break
            if not (dr.depth == 0 and dr.min_depth >= 0 and dr.pushes == dr.pops == n_ - 1 and len(drawn) == n_):
                ok = False
                break
    except AnalysisError as e:
        ctx.note(f"draw_parallel not interpretable ({e}); falling back to the shape rule")
        ok = None
    if ok is None:
        pushes = [c for c in calls_in(dp.node) if dotted(c.func) == "drawing.push"]
        pops = [c for c in calls_in(dp.node) if dotted(c.func) == "drawing.pop"]
        ok = len(pushes) == 1 and len(pops) == 1
        if ok:
            pi, qi = enclosing(pushes[0], ast.If), enclosing(pops[0], ast.If)
            pl, ql = enclosing(pushes[0], ast.For), enclosing(pops[0], ast.For)
            ok = pi is not None and qi is not None and pl is not None and ql is not None and pl is not ql
            if ok:
                def count(test: ast.AST, n: int) -> Optional[int]:
                    src = norm(test).replace("len(elements_connections)", "n").replace("len(heights)", "n")
                    if not set(src) <= set("in<>=!-+ 0123456789()"):
                        return None
                    return sum(1 for i in range(n) if eval(src, {"__builtins__": {}}, {"i": i, "n": n}))
                same_len = "enumerate(heights)" in norm(pl.iter) and "enumerate(elements_connections)" in norm(ql.iter) and \
                    any(isinstance(n, (ast.Assign, ast.AnnAssign)) and norm(n.targets[0] if isinstance(n, ast.Assign) else n.target) == "heights"
                        and "map(get_height, elements_connections)" in norm(n.value) for n in walk_ordered(dp.node))
                cs_ = [(count(pi.test, n), count(qi.test, n)) for n in range(1, 9)]
                ok = same_len and all(a is not None and a == b for a, b in cs_)
    if ok:
        ctx.ok()
    else:
        ctx.violation("R20.3", "draw_parallel:push-pop", SCHEM, dp.node, "drawing.push() and drawing.pop() are not issued the same number of times for every number of branches")
    init = ctx.repo.module("pyimpspec.circuit")
    ctx.instance("R20.3", "exporters installed on Circuit and Connection")
    assigns = {norm(n.targets[0]): norm(n.value) for n in init.tree.body if isinstance(n, ast.Assign)}
    need = {"Circuit.to_drawing": "_to_drawing", "Circuit.to_circuitikz": "_to_circuitikz", "Connection.to_drawing": "_to_drawing", "Connection.to_circuitikz": "_to_circuitikz"}
    if all(assigns.get(k) == v for k, v in need.items()):
        ctx.ok()
    else:
        ctx.violation("R20.3", "exporters:not-installed", "pyimpspec.circuit", init.tree, "to_drawing/to_circuitikz are not installed on Circuit and Connection (the placeholders raise NotImplementedError)")
    ctx.sample({"sites": [q for _, q, _, _ in sites]})
