"""C03: the tokenizer decided by interpretation (its AST, sa.miniinterp) on targeted strings: labels keep every character
set_label admits (in particular interior blanks), white space outside labels is insignificant, numbers in the emitter's
%E format are read back as the same number with their F marker."""
from __future__ import annotations

import ast
import string as _string
from typing import Any, Dict, List, Tuple

from ..core import AnalysisError
from ..miniinterp import ExcValue, InterpRaise, Mini, Obj, module_globals

TOK = "pyimpspec.circuit.tokenizer"
EXC = "pyimpspec.exceptions"


class _T:
    def __init__(self, start=0, end=0, value=None):
        self.start, self.end, self.value = start, end, value


def build(ctx, model):
    toks: Dict[str, type] = {}
    for st in ctx.repo.modules[TOK].tree.body:
        if isinstance(st, ast.ClassDef) and st.name != "Tokenizer":
            toks[st.name] = type(st.name, (_T,), {})
    excs: Dict[str, Any] = {}
    for st in ctx.repo.modules[EXC].tree.body:
        if isinstance(st, ast.ClassDef):
            excs[st.name] = (lambda nm: (lambda *a, **k: ExcValue(nm, a)))(st.name)
    stubs: Dict[str, Any] = {}
    stubs.update(excs)
    stubs.update({"ascii_letters": _string.ascii_letters, "ascii_lowercase": _string.ascii_lowercase, "ascii_uppercase": _string.ascii_uppercase,
                  "digits": _string.digits, "whitespace": _string.whitespace})
    g = module_globals(ctx.repo.modules[TOK].tree, stubs)
    g.update(toks)
    g.update(stubs)
    methods = {n: m.node for n, m in model.classes[f"{TOK}:Tokenizer"].methods.items()}
    return toks, g, methods


def tokenize(g, methods, text: str):
    mi = Mini(g, max_steps=400000)
    me = Obj(mi, methods, {})
    mi.call_bound(methods["__init__"], me, (), {})
    out = mi.call_bound(methods["process"], me, (text,), {})
    return [(type(t).__name__, t.value) for t in out]


def run(ctx, model) -> Tuple[List[str], int]:
    toks, g, methods = build(ctx, model)
    problems: List[str] = []
    n = 0

    def expect(text: str, want: List[Tuple[str, Any]], what: str):
        nonlocal n
        n += 1
        try:
            got: Any = tokenize(g, methods, text)
        except InterpRaise as e:
            got = e.kind
        if got != want and len(problems) < 3:
            problems.append(f"{what}: {text!r} is tokenized as {got} instead of {want}")
    # labels: every printable ASCII character except braces (known findings) in the interior of a label is kept verbatim
    for c in [ch for ch in _string.printable if ch not in "{}" and ch not in "\t\n\r\x0b\x0c"]:
        lab = f"a{c}b"
        expect(f"R{{:{lab}}}", [("Identifier", "R"), ("LCurly", "{"), ("Colon", ":"), ("Label", lab), ("RCurly", "}")], "label characters")
    expect("R{:charge transfer 2}", [("Identifier", "R"), ("LCurly", "{"), ("Colon", ":"), ("Label", "charge transfer 2"), ("RCurly", "}")], "blanks inside a label")
    # white space between tokens is insignificant
    base = [("LBracket", "["), ("Identifier", "R"), ("LParen", "("), ("Identifier", "R"), ("Identifier", "C"), ("RParen", ")"), ("RBracket", "]")]
    for text in ("[R(RC)]", " [ R ( R C ) ] ", "[R\t(RC)\n]", "[ R(R C)]"):
        expect(text, base, "white space between tokens")
    # numbers as the emitter writes them
    for num, kind, val in (("1.000E+03", "Number", 1000.0), ("2.5E-06F", "FixedNumber", 2.5e-06), ("-1.0E+00", "Number", -1.0), ("5", "Number", 5.0), ("1e3f", "FixedNumber", 1000.0)):
        expect(f"R{{R={num}}}", [("Identifier", "R"), ("LCurly", "{"), ("Identifier", "R"), ("Equals", "="), (kind, val), ("RCurly", "}")], "number format")
    expect("R{R=1.0E+00/inf/2.0E+00}", [("Identifier", "R"), ("LCurly", "{"), ("Identifier", "R"), ("Equals", "="), ("Number", 1.0), ("ForwardSlash", "/"),
                                        ("Identifier", "inf"), ("ForwardSlash", "/"), ("Number", 2.0), ("RCurly", "}")], "limits")
    return problems, n
