"""C01 — circuit impedance obeys the series/parallel composition laws
(structure of composition)."""
from __future__ import annotations

import ast
from typing import Dict, List, Optional, Set, Tuple

import sympy as sp

from ..cfg import always_exits, dominating_conditions, flatten_conditions
from ..core import AnalysisError, Ctx, calls_in, dotted, enclosing, norm, parent, walk_ordered
from ..effects import exc_is
from ..model import get_model
from ..terms import TermInterp, Unsupported

LEVEL = "other"
BASE = "pyimpspec.circuit.base"
SER = "pyimpspec.circuit.series"
PAR = "pyimpspec.circuit.parallel"
CIR = "pyimpspec.circuit.circuit"
PKG = "pyimpspec.circuit"


WRAPPERS: Dict[str, object] = {}  # name → FuncInfo of child-evaluation wrappers (every return is <param>._impedance(…)/to_sympy(…))


def find_wrappers(model) -> None:
    WRAPPERS.clear()
    for q, fi in model.funcs.items():
        if not fi.module.startswith(PKG) or "." in fi.qual:
            continue
        params = [a.arg for a in fi.node.args.args]
        rets = [n for n in walk_ordered(fi.node) if isinstance(n, ast.Return)]
        if rets and all(isinstance(r.value, ast.Call) and isinstance(r.value.func, ast.Attribute) and r.value.func.attr in ("_impedance", "to_sympy")
                        and isinstance(r.value.func.value, ast.Name) and r.value.func.value.id in params for r in rets):
            WRAPPERS[fi.node.name] = fi


def _strip_index(node: ast.AST) -> ast.AST:
    """Z[idx] → Z (point-wise evaluation: an index selects points, it does not change the law)."""
    class T(ast.NodeTransformer):
        def visit_Subscript(self, n):
            return self.visit(n.value)

        def visit_Call(self, n):
            if isinstance(n.func, ast.Attribute) and n.func.attr in ("to_sympy", "_impedance"):
                return ast.Name(id="__child__", ctx=ast.Load())
            if isinstance(n.func, ast.Name) and n.func.id in WRAPPERS:
                return ast.Name(id="__child__", ctx=ast.Load())
            return self.generic_visit(n)
    return T().visit(ast.parse(norm(node), mode="eval").body)


def _term(node: ast.AST, env: Dict[str, sp.Expr]) -> sp.Expr:
    opaque: Dict[str, sp.Symbol] = {}

    def call_hook(name, n, args, kwargs, e, interp):
        if name in ("to_sympy", "_impedance"):
            return env["<child>"]
        return NotImplemented
    try:
        return TermInterp(call_hook=call_hook).ev(_strip_index(node), env)
    except Unsupported as e:
        raise AnalysisError(f"fold step outside the term fragment: {norm(node)}: {e}")


def fold_summary(fn: ast.FunctionDef, acc_hint: Optional[str] = None):
    """(accumulator, list of (loop, step term over child symbol), result term over acc).
    One symbolic iteration of `acc += g(child)` / `acc = acc + g(child)` loops."""
    child = sp.Symbol("Z_k")
    accsym = sp.Symbol("acc")
    rets = [n for n in walk_ordered(fn) if isinstance(n, ast.Return)]
    loops = [n for n in walk_ordered(fn) if isinstance(n, ast.For)]
    steps = []
    acc_names: Set[str] = set()
    for lp in loops:
        for n in walk_ordered(lp):
            acc = None
            if isinstance(n, ast.AugAssign) and isinstance(n.op, ast.Add):
                acc, val = n.target, n.value
                step = None
            elif isinstance(n, ast.Assign) and isinstance(n.value, ast.BinOp) and isinstance(n.value.op, ast.Add) \
                    and norm(n.value.left) == norm(n.targets[0]):
                acc, val = n.targets[0], n.value.right
            if acc is None:
                continue
            base = acc.value if isinstance(acc, ast.Subscript) else acc
            if not isinstance(base, ast.Name) or base.id in ("num_open_paths",):
                continue
            # the step must be unconditional inside the loop body (or inside an isinstance arm; see R1.3)
            env = {"<child>": child, "__child__": child, "Z": child, "f": sp.Symbol("f")}
            # loop variable names standing for the child value
            tv = lp.target.id if isinstance(lp.target, ast.Name) else None
            if tv:
                env[tv] = child
            t = _term(val, env)
            steps.append((lp, n, base.id, t))
            acc_names.add(base.id)
    return steps, rets, child, accsym


def child_provider(model, fi):
    """Where the children of a connection are evaluated: (function holding the loop over self._elements,
    loop node, name of the list the combinator iterates if the evaluation lives in a helper)."""
    for n in walk_ordered(fi.node):
        if isinstance(n, ast.For) and norm(n.iter) == "self._elements":
            return fi, n, None
    # one level of helper: X = self._helper(f) / for Z in self._helper(f)
    for c in calls_in(fi.node):
        q = model.resolve_call(fi, c)
        if q and q in model.funcs and q != fi.qname and isinstance(c.func, ast.Attribute) and dotted(c.func.value) == "self":
            h = model.funcs[q]
            for n in walk_ordered(h.node):
                if isinstance(n, ast.For) and norm(n.iter) == "self._elements":
                    # name bound to the helper's result (or the loop iterating it directly)
                    st = parent(c)
                    nm = None
                    if isinstance(st, (ast.Assign, ast.AnnAssign)):
                        nm = norm(st.targets[0] if isinstance(st, ast.Assign) else st.target)
                    return h, n, nm or norm(c)
    return None


def check(ctx: Ctx) -> None:
    model = get_model(ctx.repo)
    ctx.modules_consulted.update({BASE, SER, PAR, CIR, PKG, "pyimpspec.circuit.circuit_builder"})
    ctx.rule("R1.1", "fold summaries: series = Σ Z_k, parallel = 1/Σ(1/Z_k), numerically and symbolically (one symbolic iteration)")
    ctx.rule("R1.2", "open/short path table of Parallel._impedance: all-open child skipped, partially open refused, all-short shorts the connection, all children open refused")
    ctx.rule("R1.3", "dispatch agreement: subclass tested before superclass; Container gets values+subcircuits, Element values, Connection only f")
    ctx.rule("R1.4", "_calculate_impedances: negative frequencies refused first; f==0/inf routed to the limit path; Z[indices] = func(f[indices]); inf/NaN refusals dominate the return")
    ctx.rule("R1.5", "construction independence: parse_cdc and CircuitBuilder both go through Parser().process; Circuit.__init__ binds a Series of elements/connections; no list nested in a connection's list")
    ctx.rule("R1.6", "entry points share one evaluator: Circuit/Connection/Element.get_impedances return _calculate_impedances(...); simulate_spectrum pairs Z with the frequencies it evaluated")

    find_wrappers(model)
    child = sp.Symbol("Z_k")
    # the numeric combinators are decided by interpretation over the open/short/finite pattern domain; the shape rules
    # below are the fallback when a construct is outside the interpreter
    interpreted = False
    try:
        from ._c01_interp import run as _interp_run
        probs, counts = _interp_run(ctx, model)
        interpreted = True
        for cls in ("Series", "Parallel"):
            ctx.instance("R1.1" if cls == "Series" else "R1.2", f"{cls}._impedance interpreted on {counts[cls]} child patterns (kinds × zero/infinite/tiny/generic values): "
                         + ("Σ Z_k" if cls == "Series" else "open skipped, partially open refused, shorts → 0, else 1/Σ(1/Z_k); each kind evaluated with its own argument set"))
            mine = [p_ for p_ in probs if p_[0] == f"{cls}._impedance"]
            if not mine:
                ctx.ok()
            for q_, kind_, text_ in mine:
                ctx.violation("R1.1" if cls == "Series" else "R1.2", f"{q_}:{kind_}", SER if cls == "Series" else PAR, model.fi(SER if cls == "Series" else PAR, q_).node,
                              f"{q_} does not obey the {'series' if cls == 'Series' else 'parallel'} composition law — {text_}")
    except AnalysisError as e:
        ctx.note(f"numeric combinators not interpretable ({e}); falling back to the shape rules")
    # ---------------- R1.1 ---------------------------------------------------------
    for mod, qual, law in ((SER, "Series._impedance", "sum"), (PAR, "Parallel._impedance", "recip"),
                           (SER, "Series.to_sympy", "sum"), (PAR, "Parallel.to_sympy", "recip")):
        if interpreted and qual.endswith("._impedance"):
            continue
        fi = model.fi(mod, qual)
        steps, rets, ch, acc = fold_summary(fi.node)
        if not steps:
            ctx.instance("R1.1", f"{qual}: no accumulation found")
            ctx.violation("R1.1", f"{qual}:step", mod, fi.node,
                          f"{qual} has no statement accumulating the children (acc += g(child)): the composition law is not a fold over all children")
            continue
        want = ch if law == "sum" else 1 / ch
        for lp, n, accname, t in steps:
            ctx.instance("R1.1", f"{qual}: {accname} += {t}")
            if sp.simplify(t - want) == 0:
                ctx.ok()
            else:
                ctx.violation("R1.1", f"{qual}:step", mod, n,
                              f"{qual} accumulates {t} per child; the {'series' if law == 'sum' else 'parallel'} law needs {want}")
            # the accumulation must not be conditional on anything but the kind dispatch
            conds = [c for c, pol in flatten_conditions(dominating_conditions(n, stop=lp)) if "isinstance" not in norm(c)]
            if conds:
                ctx.violation("R1.1", f"{qual}:conditional-step", mod, n,
                              f"{qual} adds a child only under {[norm(c) for c in conds]}: some children would not contribute")
            else:
                ctx.ok()
        # result
        accs = {a for _, _, a, _ in steps}
        final = [r for r in rets if r.value is not None and enclosing(r, ast.For) is None
                 and not (isinstance(parent(r), ast.If) and (always_exits(parent(r).body) and ("not self._elements" in norm(parent(r).test) or "shorted" in norm(parent(r).test))))]
        if not final:
            raise AnalysisError(f"{qual}: final return not found")
        last = final[-1]
        ctx.instance("R1.1", f"{qual}: result {norm(last.value)[:50]}")
        ok = False
        v = last.value
        if law == "sum":
            ok = isinstance(v, ast.Name) and v.id in accs
        else:
            # return 1 / acc   or   acc = 1 / acc ; return acc
            if isinstance(v, ast.BinOp) and isinstance(v.op, ast.Div) and norm(v.left) == "1" and norm(v.right) in accs:
                ok = True
            elif isinstance(v, ast.Name) and v.id in accs:
                inv = [n for n in walk_ordered(fi.node) if isinstance(n, ast.Assign) and norm(_strip_index(n.targets[0])) == v.id
                       and isinstance(n.value, ast.BinOp) and isinstance(n.value.op, ast.Div) and norm(n.value.left) == "1"
                       and norm(_strip_index(n.value.right)) == v.id]
                loops_with_steps = {id(lp) for lp, _, _, _ in steps}
                # one inversion per accumulate loop (masked and unmasked tails)
                ok = len(inv) >= 1 and len(inv) == len(loops_with_steps)
                for n in inv:
                    if norm(n.targets[0]) != norm(n.value.right):
                        ok = False
        if ok:
            ctx.ok()
        else:
            ctx.violation("R1.1", f"{qual}:result", mod, last,
                          f"{qual} does not return {'the sum' if law == 'sum' else 'the reciprocal of the accumulated reciprocal sum'}")
        # initial value 0
        ctx.instance("R1.1", f"{qual}: accumulator starts at 0")
        inits = [n for n in walk_ordered(fi.node) if isinstance(n, (ast.Assign, ast.AnnAssign))
                 and isinstance((n.targets[0] if isinstance(n, ast.Assign) else n.target), ast.Name)
                 and (n.targets[0] if isinstance(n, ast.Assign) else n.target).id in accs and n.value is not None
                 and enclosing(n, ast.For) is None and not (isinstance(n.value, ast.BinOp))]
        zero = all((isinstance(n.value, ast.Call) and dotted(n.value.func) in ("zeros", "sympify") and
                    (dotted(n.value.func) == "zeros" or norm(n.value.args[0]) in ("'0'", "0"))) or norm(n.value) in ("0", "0.0", "0j")
                   for n in inits) and bool(inits)
        if zero:
            ctx.ok()
        else:
            ctx.violation("R1.1", f"{qual}:init", mod, fi.node, f"{qual}: accumulator is not initialised to zero ({[norm(n.value) for n in inits]})")
        # empty connection → 0
        ctx.instance("R1.1", f"{qual}: empty connection is a short")
        prov0 = child_provider(model, fi) if qual.endswith("_impedance") else None
        empties = {"not self._elements"} | ({f"not {prov0[2]}"} if prov0 and prov0[2] else set())
        e0 = [n for n in fi.node.body if isinstance(n, ast.If) and norm(n.test) in empties]
        if e0 and isinstance(e0[0].body[-1], ast.Return) and norm(e0[0].body[-1].value) in ("complex(0, 0) * f", "expr", "0 * f", "sympify('0')"):
            ctx.ok()
        else:
            ctx.violation("R1.1", f"{qual}:empty", mod, fi.node, f"{qual}: an empty connection must evaluate to zero impedance")
    # every child is visited: loops iterate self._elements (or the list filled from it)
    for mod, qual in ((SER, "Series._impedance"), (PAR, "Parallel._impedance"), (SER, "Series.to_sympy"), (PAR, "Parallel.to_sympy")):
        if interpreted and qual.endswith("._impedance"):
            continue
        fi = model.fi(mod, qual)
        ctx.instance("R1.1", f"{qual}: iterates every child")
        prov = child_provider(model, fi)
        if prov is None:
            ctx.violation("R1.1", f"{qual}:iteration", mod, fi.node, f"{qual} does not iterate over self._elements (neither directly nor through a helper)")
            continue
        ctx.ok()
        hfi, hloop, _nm = prov
        # every child contributes: the arms of the kind dispatch are selected by isinstance tests only, and each arm yields a value
        chain = next((n for n in hloop.body if isinstance(n, ast.If) and "isinstance(" in norm(n.test)), None)
        if chain is not None:
            cur = chain
            extra = None
            while True:
                t = norm(cur.test)
                pure = all(isinstance(x, ast.Call) and dotted(x.func) == "isinstance" for x in (cur.test.values if isinstance(cur.test, ast.BoolOp) else [cur.test]))
                if not pure:
                    extra = cur
                if len(cur.orelse) == 1 and isinstance(cur.orelse[0], ast.If):
                    cur = cur.orelse[0]
                else:
                    if not cur.orelse and qual.endswith("_impedance"):
                        extra = extra or cur  # no final arm: children of the remaining kind are dropped
                    break
            ctx.instance("R1.1", f"{hfi.qual}: every child yields a value (dispatch by kind only)")
            if extra is not None and qual.endswith("_impedance"):
                ctx.violation("R1.1", f"{qual}:conditional-child", hfi.module, extra,
                              f"{hfi.qual} evaluates a child only under `{norm(extra.test)}`: some children (e.g. an empty nested connection, i.e. a short) are left out of the composition")
            else:
                ctx.ok()

    # ---------------- R1.2 ---------------------------------------------------------
    if not interpreted:
        _parallel_table(ctx, model)

    # ---------------- R1.3 ---------------------------------------------------------
    sites = [(BASE, "_calculate_impedances", "obj", "num"), (SER, "Series._impedance", "elem_con", "num"),
             (PAR, "Parallel._impedance", "elem_con", "num"), (SER, "Series.to_sympy", "element", "sym"),
             (PAR, "Parallel.to_sympy", "element", "sym")]
    cont_q, elem_q, conn_q = f"{BASE}:Container", f"{BASE}:Element", f"{BASE}:Connection"
    dyn_sites = []
    evaluator_interpreted = True
    try:
        from . import _c01_interp as I01
        ev_problems, ev_n = I01.run_evaluator(ctx, model)
    except AnalysisError as e:
        evaluator_interpreted = False
        ctx.note(f"_calculate_impedances not interpretable ({e}); decided from its shape instead")
    for mod, qual, var, kind in sites:
        if interpreted and kind == "num" and qual.endswith("._impedance"):
            continue  # the child stubs of the interpretation accept only the argument set of their own kind
        if evaluator_interpreted and qual == "_calculate_impedances":
            continue  # likewise (R1.4 below)
        fi0 = model.fi(mod, qual)
        if kind == "num" and qual.endswith("._impedance"):
            prov = child_provider(model, fi0)
            if prov is not None and prov[0].qname != fi0.qname:
                hv = prov[1].target.id if isinstance(prov[1].target, ast.Name) else var
                dyn_sites.append((prov[0].module, prov[0].qual, hv, kind))
                continue
        # the kind dispatch may live in a child-evaluation wrapper the site calls with the child as argument
        wcall = [c for c in calls_in(fi0.node) if isinstance(c.func, ast.Name) and c.func.id in WRAPPERS and any(norm(a) == var for a in c.args)]
        if wcall:
            w = WRAPPERS[wcall[0].func.id]
            pos = [norm(a) for a in wcall[0].args].index(var)
            dyn_sites.append((w.module, w.qual, w.node.args.args[pos].arg, kind))
            ctx.note(f"{qual}: children are evaluated through the wrapper {w.qual}; its dispatch chain is the site")
            continue
        dyn_sites.append((mod, qual, var, kind))
    seen_sites = set()
    for mod, qual, var, kind in dyn_sites:
        if (mod, qual) in seen_sites:
            continue
        seen_sites.add((mod, qual))
        fi = model.fi(mod, qual)
        chain = None
        for n in walk_ordered(fi.node):
            if isinstance(n, ast.If) and "isinstance(" in norm(n.test) and not isinstance(parent(n), ast.If) or \
                    (isinstance(n, ast.If) and "isinstance(" in norm(n.test) and isinstance(parent(n), ast.If) and n not in parent(n).orelse):
                if var in norm(n.test):
                    chain = n
                    break
        if chain is None:
            raise AnalysisError(f"{qual}: isinstance dispatch chain on {var} not found")
        arms: List[Tuple[List[str], List[ast.stmt]]] = []
        cur = chain
        while True:
            classes = [norm(c.args[1]) for c in calls_in(cur.test) if dotted(c.func) == "isinstance"]
            arms.append((classes, cur.body))
            if len(cur.orelse) == 1 and isinstance(cur.orelse[0], ast.If) and "isinstance(" in norm(cur.orelse[0].test):
                cur = cur.orelse[0]
            else:
                if cur.orelse:
                    arms.append((["<else>"], cur.orelse))
                else:
                    # implicit else: every arm returns, the statements after the chain handle the remaining kind
                    from ..cfg import block_of
                    _p, _f, blk = block_of(chain)
                    rest = blk[[i for i, x in enumerate(blk) if x is chain][0] + 1:] if blk else []
                    if rest and all(always_exits(b) for _, b in arms):
                        arms.append((["<else>"], rest))
                break
        ctx.instance("R1.3", f"{qual}: arms {[a for a, _ in arms]}")
        # ordering: a later arm's class must not be a subclass of an earlier arm's class
        seen: List[str] = []
        ordered = True
        for classes, _ in arms:
            for c in classes:
                cq = model.resolve(mod, c)
                if cq and cq[0] == "class":
                    for e in seen:
                        if model.is_subclass(cq[1], e) and cq[1] != e:
                            ordered = False
            for c in classes:
                cq = model.resolve(mod, c)
                if cq and cq[0] == "class":
                    seen.append(cq[1])
        if ordered:
            ctx.ok()
        else:
            ctx.violation("R1.3", f"{qual}:order", mod, chain,
                          f"{qual}: a subclass is tested after its superclass in the isinstance chain (Container is an Element): container elements would be evaluated without their sub-circuits")
        # argument shapes
        for classes, body in arms:
            calls = [c for s in body for c in calls_in(s, into_functions=True) if isinstance(c.func, ast.Attribute) and c.func.attr in ("_impedance", "to_sympy")]
            lam = [n for s in body for n in walk_ordered(s) if isinstance(n, ast.Lambda)]
            for l in lam:
                calls += [c for c in calls_in(l.body) if isinstance(c.func, ast.Attribute) and c.func.attr == "_impedance"]
            if not calls:
                if classes == ["<else>"] and any(isinstance(s, ast.Raise) for s in body):
                    continue
                if kind == "num":
                    raise AnalysisError(f"{qual}: arm {classes} evaluates nothing")
                continue
            c = calls[0]
            stars = sorted(norm(k.value) for k in c.keywords if k.arg is None)
            kws = sorted(k.arg for k in c.keywords if k.arg is not None)
            ctx.instance("R1.3", f"{qual}: arm {classes} → {norm(c)[:70]}")
            good = True
            if kind == "num":
                uses_params = any("parameters" in s or "get_values()" in s for s in stars)
                uses_subs = any("subcircuits" in s or "get_subcircuits()" in s for s in stars)
                if "Container" in classes:
                    good = uses_params and uses_subs
                elif "Element" in classes:
                    good = uses_params and not uses_subs
                else:
                    good = not stars and not kws
                # **parameters must come from this object's get_values()
                if good and any(s in ("parameters", "subcircuits") for s in stars):
                    src = norm(fi.node)
                    good = f"parameters = {var}.get_values()" in src and ("subcircuits" not in stars or f"subcircuits = {var}.get_subcircuits()" in src)
            else:
                if "Element" in classes and "Container" not in classes:
                    good = "identifier" in kws and f"identifiers[{var}]" in norm(c)
                else:
                    good = "identifiers" in kws and "identifier" not in kws
                good = good and "substitute" in kws
            if good:
                ctx.ok()
            else:
                ctx.violation("R1.3", f"{qual}:args:{'+'.join(classes)}", mod, c,
                              f"{qual}: the {classes} arm calls {norm(c)[:80]} — wrong argument set for that kind of child")

    # ---------------- R1.4 ---------------------------------------------------------
    ci = model.fi(BASE, "_calculate_impedances")
    if evaluator_interpreted:
        ctx.instance("R1.4", f"_calculate_impedances interpreted on {ev_n} (object kind × frequency vector over 0/finite/tiny/inf/negative) cases: Z(f_j) at its own position, limits for 0 and inf, refusals")
        if ev_problems:
            ctx.violation("R1.4", "_calculate_impedances:semantics", BASE, ci.node, "; ".join(ev_problems[:2]))
        else:
            ctx.ok()
    else:
        ci = model.fi(BASE, "_calculate_impedances")
        body = ci.node.body
        ctx.instance("R1.4", "negative frequencies refused before any evaluation")
        neg = [n for n in body if isinstance(n, ast.If) and "min(f) < 0" in norm(n.test) and always_exits(n.body)]
        first_eval = min([c.lineno for c in calls_in(ci.node, into_functions=True) if dotted(c.func) in ("func", "_calculate_limit") or dotted(c.func).endswith("._impedance")] or [10 ** 9])
        if neg and neg[0].lineno < first_eval:
            ctx.ok()
        else:
            ctx.violation("R1.4", "_calculate_impedances:negative", BASE, ci.node, "negative frequencies are not refused before evaluation")
        # index sets over the point classes {zero, finite, inf} (negative frequencies were refused above): a finite abstract
        # interpretation of the statements that build index arrays, whatever numpy idiom they use
        U = frozenset({"zero", "finite", "inf"})

        class Tolerant(Exception):
            pass

        def pset(e: ast.AST, env) -> Optional[frozenset]:
            if isinstance(e, ast.Name):
                return env.get(e.id)
            if isinstance(e, ast.Compare) and len(e.ops) == 1 and norm(e.left) == "f" and isinstance(e.comparators[0], ast.Constant) and e.comparators[0].value == 0:
                return {ast.Eq: frozenset({"zero"}), ast.NotEq: U - {"zero"}, ast.Gt: U - {"zero"}, ast.LtE: frozenset({"zero"}), ast.GtE: U, ast.Lt: frozenset()}.get(type(e.ops[0]))
            if isinstance(e, ast.Call):
                fn_ = dotted(e.func).split(".")[-1]
                if fn_ in ("isinf", "isposinf") and e.args and norm(e.args[0]) == "f":
                    return frozenset({"inf"})
                if fn_ == "isfinite" and e.args and norm(e.args[0]) == "f":
                    return U - {"inf"}
                if fn_ in ("isclose", "allclose"):
                    raise Tolerant(norm(e))
                if fn_ in ("logical_or", "logical_and") and len(e.args) == 2:
                    a_, b_ = pset(e.args[0], env), pset(e.args[1], env)
                    if a_ is None or b_ is None:
                        return None
                    return a_ | b_ if fn_ == "logical_or" else a_ & b_
                if fn_ == "logical_not" and e.args:
                    a_ = pset(e.args[0], env)
                    return None if a_ is None else U - a_
                # index-array constructors
                if fn_ in ("unique", "sort", "array", "asarray") and e.args:
                    return pset(e.args[0], env)
                if fn_ == "concatenate" and e.args and isinstance(e.args[0], (ast.Tuple, ast.List)):
                    parts = [pset(x, env) for x in e.args[0].elts]
                    return None if any(x is None for x in parts) else frozenset().union(*parts)
                if fn_ in ("delete", "setdiff1d") and len(e.args) >= 2:
                    a_, b_ = pset(e.args[0], env), pset(e.args[1], env)
                    return None if a_ is None or b_ is None else a_ - b_
                if fn_ == "union1d" and len(e.args) == 2:
                    a_, b_ = pset(e.args[0], env), pset(e.args[1], env)
                    return None if a_ is None or b_ is None else a_ | b_
                if fn_ == "intersect1d" and len(e.args) == 2:
                    a_, b_ = pset(e.args[0], env), pset(e.args[1], env)
                    return None if a_ is None or b_ is None else a_ & b_
                if fn_ in ("flatnonzero",) and e.args:
                    return pset(e.args[0], env)
                if fn_ in ("arange",) and e.args and norm(e.args[0]) in ("f.size", "len(f)", "Z.size", "len(Z)", "f.shape[0]", "Z.shape[0]"):
                    return U
                return None
            if isinstance(e, ast.Subscript) and norm(e.slice) == "0" and isinstance(e.value, ast.Call):
                fn_ = dotted(e.value.func).split(".")[-1]
                if fn_ in ("where", "nonzero") and len(e.value.args) == 1:
                    return pset(e.value.args[0], env)
                if fn_ in ("indices", "array_indices") and e.value.args and norm(e.value.args[0]) in ("Z.shape", "f.shape"):
                    return U
                return None
            if isinstance(e, ast.BinOp) and isinstance(e.op, (ast.BitOr, ast.BitAnd)):
                a_, b_ = pset(e.left, env), pset(e.right, env)
                if a_ is None or b_ is None:
                    return None
                return a_ | b_ if isinstance(e.op, ast.BitOr) else a_ & b_
            if isinstance(e, ast.UnaryOp) and isinstance(e.op, ast.Invert):
                a_ = pset(e.operand, env)
                return None if a_ is None else U - a_
            if isinstance(e, ast.Compare) and len(e.ops) == 1 and isinstance(e.left, ast.Call) and dotted(e.left.func) in ("abs", "fabs"):
                raise Tolerant(norm(e))
            return None

        ienv: Dict[str, frozenset] = {}
        stores = []  # (statement, index expr set, value)
        tolerant = None

        def scan(stmts):
            nonlocal tolerant
            for st_ in stmts:
                if isinstance(st_, (ast.Assign, ast.AnnAssign)) and st_.value is not None:
                    tg_ = st_.targets[0] if isinstance(st_, ast.Assign) else st_.target
                    if isinstance(tg_, ast.Name):
                        try:
                            v_ = pset(st_.value, ienv)
                        except Tolerant as t_:
                            tolerant = (st_, str(t_))
                            v_ = None
                        if v_ is not None:
                            ienv[tg_.id] = v_
                        else:
                            ienv.pop(tg_.id, None)
                    elif isinstance(tg_, ast.Subscript) and norm(tg_.value) == "Z":
                        try:
                            stores.append((st_, pset(tg_.slice, ienv), st_.value, norm(tg_.slice)))
                        except Tolerant as t_:
                            tolerant = (st_, str(t_))
                elif isinstance(st_, ast.If) and (".size > 0" in norm(st_.test) or norm(st_.test).startswith("len(")):
                    scan(st_.body)  # acting on an empty index set is the identity: the guard does not change the sets
        scan(body)
        ctx.instance("R1.4", "limit path takes exactly the points with f == 0 or f infinite; the finite path takes exactly the others")
        lim_st = [x for x in stores if "_calculate_limit" in norm(x[2])]
        fin_st = [x for x in stores if isinstance(x[2], ast.Call) and dotted(x[2].func) == "func"]
        if tolerant is not None:
            ctx.violation("R1.4", "_calculate_impedances:limit-set", BASE, tolerant[0], f"the limit/finite split uses the tolerance test {tolerant[1]}: small positive frequencies would be evaluated as the DC limit")
        elif len(lim_st) != 1 or len(fin_st) != 1:
            raise AnalysisError(f"_calculate_impedances: expected one limit store and one finite store into Z (found {len(lim_st)}, {len(fin_st)})")
        elif fin_st[0][1] is None and norm(fin_st[0][2].args[0]) != f"f[{fin_st[0][3]}]":
            pass  # reported by the index-pairing rule below
        elif lim_st[0][1] is None or fin_st[0][1] is None:
            raise AnalysisError(f"_calculate_impedances: index sets {lim_st[0][3]} / {fin_st[0][3]} are built with an idiom the index-set interpreter does not know")
        elif lim_st[0][1] == frozenset({"zero", "inf"}) and fin_st[0][1] == frozenset({"finite"}):
            ctx.ok()
        else:
            ctx.violation("R1.4", "_calculate_impedances:limit-set", BASE, lim_st[0][0],
                          f"the limit path takes the points {sorted(lim_st[0][1])} and the finite path {sorted(fin_st[0][1])}; expected ['inf', 'zero'] and ['finite'] (every point exactly once)")
        ctx.instance("R1.4", "Z[indices] = func(f[indices])")
        if len(fin_st) == 1 and norm(fin_st[0][2].args[0]) == f"f[{fin_st[0][3]}]":
            ctx.ok()
        else:
            ctx.violation("R1.4", "_calculate_impedances:index-pairing", BASE, ci.node, "finite-frequency results are not stored at the indices they were evaluated for")
        ctx.instance("R1.4", "limit results stored at the limit indices, computed from f at those indices")
        if len(lim_st) == 1 and f"f[{lim_st[0][3]}]" in norm(lim_st[0][2]) and "_calculate_limit(obj, _)" in norm(lim_st[0][2]):
            ctx.ok()
        else:
            ctx.violation("R1.4", "_calculate_impedances:limit-pairing", BASE, ci.node, "limit values are not computed from f[limit_indices] and stored at limit_indices")
        ctx.instance("R1.4", "inf/NaN refusals dominate the return")
        rets = [n for n in body if isinstance(n, ast.Return)]
        if len(rets) != 1:
            raise AnalysisError("_calculate_impedances: expected exactly one top-level return")
        conds = [norm(c) for c, pol in flatten_conditions(dominating_conditions(rets[0])) if not pol]
        if any("isinf(Z)" in c for c in conds) and any("isnan(Z)" in c for c in conds):
            ctx.ok()
        else:
            ctx.violation("R1.4", "_calculate_impedances:refusals", BASE, rets[0], "the return is not dominated by the infinite/NaN impedance refusals")

    # ---------------- R1.5 ---------------------------------------------------------
    pc = model.fi(PKG, "parse_cdc")
    cb = model.fi("pyimpspec.circuit.circuit_builder", "CircuitBuilder.to_circuit")
    for fi in (pc, cb):
        ctx.instance("R1.5", f"{fi.qual} → Parser().process")
        r = [n for n in walk_ordered(fi.node) if isinstance(n, ast.Return)]
        if r and norm(r[-1].value).startswith("Parser().process("):
            ctx.ok()
        else:
            ctx.violation("R1.5", f"{fi.qual}:route", fi.module, fi.node, f"{fi.qual} no longer builds its circuit with Parser().process(...)")
    # the builder serialises its CURRENT contents on every call (no memoised code that ignores later additions)
    from ..cfg import returns_not_passing
    bts = model.fi("pyimpspec.circuit.circuit_builder", "CircuitBuilder._to_string")
    ctx.instance("R1.5", "CircuitBuilder._to_string walks self._elements on every call")
    badr = returns_not_passing(bts.node, lambda a: any(isinstance(x, ast.Attribute) and x.attr == "_elements" and dotted(x.value) == "self" for x in ast.walk(a)))
    stores = [n for n in walk_ordered(bts.node) if isinstance(n, (ast.Assign, ast.AugAssign)) and any(
        isinstance(t, ast.Attribute) and dotted(t.value) == "self" for t in (n.targets if isinstance(n, ast.Assign) else [n.target]))]
    if badr or stores:
        ctx.violation("R1.5", "CircuitBuilder._to_string:memoised", "pyimpspec.circuit.circuit_builder", (badr or stores)[0],
                      "CircuitBuilder._to_string can return a remembered code without walking its current items: elements added to a nested context, or parameter "
                      "changes of already added elements, are missing from the circuit that to_circuit() builds")
    else:
        ctx.ok()
    ctx.instance("R1.5", "CircuitBuilder.to_circuit serialises on every call")
    if returns_not_passing(cb.node, lambda a: any(isinstance(c, ast.Call) and dotted(c.func) == "self._to_string" for c in ast.walk(a))):
        ctx.violation("R1.5", "CircuitBuilder.to_circuit:memoised", "pyimpspec.circuit.circuit_builder", cb.node, "CircuitBuilder.to_circuit can return without serialising the builder's current contents")
    else:
        ctx.ok()
    init = model.fi(CIR, "Circuit.__init__")
    n_ctor = 0
    for mname, mod in ctx.repo.modules.items():
        if not mname.startswith("pyimpspec.circuit") and not mname.startswith("pyimpspec.analysis"):
            continue
        for c in [n for n in walk_ordered(mod.tree, into_functions=True) if isinstance(n, ast.Call)]:
            if not (isinstance(c.func, ast.Name) and c.func.id in ("Series", "Parallel") and c.args and isinstance(c.args[0], ast.List)):
                continue
            n_ctor += 1
            for e in c.args[0].elts:
                if not isinstance(e, ast.Name):
                    continue
                conds = flatten_conditions(dominating_conditions(c))
                is_list = any(pol and norm(t) == f"isinstance({e.id}, list)" for t, pol in conds)
                ctx.instance("R1.5", f"{mname.split('.')[-1]}:{c.lineno} {norm(c)[:40]}")
                if is_list:
                    ctx.violation("R1.5", f"{mname}:list-in-connection:{norm(c)[:40]}", mname, c,
                                  f"{norm(c)[:60]} wraps `{e.id}`, which this branch has narrowed to a list, in another list: the connection's only child is a list, not an element")
                else:
                    ctx.ok()
    if n_ctor < 8:
        raise AnalysisError(f"R1.5: only {n_ctor} Series/Parallel list constructions found (floor 8)")
    ctx.instance("R1.5", "Circuit.__init__ binds a Series on every path")
    st = [n for n in walk_ordered(init.node) if isinstance(n, (ast.Assign, ast.AnnAssign)) and norm(n.targets[0] if isinstance(n, ast.Assign) else n.target) == "self._elements"]
    arms_ok = True
    top = [n for n in init.node.body if isinstance(n, ast.If)]
    if len(st) != 1 or not top:
        raise AnalysisError("Circuit.__init__: shape not recognised")
    cur = top[0]
    while True:
        t = norm(cur.test)
        if t == "isinstance(elements, Series)":
            pass
        else:
            assigns = [n for n in cur.body if isinstance(n, ast.Assign) and norm(n.targets[0]) == "elements"]
            nested = [n for s in cur.body for n in walk_ordered(s) if isinstance(n, ast.Assign) and norm(n.targets[0]) == "elements"]
            if not nested or not all(norm(a.value).startswith("Series(") for a in nested):
                if not always_exits(cur.body):
                    arms_ok = False
        if len(cur.orelse) == 1 and isinstance(cur.orelse[0], ast.If):
            cur = cur.orelse[0]
        else:
            if not always_exits(cur.orelse):
                arms_ok = False
            break
    if arms_ok:
        ctx.ok()
    else:
        ctx.violation("R1.5", "Circuit.__init__:not-series", CIR, init.node, "some branch of Circuit.__init__ does not end with `elements` bound to a Series (or a refusal)")

    # ---------------- R1.6 ---------------------------------------------------------
    for mod, qual, arg in ((CIR, "Circuit.get_impedances", "self._elements"), (BASE, "Connection.get_impedances", "self"), (BASE, "Element.get_impedances", "self")):
        fi = model.fi(mod, qual)
        ctx.instance("R1.6", qual)
        r = [n for n in walk_ordered(fi.node) if isinstance(n, ast.Return)]
        if len(r) == 1 and norm(r[0].value) == f"_calculate_impedances({arg}, frequencies)":
            ctx.ok()
        else:
            ctx.violation("R1.6", f"{qual}:evaluator", mod, fi.node, f"{qual} must return _calculate_impedances({arg}, frequencies)")
    ss = model.fi(PKG, "simulate_spectrum")
    ctx.instance("R1.6", "simulate_spectrum pairs Z with its frequencies")
    src = norm(ss.node)
    z = [n for n in walk_ordered(ss.node) if isinstance(n, (ast.Assign, ast.AnnAssign)) and n.value is not None and norm(n.value) == "circuit.get_impedances(frequencies)"]
    r = [n for n in walk_ordered(ss.node) if isinstance(n, ast.Return)]
    good = len(z) == 1 and len(r) == 1 and isinstance(r[0].value, ast.Call) and dotted(r[0].value.func) == "DataSet"
    if good:
        kw = {k.arg: norm(k.value) for k in r[0].value.keywords}
        zname = norm(z[0].targets[0] if isinstance(z[0], ast.Assign) else z[0].target)
        good = kw.get("frequencies") == "frequencies" and kw.get("impedances") == zname
        # frequencies not rebound between evaluation and packaging
        reb = [n for n in walk_ordered(ss.node) if isinstance(n, ast.Assign) and norm(n.targets[0]) == "frequencies" and n.lineno > z[0].lineno]
        good = good and not reb
    if good:
        ctx.ok()
    else:
        ctx.violation("R1.6", "simulate_spectrum:pairing", PKG, ss.node, "simulate_spectrum must package circuit.get_impedances(frequencies) with that same frequencies object")
    ctx.sample({"series_step": "acc + Z_k", "parallel_step": "acc + 1/Z_k", "parallel_result": "1/acc"})


# ---------------------------------------------------------------------------

def _classify_guard(test: ast.AST, defs: Dict[str, str]) -> Optional[str]:
    t = norm(test)
    for name, d in defs.items():
        t = t.replace(name, d)
    t = t.replace(" ", "")
    table = {
        "where(isinf(Z))[0].size==f.size": "ALL_INF", "isinf(Z).all()": "ALL_INF", "where(isinf(Z))[0].size==Z.size": "ALL_INF",
        "where(isinf(Z))[0].size>0": "ANY_INF", "isinf(Z).any()": "ANY_INF",
        "where(Z==0.0)[0].size==f.size": "ALL_ZERO", "(Z==0.0).all()": "ALL_ZERO", "(Z==0).all()": "ALL_ZERO", "where(Z==0)[0].size==f.size": "ALL_ZERO",
        "where(Z==0.0)[0].size>0": "ANY_ZERO", "(Z==0.0).any()": "ANY_ZERO", "where(Z==0)[0].size>0": "ANY_ZERO", "(Z==0).any()": "ANY_ZERO",
        "shorted.all()": "ALL_SHORTED",
    }
    if t in table:
        return table[t]
    # tolerance-based zero tests: recognised, and wrong for this property (exact zero only)
    if "isclose(Z,0" in t or "allclose(Z,0" in t or ("abs(Z)<" in t):
        return "APPROX_ZERO_ALL" if ("==f.size" in t or ".all()" in t or "allclose" in t) else "APPROX_ZERO_ANY"
    return None


def _is_zero_return(s: ast.stmt) -> bool:
    return isinstance(s, ast.Return) and s.value is not None and norm(s.value).replace(" ", "") in (
        "complex(0,0)*f", "0*f", "0j*f", "zeros(f.shape,dtype=ComplexImpedance)", "0.0*f")


def _parallel_table(ctx: Ctx, model) -> None:
    fi = model.fi(PAR, "Parallel._impedance")
    loop = next((n for n in fi.node.body if isinstance(n, ast.For) and norm(n.iter) == "self._elements"), None)
    if loop is None:
        prov = child_provider(model, fi)
        if prov is not None and prov[2] is not None:
            loop = next((n for n in fi.node.body if isinstance(n, ast.For) and norm(n.iter) == prov[2]), None)
    if loop is None:
        raise AnalysisError("Parallel._impedance: child loop not found")
    defs: Dict[str, str] = {}
    for n in walk_ordered(loop):
        if isinstance(n, (ast.Assign, ast.AnnAssign)) and n.value is not None:
            t = n.targets[0] if isinstance(n, ast.Assign) else n.target
            if isinstance(t, ast.Name) and t.id.endswith("_indices"):
                defs[t.id] = norm(n.value)
    seen: Dict[str, ast.If] = {}
    order: List[str] = []

    def visit_chain(iff: ast.If, first: bool = True):
        k = _classify_guard(iff.test, defs)
        if k is None:
            if "isinstance" in norm(iff.test):
                return
            raise AnalysisError(f"Parallel._impedance: unrecognised guard `{norm(iff.test)}` in the child loop")
        seen[k] = iff
        order.append(k)
        if len(iff.orelse) == 1 and isinstance(iff.orelse[0], ast.If):
            visit_chain(iff.orelse[0], False)

    for s in loop.body:
        if isinstance(s, ast.If):
            visit_chain(s)
    imp = "ImpedanceError"
    for k in ("APPROX_ZERO_ALL", "APPROX_ZERO_ANY"):
        if k in seen:
            ctx.instance("R1.2", "short detection is exact")
            ctx.violation("R1.2", "Parallel:approximate-short", PAR, seen[k],
                          f"a branch is declared shorted by a tolerance test ({norm(seen[k].test)} with {defs}): a small but non-zero impedance would short the whole connection instead of entering 1/Σ(1/Z)")
            if k == "APPROX_ZERO_ALL":
                seen.setdefault("ALL_ZERO", seen[k])
            else:
                seen.setdefault("ANY_ZERO", seen[k])
    # ALL_INF
    ctx.instance("R1.2", "all-open child is skipped")
    a = seen.get("ALL_INF")
    if a is None:
        ctx.violation("R1.2", "Parallel:no-open-branch", PAR, loop, "an open (all-infinite) child is not recognised: 1/inf terms and inf results would leak into the sum")
    else:
        body = a.body
        ends_continue = isinstance(body[-1], ast.Continue)
        appends = [c for s in body for c in calls_in(s) if isinstance(c.func, ast.Attribute) and c.func.attr == "append"]
        returns = [n for s in body for n in walk_ordered(s) if isinstance(n, (ast.Return, ast.Raise))]
        if ends_continue and not appends and not returns:
            ctx.ok()
        else:
            ctx.violation("R1.2", "Parallel:open-branch-not-skipped", PAR, a, "an open child must be skipped (continue) without contributing, returning or raising")
    # ANY_INF after ALL_INF → refusal
    ctx.instance("R1.2", "partially infinite child is refused")
    b = seen.get("ANY_INF")
    if b is None or "ALL_INF" not in order or order.index("ANY_INF") < order.index("ALL_INF"):
        ctx.violation("R1.2", "Parallel:partial-inf", PAR, loop, "a child that is infinite at some but not all frequencies is not refused")
    else:
        rs = [s for s in b.body if isinstance(s, ast.Raise)]
        from ..effects import exc_name
        if rs and exc_is(model, PAR, exc_name(rs[0].exc), imp):
            ctx.ok()
        else:
            ctx.violation("R1.2", "Parallel:partial-inf", PAR, b, "a partially infinite child must raise the library's impedance error")
    # ALL_ZERO → return 0*f
    ctx.instance("R1.2", "all-short child shorts the connection")
    z = seen.get("ALL_ZERO")
    if z is not None and _is_zero_return(z.body[-1]):
        ctx.ok()
    else:
        ctx.violation("R1.2", "Parallel:short-branch", PAR, z or loop, "a shorted child (zero at all frequencies) must make the connection return zero impedance")
    ctx.instance("R1.2", "partially shorted frequencies are tracked and excluded from the reciprocal sum")
    pz = seen.get("ANY_ZERO")
    tail = [n for n in fi.node.body if isinstance(n, ast.If) and "shorted.any()" in norm(n.test)]
    ok = pz is not None and any(isinstance(s, ast.Assign) and norm(s.targets[0]).startswith("shorted[") and norm(s.value) == "True" for s in pz.body) and bool(tail)
    if ok:
        t = tail[0]
        ok = "~shorted" in norm(t) and any(isinstance(n, ast.AugAssign) and "non_shorted" in norm(n.target) for n in walk_ordered(t))
    if ok:
        ctx.ok()
    else:
        ctx.violation("R1.2", "Parallel:partial-short", PAR, pz or loop, "frequencies at which a child is exactly zero must be marked shorted and left out of 1/Z")
    # unconditional append at loop level
    ctx.instance("R1.2", "every non-open, non-short child enters the reciprocal sum")
    app = [s for s in loop.body if isinstance(s, ast.Expr) and isinstance(s.value, ast.Call) and isinstance(s.value.func, ast.Attribute)
           and s.value.func.attr == "append" and norm(s.value.args[0]) == "Z"]
    lps = [n for n in fi.node.body if isinstance(n, (ast.If, ast.For))]
    src_list = norm(app[0].value.func.value) if app else None
    uses = [n for n in walk_ordered(fi.node) if isinstance(n, ast.For) and src_list and norm(n.iter) == src_list]
    if len(app) == 1 and len(uses) >= 1:
        ctx.ok()
    else:
        ctx.violation("R1.2", "Parallel:append", PAR, loop, "children that are neither open nor short must all be collected for the reciprocal sum")
    # all children open → refusal
    ctx.instance("R1.2", "all children open is refused")
    post = [n for n in walk_ordered(fi.node) if isinstance(n, ast.If) and enclosing(n, ast.For) is None]
    ok = False
    for n in post:
        t = norm(n.test)
        if ("num_open_paths == len(" in t or "not path_impedances" in t or "len(path_impedances) == 0" in t) and \
                any(isinstance(s, ast.Raise) for s in n.body):
            ok = True
    counted = seen.get("ALL_INF") is not None and any(isinstance(s, ast.AugAssign) and norm(s.target) == "num_open_paths" for s in seen["ALL_INF"].body)
    if ok and (counted or any("path_impedances" in norm(n.test) for n in post)):
        ctx.ok()
    else:
        ctx.violation("R1.2", "Parallel:all-open", PAR, fi.node, "a parallel connection whose children are all open must raise InfiniteImpedance (otherwise 1/0)")
