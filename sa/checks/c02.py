"""C02 — numeric impedance of every element equals its documented equation.

Translation validation between the repository's two implementations:
`Class._impedance` (numeric) and the `equation=` string that `to_sympy`,
the documentation and the f=0/inf limits use."""
from __future__ import annotations

import ast
import itertools
import random
from typing import Any, Dict, List, Optional, Tuple

import sympy as sp

from ..core import AnalysisError, Ctx, norm, walk_ordered, calls_in, dotted
from ..elements import ElementDef, registered_elements
from ..model import get_model
from ..numeric import RepoInterp, canon
from ..terms import Unsupported, equal_terms, parse_equation, rationalise

LEVEL = "translation_validation"
BASE = "pyimpspec.circuit.base"
TLM = "pyimpspec.circuit.transmission_line_model"
ELEMENT_FLOOR = 23


def param_ranges(ed: ElementDef) -> Dict[str, Tuple[float, float]]:
    r: Dict[str, Tuple[float, float]] = {"f": (1e-4, 1e6)}
    for p in ed.params:
        lo = max(p.lower, 1e-4) if p.lower > 0 or p.upper > 1 else max(p.lower, 0.05)
        hi = min(p.upper, 1e4)
        if p.upper <= 1.0:  # exponent-like
            lo, hi = max(p.lower, 0.05), p.upper
        if not lo < hi:
            lo, hi = p.value * 0.5, p.value * 2
        r[p.symbol] = (lo, hi)
    return r


class SubVal:
    """Abstract value of the Tlm `Subcircuit` record in one configuration."""

    def __init__(self, name: str, state: str):
        self.name, self.state = name, state
        self.sym = sp.Symbol(name)

    @property
    def value(self):
        return {"finite": self.sym, "short": sp.Integer(0), "open": sp.oo}[self.state]


class ConnVal:
    def __init__(self, name, state):
        self.name, self.state = name, state


def check(ctx: Ctx) -> None:
    repo = ctx.repo
    model = get_model(repo)
    rng = random.Random(ctx.seed or 20260928)
    k_points = 30 if ctx.tier == "quick" else 200
    ctx.rule("R2.1", "term of Class._impedance (helpers inlined) == sympify(equation) for every registered element")
    ctx.rule("R2.2", "free symbols of the equation == declared parameters (+ sub-circuits) == _impedance signature; literals satisfy lower<upper, lower<=value<=upper")
    ctx.rule("R2.3", "general transmission line: _impedance and _sympy agree on all 243 open/short/finite configurations; registered equation == eq.16 leaf")
    ctx.rule("R2.4", "_calculate_limit derives from obj.to_sympy(substitute=True); to_sympy substitutes every get_values() key; default _sympy is sympify(self._equation)")
    ctx.assumptions += [
        "sympy's automatic canonicalisation of Add/Mul/Pow is sound on the principal branch for the element limit box",
        "numpy's element-wise functions sqrt/tanh/cosh/sinh/** compute the principal-branch functions sympy denotes by the same names",
    ]
    ctx.trusted += ["sympy.sympify (the repository uses it to read equations too)", "sa.terms interpreter (Python arithmetic → sympy)"]

    eds = registered_elements(repo)
    for ed in eds:
        ctx.modules_consulted.add(ed.module)
    ctx.modules_consulted.update({BASE, "pyimpspec.circuit.functions", "pyimpspec.circuit.registry"})

    verdict_counts: Dict[str, int] = {}
    programs = 0
    disagreements = 0

    # default symbolic implementation ---------------------------------------
    e_sympy = model.fi(BASE, "Element._sympy")
    c_sympy = model.fi(BASE, "Container._sympy")
    for fi in (e_sympy, c_sympy):
        rets = [n for n in walk_ordered(fi.node) if isinstance(n, ast.Return)]
        ok = len(rets) == 1 and isinstance(rets[0].value, ast.Call) and dotted(rets[0].value.func) == "sympify" \
            and len(rets[0].value.args) == 1 and norm(rets[0].value.args[0]) == "self._equation"
        ctx.instance("R2.4", fi.qname)
        if ok:
            ctx.ok()
        else:
            ctx.violation("R2.4", f"{fi.qual}:not-sympify-equation", fi.module, fi.node,
                          "default _sympy no longer returns sympify(self._equation): the documented equation is not what to_sympy/limits use")
    # registry stores the equation string unchanged (modulo strip)
    reg = model.fi("pyimpspec.circuit.registry", "_set_element_static_information")
    stores = [n for n in walk_ordered(reg.node) if isinstance(n, ast.Assign) and norm(n.targets[0]) == "Class._equation"]
    ctx.instance("R2.4", "registry:_equation store")
    if len(stores) == 1 and norm(stores[0].value) in ("equation.strip()", "equation"):
        ctx.ok()
    else:
        ctx.violation("R2.4", "registry:_equation-store", reg.module, reg.node,
                      "Class._equation is not assigned the definition's equation string")

    for ed in eds:
        ci = model.classes[ed.cls_q]
        imp = model.find_method(ed.cls_q, "_impedance")
        if imp is None or imp.cls in (f"{BASE}:Element", f"{BASE}:Container"):
            raise AnalysisError(f"{ed.cls}: no _impedance override found")
        programs += 1
        # R2.2 literals --------------------------------------------------------
        for p in ed.params:
            ctx.instance("R2.2", f"{ed.cls}.{p.symbol} limits")
            if p.lower < p.upper and p.lower <= p.value <= p.upper:
                ctx.ok()
            else:
                ctx.violation("R2.2", f"{ed.cls}.{p.symbol}:limits", ed.module, p.node,
                              f"ParameterDefinition {p.symbol}: need lower<upper and lower<=value<=upper, got {p.lower}, {p.value}, {p.upper}")
        # signature ---------------------------------------------------------------
        a = imp.node.args
        sig = [x.arg for x in a.args][1:]
        declared = [p.symbol for p in ed.params] + [s.symbol for s in ed.subs]
        ctx.instance("R2.2", f"{ed.cls} signature")
        if not sig or sig[0] != "f":
            ctx.violation("R2.2", f"{ed.cls}:signature-f", ed.module, imp.node, "_impedance must take f first")
        elif a.kwarg is None and set(sig[1:]) != set(declared):
            ctx.violation("R2.2", f"{ed.cls}:signature", ed.module, imp.node,
                          f"_impedance parameters {sig[1:]} differ from declared parameters {declared} (the dispatcher passes **get_values())")
        else:
            ctx.ok()
        # equation symbols ----------------------------------------------------------
        eq = canon(parse_equation(ed.equation))
        free = {s.name for s in eq.free_symbols}
        ctx.instance("R2.2", f"{ed.cls} equation symbols")
        if free - {"f"} != set(declared):
            ctx.violation("R2.2", f"{ed.cls}:equation-symbols", ed.module, ed.node,
                          f"free symbols of the equation {sorted(free - {'f'})} differ from declared parameters {sorted(declared)}")
        else:
            ctx.ok()

        sym_override = model.find_method(ed.cls_q, "_sympy")
        has_override = sym_override is not None and sym_override.qname not in (e_sympy.qname, c_sympy.qname)

        if ed.container:
            if ed.cls != "TransmissionLineModel":
                raise AnalysisError(f"container element {ed.cls}: no decision-table model for it")
            _check_tlm(ctx, model, ed, eq, rng, k_points, verdict_counts)
            continue
        if has_override:
            raise AnalysisError(f"{ed.cls} overrides _sympy; R2.1 compares against the equation string only")

        # R2.1 ---------------------------------------------------------------------
        ctx.instance("R2.1", f"{ed.cls} ({ed.symbol})")
        interp = RepoInterp(model)
        env = {"f": sp.Symbol("f")}
        env.update({p.symbol: sp.Symbol(p.symbol) for p in ed.params})
        try:
            paths = interp.paths(imp, env)
        except Unsupported as e:
            raise AnalysisError(f"{ed.cls}._impedance outside the term fragment: {e}")
        rets = [p for p in paths if p.kind == "return"]
        if len(paths) != 1 or len(rets) != 1:
            raise AnalysisError(f"{ed.cls}._impedance: expected one straight-line path, found {len(paths)}")
        numt_raw = sp.sympify(rets[0].value)
        verdict, wit = None, None
        if numt_raw.has(sp.Piecewise):
            # a case distinction on the parameters (e.g. a fast path for an ideal exponent): every case is compared with
            # the equation under its own condition — an equality case by substitution, the remaining case generically
            for sub, branch in _cases(numt_raw, ed.cls):
                v_, w_ = equal_terms(canon(branch.subs(sub)), canon(eq.subs(sub)), rng, k=k_points, ranges=param_ranges(ed))
                ctx.instance("R2.1", f"{ed.cls} case {({str(k_): str(x_) for k_, x_ in sub.items()} or 'otherwise')}: {v_}")
                if v_ == "different":
                    verdict, wit = v_, dict(w_ or {}, case={str(k_): str(x_) for k_, x_ in sub.items()})
                    break
                if v_ == "unknown":
                    verdict = v_
                verdict = verdict or v_
            numt = numt_raw
        else:
            numt = canon(numt_raw)
            verdict, wit = equal_terms(numt, eq, rng, k=k_points, ranges=param_ranges(ed))
        verdict_counts[verdict] = verdict_counts.get(verdict, 0) + 1
        ctx.sample({"element": ed.cls, "numeric_term": str(numt)[:160], "equation_term": str(eq)[:160], "verdict": verdict})
        if verdict == "different":
            disagreements += 1
            ctx.violation("R2.1", f"{ed.cls}:numeric-vs-equation", ed.module, imp.node,
                          f"{ed.cls}._impedance and its documented equation are different functions; witness {wit}",
                          witness=wit)
        elif verdict == "unknown":
            raise AnalysisError(f"{ed.cls}: terms could not be compared at any random point")
        else:
            ctx.ok()
            if ctx.tier == "thorough" and verdict in ("structural", "polynomial"):
                from ..terms import random_interpretation
                agree, w2, done = random_interpretation(numt, eq, rng, k=60, ranges=param_ranges(ed))
                if not agree:
                    raise AnalysisError(f"{ed.cls}: normal forms equal but random interpretation differs at {w2}: unsound canonicalisation")

    ctx.floor("R2.1", ELEMENT_FLOOR - 1)
    if programs < ELEMENT_FLOOR:
        raise AnalysisError(f"only {programs} registered elements found; floor {ELEMENT_FLOOR}")

    _check_limit(ctx, model)
    ctx.extra_cov.update({
        "programs": programs,
        "disagreements_checked": disagreements,
        "verdicts": verdict_counts,
        "random_points_per_inconclusive_pair": k_points,
    })


# ---------------------------------------------------------------------------

def _cases(expr, who: str):
    folded = sp.piecewise_fold(expr)
    if not isinstance(folded, sp.Piecewise):
        raise AnalysisError(f"{who}._impedance: case distinction could not be brought to the top level")
    out = []
    for e, c in folded.args:
        sub = {}
        for part in (c.args if isinstance(c, sp.And) else [c]):
            if part == sp.true or isinstance(part, sp.Ne):
                continue
            if isinstance(part, sp.Eq) and isinstance(part.lhs, sp.Symbol) and part.rhs.is_number:
                sub[part.lhs] = part.rhs
            elif isinstance(part, sp.Eq) and isinstance(part.rhs, sp.Symbol) and part.lhs.is_number:
                sub[part.rhs] = part.lhs
            else:
                raise AnalysisError(f"{who}._impedance: case condition {part} is not an equality of a parameter with a constant")
        out.append((sub, e))
    return out


def _check_limit(ctx: Ctx, model) -> None:
    fi = model.fi(BASE, "_calculate_limit")
    ctx.instance("R2.4", "_calculate_limit")
    first = None
    for n in walk_ordered(fi.node):
        if isinstance(n, ast.Call) and isinstance(n.func, ast.Attribute) and n.func.attr == "to_sympy":
            first = n
            break
    ok = first is not None and norm(first.func.value) == "obj" and any(
        k.arg == "substitute" and isinstance(k.value, ast.Constant) and k.value.value is True for k in first.keywords)
    # recomputed on every call: no return path may skip obj.to_sympy(substitute=True) (a memoised limit goes stale when a
    # nested parameter changes)
    from ..cfg import returns_not_passing
    skipped = returns_not_passing(fi.node, lambda a: any(isinstance(c, ast.Call) and isinstance(c.func, ast.Attribute) and c.func.attr == "to_sympy"
                                                       and norm(c.func.value) == "obj" for c in ast.walk(a)))
    ctx.instance("R2.4", "_calculate_limit recomputes from the current expression on every call")
    if skipped:
        ctx.violation("R2.4", "_calculate_limit:memoised-path", fi.module, skipped[0],
                      "_calculate_limit can return without evaluating obj.to_sympy(substitute=True): a cached limit is not the continuous extension once a (nested) parameter changes")
    else:
        ctx.ok()
    lim = [n for n in walk_ordered(fi.node) if isinstance(n, ast.Call) and dotted(n.func) == "limit"]
    ok = ok and len(lim) == 1 and len(lim[0].args) == 3 and norm(lim[0].args[0]) == "expr" and norm(lim[0].args[2]) == "f"
    if ok:
        ctx.ok()
    else:
        ctx.violation("R2.4", "_calculate_limit:source", fi.module, fi.node,
                      "_calculate_limit must take limit(obj.to_sympy(substitute=True), <symbol>, f)")
    # to_sympy substitutes every key of get_values() (and every sub-circuit): decided by interpreting the function over
    # the finite abstraction of its inputs (see sa/checks/_naming.py)
    from ._naming import naming_problems
    for qual, need_sub in (("Element.to_sympy", False), ("Container.to_sympy", True)):
        f2 = model.fi(BASE, qual)
        probs, n_in = naming_problems(model, qual)
        ctx.instance("R2.4", f"{qual}: substitution table on {n_in} abstract inputs")
        bad = [p_ for p_ in probs if p_["kind"] in ("substitution", "result", "raises")]
        if not bad:
            ctx.ok()
        else:
            p0 = bad[0]
            ctx.violation("R2.4", f"{qual}:substitution", f2.module, f2.node,
                          f"{qual} must return self._sympy(...).subs(table) with one entry per get_values() key"
                          + (" and per sub-circuit" if need_sub else "") + f"; for {p0['input']} it gives {p0['got']} instead of {p0['want']}")


# ---------------------------------------------------------------------------

def _tlm_paths(model, fi, config: Dict[str, str], symbolic: bool, substitute: bool = False):
    subs: Dict[str, SubVal] = {}

    def extra_call(cur_fi, name, node, args, kwargs, env):
        if name == "_evaluate_subcircuit":
            c = args[0]
            if not isinstance(c, ConnVal):
                raise Unsupported("_evaluate_subcircuit on a non-subcircuit value")
            return SubVal(c.name, c.state)
        if name == "update_expr":
            base = node.func.value if isinstance(node.func, ast.Attribute) else None
            return None
        if name in ("full", "array", "any", "map"):
            return sp.Symbol("opaque_array")
        if name == "subs" and isinstance(node.func, ast.Attribute):
            return None
        return NotImplemented

    def extra_attr(base, attr):
        if isinstance(base, SubVal):
            if attr == "is_open":
                return base.state == "open"
            if attr == "is_short":
                return base.state == "short"
            if attr in ("impedances", "expr"):
                if (attr == "expr") != symbolic:
                    raise Unsupported(f".{attr} used in the {'symbolic' if symbolic else 'numeric'} implementation")
                return base.value
        if attr == "shape":
            return sp.Symbol("opaque_shape")
        return NotImplemented

    interp = RepoInterp(model, extra_call=extra_call, extra_attr=extra_attr)
    L = sp.Symbol("L")
    conn = {k: ConnVal(k, v) for k, v in config.items()}
    if symbolic:
        env = {"substitute": substitute, "identifiers": {}, "values": {"L": L}, "subcircuits": dict(conn)}
    else:
        env = {"f": sp.Symbol("f"), "L": L}
        env.update(conn)
    return interp.paths(fi, env)


def _outcome(paths) -> Tuple[str, Any]:
    outs = set()
    val = None
    for p in paths:
        if p.kind == "raise":
            outs.add(("raise", p.value))
        elif p.kind == "return":
            v = canon(p.value)
            outs.add(("return", sp.srepr(v)))
            val = v
        else:
            outs.add(("fall", None))
    if len(outs) != 1:
        raise Unsupported(f"configuration yields {len(outs)} distinct outcomes: {sorted(o[0] for o in outs)}")
    kind, x = next(iter(outs))
    return kind, (val if kind == "return" else x)


def _check_tlm(ctx: Ctx, model, ed: ElementDef, eq, rng, k_points, verdict_counts) -> None:
    num = model.fi(TLM, "TransmissionLineModel._impedance")
    sym = model.fi(TLM, "TransmissionLineModel._sympy")
    # _impedance of the container handles Expr statements? (update_expr calls) — TermInterp needs them allowed
    keys = ["X_1", "X_2", "Z_A", "Z_B", "Zeta"]
    if sorted(s.symbol for s in ed.subs) != sorted(keys):
        raise AnalysisError(f"Tlm sub-circuits changed: {[s.symbol for s in ed.subs]}")
    states = ["finite", "short", "open"]
    admitted = 0
    refused = 0
    seen_refusals = set()
    singular: List[str] = []
    ranges = {k: (1e-2, 1e2) for k in keys + ["L"]}
    for combo in itertools.product(states, repeat=5):
        config = dict(zip(keys, combo))
        desc = ",".join(f"{k}={v}" for k, v in config.items())
        try:
            kn, vn = _outcome(_tlm_paths(model, num, config, symbolic=False))
            ks, vs = _outcome(_tlm_paths(model, sym, config, symbolic=True, substitute=False))
            ks2, vs2 = _outcome(_tlm_paths(model, sym, config, symbolic=True, substitute=True))
        except Unsupported as e:
            raise AnalysisError(f"Tlm configuration {desc}: {e}")
        if (ks, str(vs)) != (ks2, str(vs2)):
            ctx.violation("R2.3", f"Tlm:{desc}:substitute-dependence", TLM, sym.node,
                          f"_sympy selects different formulas with substitute=True/False in configuration {desc}")
        if kn == "raise" and ks == "raise":
            refused += 1
            if ctx.tier == "quick" and (vn, vs) in seen_refusals:
                continue
            seen_refusals.add((vn, vs))
            ctx.instance("R2.3", f"refused {desc}")
            if vn != vs:
                ctx.violation("R2.3", f"Tlm:{desc}:refusal-type", TLM, sym.node,
                              f"configuration {desc}: numeric raises {vn}, symbolic raises {vs}")
            else:
                ctx.ok()
            continue
        ctx.instance("R2.3", f"admitted {desc}")
        if kn != ks:
            ctx.violation("R2.3", f"Tlm:{desc}:admission", TLM, num.node,
                          f"configuration {desc}: numeric implementation {kn}s ({vn if kn == 'raise' else 'a value'}) "
                          f"but symbolic implementation {ks}s ({vs if ks == 'raise' else 'a value'})")
            continue
        admitted += 1
        sing = [bool(t.has(sp.oo, sp.nan, sp.zoo, sp.S.NegativeInfinity)) for t in (vn, vs)]
        if all(sing):
            # both implementations evaluate a singular expression (division by a shorted
            # boundary impedance): there is no finite value to compare; agreement in kind
            singular.append(desc)
            ctx.ok()
            continue
        if any(sing):
            ctx.violation("R2.3", f"Tlm:{desc}:one-sided-singularity", TLM, num.node,
                          f"configuration {desc}: only the {'numeric' if sing[0] else 'symbolic'} implementation "
                          f"selects a formula that is singular (reads an open or divides by a shorted branch)")
            continue
        verdict, wit = equal_terms(vn, vs, rng, k=k_points, ranges=ranges)
        verdict_counts["tlm-" + verdict] = verdict_counts.get("tlm-" + verdict, 0) + 1
        if verdict == "different":
            ctx.violation("R2.3", f"Tlm:{desc}:leaf", TLM, num.node,
                          f"configuration {desc}: numeric and symbolic leaf formulas differ; witness {wit}", witness=wit)
        elif verdict == "unknown":
            raise AnalysisError(f"Tlm configuration {desc}: leaf terms not comparable")
        else:
            ctx.ok()
        if all(v == "finite" for v in combo):
            ctx.instance("R2.1", "TransmissionLineModel (Tlm) registered equation vs eq.16 leaf")
            v2, w2 = equal_terms(vn, eq, rng, k=k_points, ranges=ranges)
            ctx.sample({"element": "TransmissionLineModel", "verdict": v2, "config": desc})
            if v2 == "different":
                ctx.violation("R2.1", "TransmissionLineModel:numeric-vs-equation", TLM, ed.node,
                              f"registered Tlm equation differs from the eq.16 implementation; witness {w2}", witness=w2)
            elif v2 == "unknown":
                raise AnalysisError("Tlm registered equation not comparable")
            else:
                ctx.ok()
    if admitted < 27:
        raise AnalysisError(f"only {admitted} admitted Tlm configurations (27 expected: X_1,X_2 finite|short not both short, Zeta finite, Z_A,Z_B any)")
    ctx.extra_cov["tlm_configurations"] = {"total": 243, "admitted": admitted, "refused": refused,
                                           "singular_in_both": singular}
    if singular:
        ctx.note(f"{len(singular)} admitted Tlm configuration(s) select a formula that is singular in BOTH implementations "
                 f"(shorted Z_A with a shorted phase → 1/0): {singular}; no finite value exists to compare")
    # _evaluate_subcircuit semantics: None → open; all-inf → open; all-zero → short
    ev = model.fi(TLM, "_evaluate_subcircuit")
    ctx.instance("R2.3", "_evaluate_subcircuit classification")
    src = norm(ev.node)
    shorts = [n for n in walk_ordered(ev.node) if isinstance(n, ast.keyword) and n.arg == "is_short" and not isinstance(n.value, ast.Constant)]
    opens_ok = "if con is None" in src and "is_open=True" in src
    if len(shorts) != 1 or not opens_ok:
        raise AnalysisError("_evaluate_subcircuit no longer has the recognised open/short classification shape")
    t = norm(shorts[0].value).replace(" ", "")
    if any(x in t for x in ("allclose(", "isclose(", "abs(Z)<", "<1e", "<=1e")):
        ctx.violation("R2.3", "_evaluate_subcircuit:approximate-short", TLM, shorts[0].value,
                      f"a sub-circuit is classified as shorted by a tolerance test ({norm(shorts[0].value)}): the numeric path (all requested frequencies) and the "
                      f"symbolic path (one probe frequency) can classify a small, frequency-dependent sub-circuit differently, so the symbolic export disagrees with the numeric impedance")
    elif "==0" in t and (".size==f.size" in t or ".all()" in t):
        ctx.ok()
    else:
        raise AnalysisError(f"_evaluate_subcircuit: short classification {norm(shorts[0].value)} not recognised")
