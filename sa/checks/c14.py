"""C14 — the element parameter API is a consistent state machine.

Model checking of an abstraction extracted from the source: the setter bodies
are compiled from `circuit/base.py` into transfer functions over the finite
order domain (Engine E) and every world (weak ordering of the symbols
involved) is enumerated."""
from __future__ import annotations

import ast
from typing import Dict, List, Optional, Tuple

from ..core import enclosing, AnalysisError, Ctx, calls_in, dotted, norm, walk_ordered
from ..model import get_model
from ..orders import (NINF, NUMERIC_SETTERS, PINF, Outcome, Setter, Step, chain_calls, classify_arg, worlds)

LEVEL = "model_checking"
BASE = "pyimpspec.circuit.base"
PARSER = "pyimpspec.circuit.parser"


# ---------------------------------------------------------------------------
# shared with C03
# ---------------------------------------------------------------------------

def compile_setters(model) -> Dict[str, Setter]:
    out = {}
    methods = {n: f.node for n, f in model.classes[f"{BASE}:Element"].methods.items()}
    for m in NUMERIC_SETTERS:
        fi = model.fi(BASE, f"Element.{m}")
        def resolve_function(nm, _m=model):
            r = _m.resolve(BASE, nm)
            return _m.funcs[r[1]].node if r and r[0] == "func" and r[1] in _m.funcs else None
        out[m] = Setter(fi.node, f"Element.{m}", methods, resolve_function)
    # no subclass may override them unnoticed
    elem_q = f"{BASE}:Element"
    for cq in model.subclasses(elem_q):
        ci = model.classes[cq]
        for m in NUMERIC_SETTERS + ("set_fixed", "set_label", "reset_parameters", "reset_parameter", "__init__"):
            if m in ci.methods and not (cq == f"{BASE}:Container" and m == "__init__"):
                raise AnalysisError(f"{cq} overrides {m}: the state-machine model covers Element's implementation only")
    return out


def init_semantics(model) -> None:
    """Element.__init__: value from kwargs (unvalidated) or the default;
    limits and fixed flags are copies of the class defaults."""
    fi = model.fi(BASE, "Element.__init__")
    src = fi.node
    stores = {}
    for n in walk_ordered(src):
        if isinstance(n, (ast.Assign, ast.AnnAssign)):
            t = n.targets[0] if isinstance(n, ast.Assign) else n.target
            if n.value is not None:
                stores.setdefault(norm(t), []).append(norm(n.value))
    need = {
        "self._parameter_lower_limit": "self._parameter_default_lower_limit.copy()",
        "self._parameter_upper_limit": "self._parameter_default_upper_limit.copy()",
        "self._parameter_fixed": "self._parameter_default_fixed.copy()",
    }
    for k, v in need.items():
        if stores.get(k) not in ([v], [v[:-len(".copy()")]]):  # a missing .copy() is reported by R14.4, not here
            raise AnalysisError(f"Element.__init__: {k} is not initialised as {v} (found {stores.get(k)})")
    vs = stores.get("self._parameter_value[key]", [])
    if sorted(vs) != sorted(["value", "float(kwargs[key])"]):
        raise AnalysisError(f"Element.__init__: value initialisation shape changed: {vs}")
    loops = [n for n in walk_ordered(src) if isinstance(n, ast.For)]
    if not any(norm(l.iter) == "self._parameter_default_value.items()" for l in loops):
        raise AnalysisError("Element.__init__: does not iterate over the class default values")


METHODS: Dict[str, ast.FunctionDef] = {}  # methods of Element/Container by name (filled by check()): helper methods in a chain are followed


def sequence_of(fn: ast.FunctionDef, who: str, receivers=("self",), _depth: int = 0) -> List[Step]:
    """Ordered setter calls in a function: either one chained expression rooted at
    type(self)(...) or consecutive `recv.m(...)` statements."""
    steps: List[Step] = []
    for s in fn.body:
        exprs: List[ast.AST] = []
        if isinstance(s, ast.Expr):
            exprs = [s.value]
        elif isinstance(s, ast.Return) and s.value is not None:
            exprs = [s.value]
        elif isinstance(s, (ast.Assign, ast.AnnAssign)) and s.value is not None:
            exprs = [s.value]
        elif isinstance(s, ast.If):
            # __deepcopy__: `if copy is None: copy = (chain); memo[..] = copy`
            for sub in s.body:
                if isinstance(sub, (ast.Assign, ast.AnnAssign)) and sub.value is not None:
                    exprs.append(sub.value)
        for e in exprs:
            # helper method applied to a freshly constructed instance: self._helper(type(self)(…)[.chain…])
            if isinstance(e, ast.Call) and isinstance(e.func, ast.Attribute) and norm(e.func.value) == "self" and e.func.attr in METHODS and _depth < 2 \
                    and e.args and any(isinstance(x, ast.Call) and _is_ctor(x) for x in ast.walk(e.args[0])):
                inner_fn = ast.FunctionDef(name="_inner", args=fn.args, body=[ast.Expr(value=e.args[0])], decorator_list=[], returns=None)
                steps += sequence_of(inner_fn, who, receivers, _depth + 1)
                h = METHODS[e.func.attr]
                hp = [a.arg for a in h.args.args if a.arg != "self"]
                if hp:
                    steps += sequence_of(h, f"{who}→{e.func.attr}", (hp[0],), _depth + 1)
                continue
            base, calls = chain_calls(e)
            if not calls:
                if isinstance(e, ast.Call) and _is_ctor(e):
                    steps.append(_init_step(e, who))
                continue
            rooted = isinstance(base, ast.Call) and _is_ctor(base)
            named = isinstance(base, ast.Name) and base.id in receivers
            if not (rooted or named):
                continue
            if rooted:
                steps.append(_init_step(base, who))
            for c in calls:
                m = c.func.attr
                if m in NUMERIC_SETTERS:
                    steps.append(Step(m, classify_arg(c, who, fn), c))
                elif m in ("set_fixed", "set_label", "set_subcircuits"):
                    steps.append(Step(m, "", c))
                elif m in METHODS and _depth < 2 and m not in ("get_values", "get_lower_limits", "get_upper_limits"):
                    # a helper method of the class applied in the chain (e.g. _copy_limits_from(source)): its own setter
                    # sequence on `self` takes the place of the call
                    steps += sequence_of(METHODS[m], f"{who}→{m}", ("self",), _depth + 1)
    return steps


def _is_ctor(call: ast.Call) -> bool:
    f = call.func
    if isinstance(f, ast.Call) and isinstance(f.func, ast.Name) and f.func.id == "type":
        return True
    return isinstance(f, ast.Name) and f.id == "Class"


def _init_step(call: ast.Call, who: str) -> Step:
    txt = " ".join(norm(k.value) for k in call.keywords)
    if "get_values" in txt or "parameters" in txt:
        return Step("init", "v", call)
    if not call.keywords and not call.args:
        return Step("init", "", call)
    if all("subcircuit" in norm(k.value) or "get_subcircuits" in norm(k.value) for k in call.keywords):
        return Step("init", "", call)
    raise AnalysisError(f"{who}: constructor arguments not understood: {norm(call)[:100]}")


def run_sequence(steps: List[Step], setters: Dict[str, Setter], w: Dict[str, int], skip: Tuple[str, ...] = ()
                 ) -> Tuple[bool, Tuple[str, str, str], Optional[Step], Optional[str]]:
    state = ("v0", "l0", "u0")
    for st in steps:
        if st.method == "init":
            state = (st.arg if st.arg else "v0", "l0", "u0")
        elif st.method in NUMERIC_SETTERS:
            if st.arg in skip:
                continue
            out = setters[st.method].apply(state, st.arg, w)
            if not out.ok:
                return False, out.state, st, out.exc
            state = out.state
    return True, state, None, None


def same(w, a: Tuple[str, str, str], b: Tuple[str, str, str]) -> bool:
    return all(w[x] == w[y] for x, y in zip(a, b))


def fmt_world(w: Dict[str, int]) -> str:
    inv: Dict[int, List[str]] = {}
    for k, v in w.items():
        inv.setdefault(v, []).append(k)
    return " < ".join("=".join(sorted(inv[r])) for r in sorted(inv))


SRC_OK = [("l", "<", "u"), ("l", "<=", "v"), ("v", "<=", "u")]
DEF_OK = [("l0", "<", "u0"), ("l0", "<=", "v0"), ("v0", "<=", "u0")]


def check_transfer(ctx: Ctx, rid: str, key: str, module: str, fn: ast.FunctionDef, steps: List[Step],
                   setters, ws: List[Dict[str, int]], expect: Tuple[str, str, str], what: str,
                   skip: Tuple[str, ...] = ()) -> Tuple[int, int]:
    """Run one extracted sequence in every world.  One finding per sequence
    (first failing world as the witness)."""
    failures = 0
    wrong = 0
    first_fail = None
    first_wrong = None
    for w in ws:
        ok, state, at, exc = run_sequence(steps, setters, w, skip)
        if not ok:
            failures += 1
            if first_fail is None:
                first_fail = (w, at, exc)
        elif not same(w, state, expect):
            wrong += 1
            if first_wrong is None:
                first_wrong = (w, state)
    ctx.extra_cov["transitions"] = ctx.extra_cov.get("transitions", 0) + len(ws) * max(1, len(steps))
    if first_fail is not None:
        w, at, exc = first_fail
        ctx.violation(rid, f"{key}:refused", module, fn,
                      f"{what} is refused in {failures} of {len(ws)} admissible orderings; e.g. world [{fmt_world(w)}]: "
                      f"{at.method}({at.arg}) raises {exc}", worlds_failing=failures, witness_world=fmt_world(w))
    elif first_wrong is not None:
        w, state = first_wrong
        ctx.violation(rid, f"{key}:wrong-state", module, fn,
                      f"{what} ends in (v,l,u)=({state[0]},{state[1]},{state[2]}) instead of {expect} in {wrong} of {len(ws)} "
                      f"orderings; e.g. world [{fmt_world(w)}]", witness_world=fmt_world(w))
    else:
        ctx.ok()
    return failures, wrong


# ---------------------------------------------------------------------------

def copy_carries_flags(ctx: Ctx, model, rid: str) -> None:
    """The copies fit_circuit works on carry every fixed flag (True and False) and the label of the source: used by C12
    (a parameter the user freed must not come back fixed in the working copy, and vice versa)."""
    from ..prov import dict_arg
    METHODS.clear()
    for cq in (f"{BASE}:Element", f"{BASE}:Container"):
        for mn, mf in model.classes[cq].methods.items():
            METHODS.setdefault(mn, mf.node)
    for qual in ("Element.__copy__", "Container.__copy__", "Container.__deepcopy__"):
        fi = model.fi(BASE, qual)
        seq = sequence_of(fi.node, qual)
        hit = [s_ for s_ in seq if s_.method == "set_fixed"]
        ctx.instance(rid, f"{qual}: fixed flags of the source are carried over unchanged")
        good = False
        if hit:
            c_ = hit[0].node
            das = [dict_arg(k.value, enclosing(c_, (ast.FunctionDef,)) or fi.node) for k in c_.keywords if k.arg is None]
            good = any(d is not None and any(t in d[0] for t in ("are_fixed", "_parameter_fixed")) and d[1] == "same" and not d[2] for d in das)
        if good:
            ctx.ok()
        else:
            ctx.violation(rid, f"{qual}:fixed-flags", BASE, fi.node, f"{qual} does not carry every fixed flag of the source (True and False) into the copy: the working copy of a fit fixes or frees other parameters than the user's circuit")


def check(ctx: Ctx) -> None:
    model = get_model(ctx.repo)
    ctx.modules_consulted.update({BASE, PARSER, "pyimpspec.circuit.circuit"})
    METHODS.clear()
    for cq in (f"{BASE}:Element", f"{BASE}:Container"):
        for mn, mf in model.classes[cq].methods.items():
            METHODS.setdefault(mn, mf.node)
    ctx.rule("R14.1", "single operations in every world: no store before a refusal; success ⇒ l<u strictly, limit moved past the value clamps the value, set_values touches only the value; set_fixed/set_label touch no numeric state")
    ctx.rule("R14.2", "reset_parameters/reset_parameter reach (v0,l0,u0) from every state with l<u")
    ctx.rule("R14.3", "copy/deepcopy of Element and Container succeed and reproduce (v,l,u,fixed,label) in every world with l<=v<=u, l<u")
    ctx.rule("R14.4", "no method hands out or stores a class-level or instance dictionary without copying; only set_default_values and the registry write class-level defaults; __deepcopy__ consults and fills memo")
    ctx.rule("R14.5", "explicit-state exploration: all states reachable through set_values/set_lower_limits/set_upper_limits/reset with arguments from the symbol set keep l<u; copy succeeds wherever l<=v<=u")
    ctx.assumptions += [
        "arguments are finite or infinite floats (no NaN); float() conversion succeeds",
        "class defaults satisfy l0<u0 and l0<=v0<=u0 (checked for the built-in literals by C02 R2.2)",
        "keys address existing parameters (key validation is a separate, syntactic refusal)",
    ]
    ctx.trusted += ["sa/orders.py: compilation of the setter loop bodies (dict read/write, comparison, float, raise)"]

    setters = compile_setters(model)
    init_semantics(model)
    states_seen = set()
    transitions = 0

    # R14.1 ------------------------------------------------------------------
    ws1 = worlds(["v", "l", "u", "x"], [("l", "<", "u")], with_inf=True)
    for m, S in setters.items():
        fi = model.fi(BASE, f"Element.{m}")
        ctx.instance("R14.1", f"Element.{m} × {len(ws1)} worlds")
        bad_store = bad_post = None
        for w in ws1:
            for x in ("x", NINF, PINF, "v", "l", "u"):
                out = S.apply(("v", "l", "u"), x, w)
                transitions += 1
                states_seen.add((m, tuple(sorted(w.items())), x))
                if not out.ok:
                    if out.stores_before_raise and bad_store is None:
                        bad_store = (w, x, out)
                    continue
                v2, l2, u2 = out.state
                if not w[l2] < w[u2]:
                    bad_post = bad_post or (w, x, out, "lower limit not strictly below upper limit after success")
                if m == "set_values":
                    exp = (x, "l", "u")
                elif m == "set_lower_limits":
                    exp = (x if w["v"] < w[x] else "v", x, "u")
                else:
                    exp = (x if w["v"] > w[x] else "v", "l", x)
                if not same(w, out.state, exp):
                    bad_post = bad_post or (w, x, out, f"state after success is {out.state}, expected {exp}")
        if S.lazy_pairs is not None:
            ctx.violation("R14.1", f"{m}:lazy-argument-refusal", BASE, S.lazy_pairs,
                          f"{m} iterates over pairs that are validated lazily (a generator that can raise after it has yielded): a call refused because of a "
                          f"duplicate/invalid later pair has already applied the earlier ones, so the refused update does not leave the element unchanged")
        if bad_store:
            w, x, out = bad_store
            ctx.violation("R14.1", f"{m}:store-before-refusal", BASE, fi.node,
                          f"{m}({x}) stores {out.stores_before_raise} value(s) and then raises {out.exc} in world [{fmt_world(w)}]: a refused update must leave the parameter unchanged")
        else:
            ctx.ok()
        if bad_post:
            w, x, out, why = bad_post
            ctx.violation("R14.1", f"{m}:postcondition", BASE, fi.node, f"{m}({x}) in world [{fmt_world(w)}]: {why}")
        else:
            ctx.ok()
        # the setter may only write the slots it is responsible for
        allowed = {"set_values": {"v"}, "set_lower_limits": {"v", "l"}, "set_upper_limits": {"v", "u"}}[m]
        if not S.stored_slots <= allowed:
            ctx.violation("R14.1", f"{m}:write-set", BASE, fi.node, f"{m} writes slots {sorted(S.stored_slots)}; allowed {sorted(allowed)}")
        else:
            ctx.ok()
    for m, allowed_attr in (("set_fixed", "_parameter_fixed"), ("set_label", "_label")):
        fi = model.fi(BASE, f"Element.{m}")
        ctx.instance("R14.1", f"Element.{m} write set")
        bad = []
        for n in walk_ordered(fi.node):
            tgts = []
            if isinstance(n, ast.Assign):
                tgts = n.targets
            elif isinstance(n, (ast.AugAssign, ast.AnnAssign)):
                tgts = [n.target]
            elif isinstance(n, ast.Delete):
                tgts = n.targets
            for t in tgts:
                tx = norm(t)
                if tx.startswith("self.") and not tx.startswith(f"self.{allowed_attr}"):
                    bad.append(tx)
            if isinstance(n, ast.Call) and isinstance(n.func, ast.Attribute) and n.func.attr in NUMERIC_SETTERS + ("reset_parameters", "reset_parameter", "clear", "update", "pop"):
                if dotted(n.func.value).startswith("self"):
                    bad.append(norm(n.func))
        if bad:
            ctx.violation("R14.1", f"{m}:write-set", BASE, fi.node, f"{m} modifies {bad}: it may only touch self.{allowed_attr}")
        else:
            ctx.ok()

    # R14.2 reset ----------------------------------------------------------------
    ws_reset = worlds(["v", "l", "u", "v0", "l0", "u0"], [("l", "<", "u")] + DEF_OK, with_inf=True)
    # decided by interpreting the methods themselves in every world (sa/checks/_c14_interp.py); the compiled setter sequences
    # below are the fallback for a tree the interpreter does not understand
    from . import _c14_interp as I14
    interp_ok = True
    try:
        cp_problems, cp_counts = I14.run_copies(ctx, model, ctx.tier != "quick")
        rs_problems, rs_counts = I14.run_resets(ctx, model, ctx.tier != "quick")
    except AnalysisError as e:
        interp_ok = False
        ctx.note(f"copies/resets not interpretable ({e}); decided from the compiled setter sequences instead")
    if interp_ok:
        for qual, n_ in rs_counts.items():
            ctx.instance("R14.2", f"{qual}: interpreted from (v,l,u,fixed) × {n_} worlds/flags; must reach (v0,l0,u0,default flag) and keep the label")
            transitions += n_
            hit = [m_ for q_, m_ in rs_problems if q_ == qual]
            fi = model.fi(BASE, "Element." + qual.split(".")[1].split("(")[0])
            if hit:
                ctx.violation("R14.2", f"{qual.split('(')[0]}:{'refused' if 'raises' in hit[0] else 'wrong-state'}", BASE, fi.node, f"{qual}: {hit[0]}")
            else:
                ctx.ok()
        for qual, n_ in cp_counts.items():
            ctx.instance("R14.3", f"{qual}: interpreted for a valid source (l<=v<=u, l<u, both flags, label, sub-circuits) × {n_} worlds/flags; copy must equal the source, be a new object and leave the source unchanged")
            transitions += n_
            fi = model.fi(BASE, qual)
            hit = [(q_, m_) for q_, m_ in cp_problems if q_.split(":")[0] == qual]
            for q_, m_ in hit:
                kind = q_.split(":")[1] if ":" in q_ else ("refused" if "raises" in m_ else "wrong-state")
                ctx.violation("R14.3", f"{qual}:{kind}", BASE, fi.node, f"{qual}: {m_}")
            if not hit:
                ctx.ok()
    for qual in (() if interp_ok else ("Element.reset_parameters", "Element.reset_parameter")):
        fi = model.fi(BASE, qual)
        steps = [Step("init", "", fi.node)]  # placeholder replaced below
        seq = sequence_of(fi.node, qual)
        nums = [s for s in seq if s.method in NUMERIC_SETTERS]
        if len(nums) < 3:
            raise AnalysisError(f"{qual}: fewer than three numeric setter calls recognised ({[s.method for s in seq]})")
        ctx.instance("R14.2", f"{qual}: " + " ; ".join(f"{s.method}({s.arg})" for s in nums) + f" × {len(ws_reset)} worlds")
        # start from the current state (v,l,u), not from a fresh instance
        fails = wrong = 0
        ff = fw = None
        for w in ws_reset:
            state = ("v", "l", "u")
            ok = True
            for st in nums:
                out = setters[st.method].apply(state, st.arg, w)
                transitions += 1
                if not out.ok:
                    ok = False
                    fails += 1
                    ff = ff or (w, st, out.exc)
                    break
                state = out.state
            if ok and not same(w, state, ("v0", "l0", "u0")):
                wrong += 1
                fw = fw or (w, state)
        if ff:
            w, st, exc = ff
            ctx.violation("R14.2", f"{qual}:refused", BASE, fi.node,
                          f"{qual} is refused in {fails} of {len(ws_reset)} reachable orderings; e.g. world [{fmt_world(w)}]: {st.method}({st.arg}) raises {exc}",
                          witness_world=fmt_world(w))
        elif fw:
            w, state = fw
            ctx.violation("R14.2", f"{qual}:wrong-state", BASE, fi.node,
                          f"{qual} ends in {state} instead of (v0,l0,u0) in {wrong} orderings; e.g. world [{fmt_world(w)}]")
        else:
            ctx.ok()
        if not any(s.method == "set_fixed" for s in seq):
            ctx.violation("R14.2", f"{qual}:fixed-not-reset", BASE, fi.node, f"{qual} does not reset the fixed flag")
        else:
            ctx.ok()

    # set_label as an operation of the same state machine: stores what it is given (or refuses), '' clears
    from .c16 import label_validation_rule
    label_validation_rule(ctx, model, "R14.1")
    # R14.2 key selection: every default getter used by reset_parameters addresses exactly the requested keys
    _reset_key_selection(ctx, model)

    # R14.3 copies -------------------------------------------------------------------
    ws_copy = worlds(["v", "l", "u", "v0", "l0", "u0"], SRC_OK + DEF_OK, with_inf=True)
    for qual in (() if interp_ok else ("Element.__copy__", "Container.__copy__", "Container.__deepcopy__")):
        fi = model.fi(BASE, qual)
        seq = sequence_of(fi.node, qual)
        if not seq or seq[0].method != "init":
            raise AnalysisError(f"{qual}: no construction of a fresh instance recognised")
        ctx.instance("R14.3", f"{qual}: " + " ; ".join(f"{s.method}({s.arg})" for s in seq) + f" × {len(ws_copy)} worlds")
        check_transfer(ctx, "R14.3", qual, BASE, fi.node, seq, setters, ws_copy, ("v", "l", "u"), f"{qual} of a valid element")
        from ..prov import dict_arg
        for need, argtxt in (("set_fixed", ("are_fixed", "_parameter_fixed")), ("set_label", ("_label", "get_label"))):
            hit = [s for s in seq if s.method == need]
            good = bool(hit)
            why = "no such call"
            if good and need == "set_fixed":
                c_ = hit[0].node
                das = [dict_arg(k.value, enclosing(c_, (ast.FunctionDef,)) or fi.node) for k in c_.keywords if k.arg is None]
                good = any(d is not None and any(t in d[0] for t in argtxt) and d[1] == "same" and not d[2] for d in das)
                why = f"passes {[norm(k.value)[:50] for k in c_.keywords if k.arg is None]} — every flag of the source (True and False) must be carried over unchanged"
            elif good:
                good = any(t in norm(hit[0].node) for t in argtxt)
                why = f"passes {norm(hit[0].node)[:60]}"
            if not good:
                ctx.violation("R14.3", f"{qual}:{need}-missing", BASE, fi.node, f"{qual} does not transfer the {need[4:]} state of the source completely ({why})")
            else:
                ctx.ok()
        if qual.startswith("Container"):
            init = seq[0].node
            txt = norm(init)
            dc = "__deepcopy__(memo)" if "deepcopy" in qual else "__copy__()"
            if "get_subcircuits" not in txt or dc not in txt:
                ctx.violation("R14.3", f"{qual}:subcircuits", BASE, fi.node, f"{qual} does not copy every sub-circuit with {dc}")
            else:
                ctx.ok()
    # __deepcopy__ of Element delegates to __copy__; memo discipline for all four
    for mod, qual in (((BASE, "Element.__deepcopy__"), (BASE, "Container.__deepcopy__")) if not interp_ok else ()) + ((BASE, "Connection.__deepcopy__"),
                      ("pyimpspec.circuit.circuit", "Circuit.__deepcopy__")):
        fi = model.fi(mod, qual)
        ctx.instance("R14.4", f"{qual} memo discipline")
        src = norm(fi.node)
        reads = "memo.get(" in src
        writes = any(isinstance(n, ast.Assign) and norm(n.targets[0]).startswith("memo[") for n in walk_ordered(fi.node))
        if reads and writes:
            ctx.ok()
        else:
            ctx.violation("R14.4", f"{qual}:memo", mod, fi.node, f"{qual} must consult memo before copying and record the copy in it")
    fi = model.fi(BASE, "Element.__deepcopy__")
    if interp_ok:
        pass
    elif ctx.instance("R14.3", "Element.__deepcopy__ delegates to __copy__") or any(isinstance(c.func, ast.Attribute) and c.func.attr == "__copy__" and dotted(c.func.value) == "self" for c in calls_in(fi.node)):
        ctx.ok()
    else:
        ctx.violation("R14.3", "Element.__deepcopy__:delegate", BASE, fi.node, "Element.__deepcopy__ no longer builds the copy with self.__copy__()")
    # Connection / Circuit copies recurse into every child with the matching method
    for mod, qual, inner in ((BASE, "Connection.__copy__", "__copy__"), (BASE, "Connection.__deepcopy__", "__deepcopy__"),
                             ("pyimpspec.circuit.circuit", "Circuit.__copy__", "__copy__"),
                             ("pyimpspec.circuit.circuit", "Circuit.__deepcopy__", "__deepcopy__")):
        fi = model.fi(mod, qual)
        ctx.instance("R14.3", f"{qual} recursion")
        cs = [c for c in calls_in(fi.node) if isinstance(c.func, ast.Attribute) and c.func.attr == inner]
        ctor = [c for c in calls_in(fi.node) if isinstance(c.func, ast.Call) and dotted(c.func.func) == "type"]
        if cs and ctor:
            ctx.ok()
        else:
            ctx.violation("R14.3", f"{qual}:recursion", mod, fi.node, f"{qual} must rebuild type(self)(...) from {inner} of its children")

    # R14.4 aliasing ---------------------------------------------------------------------
    _aliasing(ctx, model)

    # R14.5 reachable-state exploration ---------------------------------------------------
    free = ["a", "b"] if ctx.tier == "quick" else ["a", "b", "c"]
    ws5 = worlds(["v0", "l0", "u0"] + free, DEF_OK, with_inf=True)
    copy_seq: List[Step] = []
    ccopy_seq: List[Step] = []
    reset_seq: List[Step] = []
    if not interp_ok:
        copy_seq = sequence_of(model.fi(BASE, "Element.__copy__").node, "Element.__copy__")
        ccopy_seq = sequence_of(model.fi(BASE, "Container.__copy__").node, "Container.__copy__")
        reset_seq = [s for s in sequence_of(model.fi(BASE, "Element.reset_parameters").node, "reset") if s.method in NUMERIC_SETTERS]
    args = ["v0", "l0", "u0"] + free + [NINF, PINF]
    total_states = 0
    viol: Dict[str, Tuple] = {}
    for w in ws5:
        seen = {("v0", "l0", "u0")}
        # canonicalise states by ranks to merge symbol-equal states
        canon = {tuple(w[s] for s in ("v0", "l0", "u0"))}
        work = [("v0", "l0", "u0")]
        while work:
            st = work.pop()
            total_states += 1
            if not w[st[1]] < w[st[2]] and "inv" not in viol:
                viol["inv"] = (w, st)
            # copy must succeed wherever l<=v<=u
            if w[st[1]] <= w[st[0]] <= w[st[2]] and not interp_ok:
                for nm, seq in (("Element.__copy__", copy_seq), ("Container.__copy__", ccopy_seq)):
                    w2 = dict(w)
                    w2["v"], w2["l"], w2["u"] = w[st[0]], w[st[1]], w[st[2]]
                    ok, fin, at, exc = run_sequence(seq, setters, w2)
                    transitions += len(seq)
                    if (not ok or not same(w2, fin, ("v", "l", "u"))) and nm not in viol:
                        viol[nm] = (w2, st, at, exc)
            # reset
            s2 = st
            okr = True
            for stp in reset_seq:
                o = setters[stp.method].apply(s2, stp.arg, w)
                transitions += 1
                if not o.ok:
                    okr = False
                    break
                s2 = o.state
            if (not okr or not same(w, s2, ("v0", "l0", "u0"))) and "reset" not in viol and not interp_ok:
                viol["reset"] = (w, st)
            for m, S in setters.items():
                for x in args:
                    o = S.apply(st, x, w)
                    transitions += 1
                    if o.ok:
                        key = tuple(w[s] for s in o.state)
                        if key not in canon:
                            canon.add(key)
                            work.append(o.state)
    ctx.instance("R14.5", f"{len(ws5)} worlds over defaults+{free}+±inf; {total_states} reachable abstract states")
    known_elsewhere = {"Element.__copy__": "R14.3", "Container.__copy__": "R14.3", "reset": "R14.2"}
    if "inv" in viol:
        w, st = viol["inv"]
        ctx.violation("R14.5", "reachable:l<u", BASE, model.fi(BASE, "Element.set_lower_limits").node,
                      f"a state with lower >= upper is reachable: (v,l,u)={st} in world [{fmt_world(w)}]")
    else:
        ctx.ok()
    for k, rid in known_elsewhere.items():
        if k in viol:
            # already reported (same construct) by the single-sequence rule; keep one finding per construct
            ctx.note(f"R14.5 exploration also reaches a failing state for {k} (reported under {rid})")
    ctx.extra_cov.update({
        "states": total_states + len(ws1) * 3 + len(ws_reset) + len(ws_copy),
        "transitions": transitions + ctx.extra_cov.get("transitions", 0),
        "traces_validated_against_impl": 0,
        "worlds": {"single_ops": len(ws1), "reset": len(ws_reset), "copy": len(ws_copy), "exploration": len(ws5)},
        "exhaustive": True,
    })
    ctx.sample({"world": fmt_world(ws_copy[len(ws_copy) // 2]), "sequence": [f"{s.method}({s.arg})" for s in copy_seq]})
    ctx.sample({"world": fmt_world(ws1[7]), "op": "set_lower_limits(x)",
                "outcome": str(setters["set_lower_limits"].apply(("v", "l", "u"), "x", ws1[7]))})


def _aliasing(ctx: Ctx, model) -> None:
    """R14.4: dictionaries are never handed out or stored without a copy."""
    inst_dicts = {"_parameter_value", "_parameter_lower_limit", "_parameter_upper_limit", "_parameter_fixed", "_subcircuit_value"}
    class_dicts = {"_parameter_unit", "_parameter_description", "_parameter_default_value", "_parameter_default_lower_limit",
                   "_parameter_default_upper_limit", "_parameter_default_fixed", "_subcircuit_unit", "_subcircuit_description",
                   "_subcircuit_default_value"}
    n_sites = 0
    for cname in ("Element", "Container"):
        ci = model.classes[f"{BASE}:{cname}"]
        for mname, fi in ci.methods.items():
            for n in walk_ordered(fi.node):
                # returns of a bare dictionary attribute
                if isinstance(n, ast.Return) and isinstance(n.value, ast.Attribute) and n.value.attr in inst_dicts | class_dicts \
                        and dotted(n.value.value) in ("self", "cls"):
                    n_sites += 1
                    ctx.violation("R14.4", f"{cname}.{mname}:returns-{n.value.attr}", BASE, n,
                                  f"{cname}.{mname} returns the internal dictionary {n.value.attr} itself (callers could mutate shared state)")
                elif isinstance(n, ast.Return) and isinstance(n.value, ast.Call) and isinstance(n.value.func, ast.Attribute) \
                        and n.value.func.attr == "copy" and isinstance(n.value.func.value, ast.Attribute) \
                        and n.value.func.value.attr in inst_dicts | class_dicts:
                    n_sites += 1
                    ctx.instance("R14.4", f"{cname}.{mname} returns {n.value.func.value.attr}.copy()")
                    ctx.ok()
                # instance attribute bound to a class-level dictionary without copy
                if isinstance(n, (ast.Assign, ast.AnnAssign)):
                    t = n.targets[0] if isinstance(n, ast.Assign) else n.target
                    v = n.value
                    if isinstance(t, ast.Attribute) and dotted(t.value) == "self" and isinstance(v, ast.Attribute) \
                            and v.attr in class_dicts and dotted(v.value) in ("self", "cls"):
                        n_sites += 1
                        ctx.violation("R14.4", f"{cname}.{mname}:aliases-{v.attr}", BASE, n,
                                      f"{cname}.{mname} binds an instance attribute to the class-level dictionary {v.attr} without copying")
                # writers of class-level defaults
                tgt = None
                if isinstance(n, ast.Assign):
                    tgt = n.targets[0]
                elif isinstance(n, ast.AugAssign):
                    tgt = n.target
                if isinstance(tgt, ast.Subscript) and isinstance(tgt.value, ast.Attribute) and tgt.value.attr in class_dicts:
                    n_sites += 1
                    if mname == "set_default_values" and tgt.value.attr == "_parameter_default_value":
                        ctx.instance("R14.4", "set_default_values writes _parameter_default_value (the designated writer)")
                        ctx.ok()
                    else:
                        ctx.violation("R14.4", f"{cname}.{mname}:writes-{tgt.value.attr}", BASE, n,
                                      f"{cname}.{mname} writes the class-level dictionary {tgt.value.attr}; only set_default_values and the registry may")
                if isinstance(n, ast.Call) and isinstance(n.func, ast.Attribute) and n.func.attr in ("update", "clear", "pop", "setdefault", "popitem") \
                        and isinstance(n.func.value, ast.Attribute) and n.func.value.attr in class_dicts:
                    n_sites += 1
                    ctx.violation("R14.4", f"{cname}.{mname}:mutates-{n.func.value.attr}", BASE, n,
                                  f"{cname}.{mname} mutates the class-level dictionary {n.func.value.attr}")
    # Container.__init__ deep-copies default sub-circuits
    fi = model.fi(BASE, "Container.__init__")
    ctx.instance("R14.4", "Container.__init__ deep-copies default sub-circuits")
    ok = False
    for n in walk_ordered(fi.node):
        if isinstance(n, ast.Assign) and norm(n.targets[0]) == "self._subcircuit_value[key]":
            v = n.value
            if isinstance(v, ast.IfExp) and "deepcopy(value)" in norm(v.body) and "is not None" in norm(v.test):
                ok = True
            elif isinstance(v, ast.Call) and dotted(v.func) == "deepcopy":
                ok = True
    if ok:
        ctx.ok()
    else:
        ctx.violation("R14.4", "Container.__init__:default-subcircuit-alias", BASE, fi.node,
                      "Container.__init__ does not deep-copy the class-level default sub-circuits: instances would share them")
    # writers outside base.py: only the registry
    for mname, mod in ctx.repo.modules.items():
        if mname in (BASE,):
            continue
        for n in walk_ordered(mod.tree, into_functions=True):
            tgt = None
            if isinstance(n, ast.Assign):
                tgt = n.targets[0]
            elif isinstance(n, ast.AugAssign):
                tgt = n.target
            if tgt is None:
                continue
            base = tgt.value if isinstance(tgt, ast.Subscript) else tgt
            if isinstance(base, ast.Attribute) and base.attr in class_dicts:
                n_sites += 1
                if mname == "pyimpspec.circuit.registry":
                    ctx.instance("R14.4", f"registry writes {base.attr}")
                    ctx.ok()
                else:
                    ctx.violation("R14.4", f"{mname}:writes-{base.attr}", mname, n,
                                  f"{mname} writes the class-level dictionary {base.attr}")
    if n_sites < 20:
        raise AnalysisError(f"R14.4: only {n_sites} dictionary sites found (floor 20)")


def _reset_key_selection(ctx: Ctx, model) -> None:
    """Abstract interpretation over the four worlds (positional keys empty/non-empty) × (keyword keys
    empty/non-empty): the set of keys each default getter is asked for must be args ∪ kwargs.keys()."""
    fi = model.fi(BASE, "Element.reset_parameters")
    a = fi.node.args
    if a.vararg is None or a.kwarg is None:
        raise AnalysisError("Element.reset_parameters: expected (*args, **kwargs)")
    va, kw = a.vararg.arg, a.kwarg.arg
    binds: Dict[str, ast.AST] = {}
    for n in walk_ordered(fi.node):
        if isinstance(n, (ast.Assign, ast.AnnAssign)) and n.value is not None:
            t = n.targets[0] if isinstance(n, ast.Assign) else n.target
            if isinstance(t, ast.Name):
                binds[t.id] = n.value

    def ev(e: ast.AST, A: frozenset, K: frozenset, depth: int = 0):
        if depth > 6:
            raise AnalysisError("reset_parameters: key expression too deep")
        if isinstance(e, ast.Name):
            if e.id == va:
                return A
            if e.id == kw:
                return K
            if e.id in binds:
                return ev(binds[e.id], A, K, depth + 1)
            raise AnalysisError(f"reset_parameters: name {e.id} in a key expression is not understood")
        if isinstance(e, ast.Call):
            f = e.func
            if isinstance(f, ast.Attribute) and f.attr == "keys" and not e.args:
                return ev(f.value, A, K, depth + 1)
            if isinstance(f, ast.Name) and f.id in ("tuple", "list", "set", "sorted", "frozenset") and len(e.args) == 1:
                return ev(e.args[0], A, K, depth + 1)
            if isinstance(f, ast.Attribute) and isinstance(f.value, ast.Name) and f.value.id == "self" and (f.attr.startswith("get_default_") or f.attr == "are_fixed_by_default"):
                return requested(e, A, K, depth + 1)  # a dict of defaults: its keys are the requested keys
            raise AnalysisError(f"reset_parameters: call {norm(e)[:60]} in a key expression is not understood")
        if isinstance(e, ast.BoolOp) and isinstance(e.op, ast.Or):
            for v in e.values:
                r = ev(v, A, K, depth + 1)
                if r:
                    return r
            return frozenset()
        if isinstance(e, ast.BinOp) and isinstance(e.op, (ast.Add, ast.BitOr)):
            return ev(e.left, A, K, depth + 1) | ev(e.right, A, K, depth + 1)
        if isinstance(e, (ast.Tuple, ast.List, ast.Set)):
            out = frozenset()
            for x in e.elts:
                out |= ev(x.value, A, K, depth + 1) if isinstance(x, ast.Starred) else frozenset({norm(x)})
            return out
        if isinstance(e, ast.Dict):
            out = frozenset()
            for k_, v_ in zip(e.keys, e.values):
                out |= ev(v_, A, K, depth + 1) if k_ is None else frozenset({norm(k_)})
            return out
        if isinstance(e, (ast.DictComp, ast.ListComp, ast.SetComp, ast.GeneratorExp)) and len(e.generators) == 1 and not e.generators[0].ifs:
            return ev(e.generators[0].iter, A, K, depth + 1)
        raise AnalysisError(f"reset_parameters: key expression {norm(e)[:60]} is not understood")

    ALL = frozenset({"<all keys>"})

    def requested(call: ast.Call, A, K, depth: int = 0):
        pos = frozenset()
        kws = frozenset()
        for x in call.args:
            pos |= ev(x.value, A, K, depth) if isinstance(x, ast.Starred) else frozenset({norm(x)})
        for k_ in call.keywords:
            kws |= ev(k_.value, A, K, depth) if k_.arg is None else frozenset({k_.arg})
        r = pos | kws
        return r if r else ALL

    getters = [c for c in calls_in(fi.node) if isinstance(c.func, ast.Attribute) and dotted(c.func.value) == "self"
               and (c.func.attr.startswith("get_default_") or c.func.attr == "are_fixed_by_default")]
    if len(getters) < 4:
        raise AnalysisError(f"Element.reset_parameters: only {len(getters)} default getters found (floor 4)")
    for c in getters:
        ctx.instance("R14.2", f"reset_parameters: {norm(c)[:60]} addresses args ∪ kwargs")
        bad = None
        for A in (frozenset(), frozenset({"a"})):
            for K in (frozenset(), frozenset({"k"})):
                want = (A | K) or ALL
                got = requested(c, A, K)
                if got != want:
                    bad = bad or (A, K, got, want)
        if bad:
            A, K, got, want = bad
            ctx.violation("R14.2", f"Element.reset_parameters:key-selection:{c.func.attr}", BASE, c,
                          f"with positional keys {sorted(A)} and keyword keys {sorted(K)}, {c.func.attr} is asked for {sorted(got)} instead of {sorted(want)}: "
                          f"some requested parameters are not reset")
        else:
            ctx.ok()
