"""C15 — the element registry and class defaults can always be restored."""
from __future__ import annotations

import ast
import string
from typing import Dict, List, Optional, Set, Tuple

from ..cfg import CFG, always_exits, dominating_conditions, flatten_conditions
from ..core import AnalysisError, Ctx, calls_in, dotted, enclosing, enclosing_function_name, norm, parent, walk_ordered
from ..elements import fold_const, module_consts, registered_elements
from ..model import get_model

LEVEL = "other"
REG = "pyimpspec.circuit.registry"
TOK = "pyimpspec.circuit.tokenizer"
PARSER = "pyimpspec.circuit.parser"
GLOBALS: Set[str] = {"_ELEMENTS", "_DEFAULT_ELEMENTS", "_PRIVATE_ELEMENTS", "_DEFAULT_ELEMENT_PARAMETERS"}
STRING_NAMES = {"ascii_uppercase": string.ascii_uppercase, "ascii_lowercase": string.ascii_lowercase, "digits": string.digits,
                "ascii_letters": string.ascii_letters, "whitespace": string.whitespace}


def _discover_globals(mod) -> Set[str]:
    """Module-level mutable state of registry.py: names bound at module level to a container
    display/constructor or None, or declared `global` in some function."""
    out: Set[str] = set()
    for n in mod.tree.body:
        tgt = val = None
        if isinstance(n, ast.Assign) and isinstance(n.targets[0], ast.Name):
            tgt, val = n.targets[0].id, n.value
        elif isinstance(n, ast.AnnAssign) and isinstance(n.target, ast.Name) and n.value is not None:
            tgt, val = n.target.id, n.value
        if tgt and (isinstance(val, (ast.Dict, ast.List, ast.Set)) or (isinstance(val, ast.Constant) and val.value is None)
                    or (isinstance(val, ast.Call) and dotted(val.func) in ("dict", "list", "set", "OrderedDict", "defaultdict"))):
            out.add(tgt)
    for n in walk_ordered(mod.tree, into_functions=True):
        if isinstance(n, ast.Global):
            out.update(x for x in n.names if x != "_VALIDATE_IMPEDANCES")
    return out


def _transitive_writes(model, fi, depth: int = 3, _seen=None) -> Dict[str, List[Tuple[ast.AST, str]]]:
    """Global writes of fi and of the registry-module functions it calls."""
    _seen = _seen if _seen is not None else set()
    if fi.qname in _seen or depth < 0:
        return {}
    _seen.add(fi.qname)
    out = {k: list(v) for k, v in _global_writes(fi.node).items()}
    for c in calls_in(fi.node):
        q = model.resolve_call(fi, c)
        if q and q in model.funcs and model.funcs[q].module == REG:
            for k, v in _transitive_writes(model, model.funcs[q], depth - 1, _seen).items():
                out.setdefault(k, []).extend((c, f"{kind} via {q.split(':')[1]}") for _, kind in v)
    return out


def _global_writes(fn: ast.AST) -> Dict[str, List[Tuple[ast.AST, str]]]:
    out: Dict[str, List[Tuple[ast.AST, str]]] = {}
    for n in walk_ordered(fn):
        if isinstance(n, ast.Assign):
            for t in n.targets:
                base = t.value if isinstance(t, ast.Subscript) else t
                if isinstance(base, ast.Name) and base.id in GLOBALS:
                    out.setdefault(base.id, []).append((n, "store" if isinstance(t, ast.Subscript) else "rebind"))
        elif isinstance(n, ast.Delete):
            for t in n.targets:
                if isinstance(t, ast.Subscript) and isinstance(t.value, ast.Name) and t.value.id in GLOBALS:
                    out.setdefault(t.value.id, []).append((n, "del"))
        elif isinstance(n, ast.Call) and isinstance(n.func, ast.Attribute) and isinstance(n.func.value, ast.Name) \
                and n.func.value.id in GLOBALS and n.func.attr in ("clear", "update", "pop", "popitem", "setdefault"):
            out.setdefault(n.func.value.id, []).append((n, n.func.attr))
    return out


def _complete_defaults(text: str) -> bool:
    t = text.replace(" ", "")
    if "_DEFAULT_ELEMENTS" in t and "get_elements(" not in t:
        return True
    if "get_elements(" in t and "default_only=True" in t and "private=True" in t:
        return True
    return False


def _remove_elements_semantics(ctx: Ctx, model, rm) -> bool:
    """remove_elements interpreted (sa.miniinterp) on a registry of stand-in classes: two built-ins (one private), two
    registered user classes (one private) and unregistered user classes that carry the symbol of a built-in, of a registered
    user class, or a free one (a class whose registration was refused still carries the symbol it asked for)."""
    from ..miniinterp import InterpRaise, Mini, module_globals

    class El:
        _symbol = ""

        @classmethod
        def get_symbol(cls):
            return cls._symbol

    def mk(name, sym):
        return type(name, (El,), {"_symbol": sym})
    if any(isinstance(x, ast.Global) for x in ast.walk(rm.node)):
        ctx.note("remove_elements rebinds a module-level name (global statement): decided from its shape instead of by interpretation")
        return False
    Rb, Kb, Ua, Up = mk("BuiltinR", "R"), mk("BuiltinK", "K"), mk("UserU", "U"), mk("UserP", "P")
    strays = [mk("RefusedR", "R"), mk("RefusedU", "U"), mk("RefusedK", "K"), mk("NeverRegistered", "Zz")]
    inputs = [Ua, Up, Rb, Kb] + strays + [[Ua, Up], [Ua, Rb], [Kb, Up], [strays[0], Ua], [strays[1]], [Up, strays[2]]]
    problems: List[str] = []
    n = 0
    for arg in inputs:
        n += 1
        defaults = {"R": Rb, "K": Kb}
        reg = {"R": Rb, "K": Kb, "U": Ua, "P": Up}
        priv = {"K": Kb, "P": Up}
        st = {"_DEFAULT_ELEMENTS": defaults, "_ELEMENTS": reg, "_PRIVATE_ELEMENTS": priv, "Element": El,
              "_is_boolean": lambda x: isinstance(x, bool), "_is_integer": lambda x: isinstance(x, int) and not isinstance(x, bool), "_is_string": lambda x: isinstance(x, str)}
        g = module_globals(ctx.repo.modules[REG].tree, st)
        g.update(st)
        lst = arg if isinstance(arg, list) else [arg]
        refuse = any(c in (Rb, Kb) for c in lst)
        want_reg = dict(reg) if refuse else {k: v for k, v in reg.items() if v not in lst}
        want_priv = dict(priv) if refuse else {k: v for k, v in priv.items() if v not in lst}
        try:
            Mini(g, max_steps=100000).call_function(rm.node, {rm.node.args.args[0].arg: (list(arg) if isinstance(arg, list) else arg)})
            raised = None
        except InterpRaise as e:
            raised = e.kind
        names = [c.__name__ for c in lst]
        if refuse and raised is None:
            problems.append(f"remove_elements({names}) does not refuse the built-in")
        elif not refuse and raised is not None:
            problems.append(f"remove_elements({names}) raises {raised}")
        if reg != want_reg or priv != want_priv or defaults != {"R": Rb, "K": Kb}:
            problems.append(f"after remove_elements({names}) the registry holds {sorted(reg)} (private {sorted(priv)}) instead of {sorted(want_reg)} (private {sorted(want_priv)})"
                            + (": only the entries that hold the given classes may go — a class whose registration was refused carries the symbol of the element that won" if not refuse else ": a refused call must remove nothing"))
    ctx.instance("R15.2", f"remove_elements interpreted on {n} arguments over a registry with public/private built-ins, user classes and unregistered classes carrying taken symbols")
    if problems:
        ctx.violation("R15.2", "remove_elements:semantics", REG, rm.node, problems[0] + (f" (+{len(problems) - 1} more)" if len(problems) > 1 else ""))
    else:
        ctx.ok()
    return True


def _validate_impedances_semantics(ctx: Ctx, vi) -> Optional[List[str]]:
    """_validate_impedances interpreted (sa.miniinterp) on stand-ins: the class is a recorder whose instance hands out a
    tagged response and a tagged expression; `allclose` answers from the scenario (real parts close or not, imaginary parts
    close or not: four scenarios).  Demanded: the instance is built at its default values, the expression is the
    substituted one, it is evaluated at the frequencies the response was asked for, each comparison pairs the same part of
    the two sides, and the call raises exactly when a part differs.  Returns the problems, or None when the function is
    outside the interpreter's subset (the caller then reads its shape)."""
    from ..miniinterp import InterpRaise, Mini, module_globals
    problems: List[str] = []

    class Part:
        def __init__(self, side, part):
            self.side, self.part = side, part

    class Arr:
        def __init__(self, side, items=None):
            self.side, self.items = side, items
            self.real, self.imag = Part(side, "real"), Part(side, "imag")

        def __iter__(self):
            return iter(self.items)

        def __len__(self):
            return len(self.items)

    for real_close in (True, False):
        for imag_close in (True, False):
            log = {"ctor": [], "substitute": [], "f": None, "compared": []}

            class Expr_:
                def subs(self, name, value=None):
                    if isinstance(name, dict):
                        (name, value), = name.items()
                    if str(name) != "f":
                        problems.append(f"the expression is evaluated by substituting {name!r}, not the frequency")
                    return complex(float(value), 1.0)

            class El_:
                def to_sympy(self, substitute=False):
                    log["substitute"].append(substitute)
                    return Expr_()

                def get_impedances(self, f):
                    log["f"] = list(f.items) if isinstance(f, Arr) else list(f)
                    return Arr("func")

            def Class(*a, **k):
                log["ctor"].append((a, k))
                return El_()

            def array(x, dtype=None):
                items = list(x.items) if isinstance(x, Arr) else list(x)
                if items and all(isinstance(v, complex) for v in items):
                    side = "sympy" if log["f"] is not None and items == [complex(float(v), 1.0) for v in log["f"]] else "other"
                    if side == "other" and log["f"] is None:
                        side = ("sympy-pending", items)
                    return Arr(side, items)
                return Arr("freq", items)

            def allclose(a, b, *rest, **kw):
                for x in (a, b):
                    if isinstance(x, Part) and isinstance(x.side, tuple):  # expression evaluated before the response was asked for
                        x.side = "sympy" if log["f"] is not None and x.side[1] == [complex(float(v), 1.0) for v in log["f"]] else "other"
                if not (isinstance(a, Part) and isinstance(b, Part)) or {a.side, b.side} != {"func", "sympy"} or a.part != b.part:
                    d = lambda x: f"{x.side}.{x.part}" if isinstance(x, Part) else type(x).__name__
                    problems.append(f"a comparison pairs {d(a)} with {d(b)}")
                    return True
                log["compared"].append(a.part)
                return real_close if a.part == "real" else imag_close

            st = {"array": array, "allclose": allclose, "Frequency": float, "ComplexImpedance": complex}
            g = module_globals(ctx.repo.modules[REG].tree, st)
            g.update(st)
            try:
                Mini(g, max_steps=100000).call_function(vi.node, {vi.node.args.args[0].arg: Class})
                raised = None
            except InterpRaise as e:
                raised = e.kind
            except AnalysisError:
                return None
            sc = f"real parts {'equal' if real_close else 'differ'}, imaginary parts {'equal' if imag_close else 'differ'}"
            if log["ctor"] != [((), {})]:
                problems.append("the element is not built once at its default values (Class())")
            if log["substitute"] != [True]:
                problems.append("the expression is not to_sympy(substitute=True)")
            if raised is None and not (real_close and imag_close):
                problems.append(f"{sc}: no refusal")
            if raised is not None and real_close and imag_close:
                problems.append(f"{sc}: raises {raised}")
            if raised is None and set(log["compared"]) != {"real", "imag"}:
                problems.append(f"{sc}: only {sorted(set(log['compared']))} compared")
    return problems


def _reset_defaults_semantics(ctx: Ctx, rdp) -> Optional[List[str]]:
    """reset_default_parameter_values interpreted (sa.miniinterp) on a stand-in registry: two built-in classes (one
    private) with distinct snapshots and one user class.  Demanded: every selected built-in receives exactly its own
    import-time snapshot through set_default_values, no other class is written.  None when outside the interpreter's subset."""
    from ..miniinterp import InterpRaise, Mini, module_globals
    problems: List[str] = []

    class El:
        _symbol = ""
        _log: List[dict] = []

        @classmethod
        def get_symbol(cls):
            return cls._symbol

        @classmethod
        def set_default_values(cls, *a, **kw):
            cls._log.append(dict(*a, **kw))

    def mk(name, sym):
        return type(name, (El,), {"_symbol": sym, "_log": []})
    for pick in ("all", "R", "K", "[R]", "[K]", "[R,K]", "[K,R]", "U", "[U,K]"):
        Rb, Kb, Ua = mk("BuiltinR", "R"), mk("BuiltinK", "K"), mk("UserU", "U")
        byname = {"R": Rb, "K": Kb, "U": Ua}
        snapshot = {"R": {"R": 1.0}, "K": {"tau": 2.0, "R": 3.0}}
        arg = None if pick == "all" else ([byname[x] for x in pick.strip("[]").split(",")] if pick.startswith("[") else byname[pick])
        chosen = [Rb, Kb] if arg is None else (arg if isinstance(arg, list) else [arg])
        st = {"_DEFAULT_ELEMENTS": {"R": Rb, "K": Kb}, "_ELEMENTS": {"R": Rb, "K": Kb, "U": Ua}, "_PRIVATE_ELEMENTS": {"K": Kb},
              "_DEFAULT_ELEMENT_PARAMETERS": {k: dict(v) for k, v in snapshot.items()}, "Element": El,
              "_is_boolean": lambda x: isinstance(x, bool), "_is_integer": lambda x: isinstance(x, int) and not isinstance(x, bool), "_is_string": lambda x: isinstance(x, str)}
        g = module_globals(ctx.repo.modules[REG].tree, st)
        g.update(st)
        try:
            Mini(g, max_steps=100000).call_function(rdp.node, {rdp.node.args.args[0].arg: (list(arg) if isinstance(arg, list) else arg)})
        except InterpRaise as e:
            problems.append(f"reset_default_parameter_values({pick}) raises {e.kind}")
            continue
        except AnalysisError:
            return None
        for sym, cls in byname.items():
            want = [snapshot[sym]] if (cls in chosen and sym in snapshot) else []
            got = cls._log
            if (want and (not got or any(x != want[0] for x in got))) or (not want and got):
                problems.append(f"reset_default_parameter_values({pick}): {cls.__name__} receives {got} instead of {want}")
        if st["_DEFAULT_ELEMENT_PARAMETERS"] != snapshot:
            problems.append(f"reset_default_parameter_values({pick}) changes the import-time snapshot")
    return problems


def check(ctx: Ctx) -> None:
    model = get_model(ctx.repo)
    ctx.modules_consulted.update({REG, TOK, PARSER, "pyimpspec.circuit.elements", "pyimpspec.circuit.base"})
    ctx.rule("R15.1", "write set ⊆ restore set: every registry global mutated by register_element is restored by reset(); class defaults written by set_default_values are restored from the import-time snapshot")
    ctx.rule("R15.2", "built-ins protected: registry store dominated by the duplicate-symbol refusal; removal dominated by the default-element refusal; reset rebuilds from _DEFAULT_ELEMENTS; _initialized() runs last, after every element module")
    ctx.rule("R15.3", "validation before admission: every path to the registry store passes through _initialize_element → symbol validation and _validate_impedances under the flag _initialized() sets")
    ctx.rule("R15.4", "no stale snapshot: _ELEMENTS is read only inside registry.py; get_elements() is never called at import time; the parser takes its table per instance")
    ctx.rule("R15.5", "symbol alphabet: tokenizer's element-identifier alphabet ⊇ the registry's, contains no upper-case continuation (longest symbol wins)")

    reg = model.fi(REG, "register_element")
    rst = model.fi(REG, "reset")
    rm = model.fi(REG, "remove_elements")
    ini = model.fi(REG, "_initialized")

    # ---------------- R15.1 ------------------------------------------------------------
    GLOBALS.update(_discover_globals(ctx.repo.module(REG)))
    ctx.extra_cov["registry_globals"] = sorted(GLOBALS)
    w_reg = _transitive_writes(model, reg)
    w_rst = _transitive_writes(model, rst)
    if "_ELEMENTS" not in w_reg:
        raise AnalysisError("register_element: store into _ELEMENTS not found")
    for g, sites in w_reg.items():
        ctx.instance("R15.1", f"register_element writes {g}")
        if g not in w_rst:
            ctx.violation("R15.1", f"reset:does-not-restore:{g}", REG, rst.node,
                          f"register_element mutates {g} but reset() never touches it: entries of removed user-defined elements survive a reset")
            continue
        kinds = [k.split(" via ")[0] for _, k in w_rst[g]]
        if g not in ("_ELEMENTS", "_PRIVATE_ELEMENTS"):
            # derived state (e.g. a cache): any invalidation (clear / rebind) restores it
            if any(k in ("clear", "rebind") for k in kinds):
                ctx.ok()
            else:
                ctx.violation("R15.1", f"reset:does-not-restore:{g}", REG, rst.node,
                              f"register_element changes {g} but reset() neither clears nor rebinds it")
            continue
        if g == "_ELEMENTS":
            good = ("clear" in kinds and any(k.startswith("update") and isinstance(n, ast.Call) and n.args and norm(n.args[0]) == "_DEFAULT_ELEMENTS" for n, k in w_rst[g])) \
                or any(k == "rebind" and "_DEFAULT_ELEMENTS" in norm(n.value) for n, k in w_rst[g] if isinstance(n, ast.Assign))
        else:
            good = False
            for n, k in w_rst[g]:
                if k in ("del", "pop"):
                    conds = [norm(c) if pol else f"not ({norm(c)})" for c, pol in flatten_conditions(dominating_conditions(n))]
                    # the selection may be made by the loop's iterable: for key in [k for k in G if k not in _DEFAULT_ELEMENTS]
                    lp_ = enclosing(n, (ast.For,))
                    if lp_ is not None and isinstance(lp_.iter, (ast.ListComp, ast.GeneratorExp, ast.SetComp)):
                        conds += [norm(c) for g_ in lp_.iter.generators for c in g_.ifs]
                    elif lp_ is not None and isinstance(lp_.iter, ast.Call) and lp_.iter.args and isinstance(lp_.iter.args[0], (ast.ListComp, ast.GeneratorExp)):
                        conds += [norm(c) for g_ in lp_.iter.args[0].generators for c in g_.ifs]
                    if any("_DEFAULT_ELEMENTS" in c for c in conds):
                        good = True
                if k == "rebind" and "_DEFAULT_ELEMENTS" in norm(n.value):
                    good = True
                if k == "clear":
                    # clearing is only right if the defaults are re-added
                    good = any(k2 == "update" for _, k2 in w_rst[g])
        if good:
            ctx.ok()
        else:
            raise AnalysisError(f"reset(): the way {g} is restored is not a recognised idiom ({kinds})")
    # the restore of _ELEMENTS happens under `if elements:` only
    ctx.instance("R15.1", "class defaults: set_default_values write set vs reset_default_parameter_values")
    sdv = model.fi("pyimpspec.circuit.base", "Element.set_default_values")
    written = {norm(t.value.attr if isinstance(t.value, ast.Attribute) else t.value) for n in walk_ordered(sdv.node) if isinstance(n, ast.Assign)
               for t in n.targets if isinstance(t, ast.Subscript) and isinstance(t.value, ast.Attribute) and dotted(t.value.value) == "cls"}
    rdp = model.fi(REG, "reset_default_parameter_values")
    snap = [n for n in walk_ordered(ini.node) if isinstance(n, ast.Assign) and norm(n.targets[0]).startswith("_DEFAULT_ELEMENT_PARAMETERS[")]
    restores = [c for c in calls_in(rdp.node) if isinstance(c.func, ast.Attribute) and c.func.attr == "set_default_values"
                and any(k.arg is None and "_DEFAULT_ELEMENT_PARAMETERS[" in norm(k.value) for k in c.keywords)]
    sem_rd = _reset_defaults_semantics(ctx, rdp)
    if sem_rd is not None:
        # the restore side decided by interpretation (9 selections over a stand-in registry); the write set and the snapshot by shape
        restores = not sem_rd
    if sem_rd:
        ctx.note("reset_default_parameter_values interpreted: " + sem_rd[0] + (f" (+{len(sem_rd) - 1} more)" if len(sem_rd) > 1 else ""))
    if written == {"_parameter_default_value"} and snap and "get_default_values()" in norm(snap[0].value) and restores \
            and any(dotted(c.func) == "reset_default_parameter_values" for c in calls_in(rst.node)):
        ctx.ok()
    else:
        ctx.violation("R15.1", "defaults:restore", REG, rdp.node,
                      f"class-level defaults written by set_default_values ({sorted(written)}) are not all snapshotted by _initialized() and restored by reset()")
    ctx.instance("R15.1", "snapshot is a copy")
    if snap and (norm(snap[0].value).endswith(".copy()") or "get_default_values()" in norm(snap[0].value)):
        ctx.ok()
    else:
        ctx.violation("R15.1", "defaults:snapshot-alias", REG, ini.node, "the import-time snapshot aliases the live default dictionary")

    # ---------------- R15.2 ------------------------------------------------------------
    ctx.instance("R15.2", "registry store dominated by the duplicate-symbol refusal")
    store = [n for n, k in w_reg["_ELEMENTS"] if k == "store"]
    if len(store) != 1:
        raise AnalysisError("register_element: expected exactly one store into _ELEMENTS")
    conds = flatten_conditions(dominating_conditions(store[0]))
    texts = [(norm(c), pol) for c, pol in conds]
    dup = any(("symbol not in _ELEMENTS" in t and pol) or ("symbol in _ELEMENTS" in t and not pol) for t, pol in texts) or \
        any("symbol not in _ELEMENTS or _ELEMENTS[symbol] == Class" in t for t, pol in texts) or \
        any(t.startswith("symbol not in _ELEMENTS") or "_ELEMENTS[symbol] == Class" in t or "_ELEMENTS[symbol] is Class" in t for t, pol in texts)
    if dup:
        ctx.ok()
    else:
        ctx.violation("R15.2", "register_element:duplicate-guard", REG, store[0],
                      "the store _ELEMENTS[symbol] = Class is not dominated by the refusal of an already registered symbol: built-ins can be shadowed")
    if not _remove_elements_semantics(ctx, model, rm):
        ctx.instance("R15.2", "removal dominated by the default-element refusal")
        w_rm = _global_writes(rm.node)
        pops = [n for n, k in w_rm.get("_ELEMENTS", []) if k in ("pop", "del")]
        if not pops:
            raise AnalysisError("remove_elements: removal from _ELEMENTS not found")
        cfg = CFG(rm.node)
        refusal_ok = True
        for pnode in pops:
            st = pnode
            while not isinstance(st, ast.stmt):
                st = parent(st)
            target = cfg.node_of(st).id

            def is_refusal(nd) -> bool:
                a = nd.ast
                return isinstance(a, ast.For) and any(
                    isinstance(x, ast.If) and ("default_elements" in norm(x.test) or "_DEFAULT_ELEMENTS" in norm(x.test)) and always_exits(x.body)
                    for x in a.body)
            if not cfg.must_pass(target, is_refusal):
                refusal_ok = False
        # the refusal loop must cover every element before anything is removed
        if refusal_ok:
            ctx.ok()
        else:
            ctx.violation("R15.2", "remove_elements:default-guard", REG, pops[0],
                          "an element can be popped from _ELEMENTS without first passing the refusal of default elements: built-ins can be removed")
        ctx.instance("R15.2", "the refusal in remove_elements protects ALL built-ins (public and private)")
        from ..prov import Resolver
        Rm = Resolver(rm.node)
        prot = None
        for x in walk_ordered(rm.node):
            if isinstance(x, ast.If) and always_exits(x.body) and isinstance(x.test, ast.Compare) and isinstance(x.test.ops[0], ast.In) \
                    and isinstance(parent(x), ast.For):
                prot = Rm.text(x.test.comparators[0], x)
        if prot is None:
            if refusal_ok:
                raise AnalysisError("remove_elements: refusal test `element in <protected set>` not found")
            ctx.note("remove_elements: no refusal of built-ins found (reported as R15.2 default-guard)")
        elif _complete_defaults(prot):
            ctx.ok()
        else:
            ctx.violation("R15.2", "remove_elements:protected-set", REG, rm.node,
                          f"the set of protected built-ins is {prot[:70]}, which is not all of _DEFAULT_ELEMENTS (private built-ins such as K/Ky can be removed)")
    from ..prov import Resolver
    ctx.instance("R15.1", "reset_default_parameter_values() without arguments covers ALL built-ins")
    Rd = Resolver(rdp.node)
    dom = None
    for x in walk_ordered(rdp.node):
        if isinstance(x, ast.If) and norm(x.test) == "elements is None":
            for st_ in x.body:
                if isinstance(st_, ast.Assign) and norm(st_.targets[0]) == "elements":
                    dom = norm(st_.value)
    if dom is None:
        raise AnalysisError("reset_default_parameter_values: the `elements is None` default not found")
    if _complete_defaults(dom):
        ctx.ok()
    else:
        ctx.violation("R15.1", "reset_default_parameter_values:domain", REG, rdp.node,
                      f"with no argument the defaults of {dom[:70]} are restored, which omits the private built-ins (K, Ky): their changed defaults survive reset()")
    ctx.instance("R15.2", "_initialized() is the last statement of elements.py, after every element module")
    em = ctx.repo.module("pyimpspec.circuit.elements")
    last = em.tree.body[-1]
    is_last = isinstance(last, ast.Expr) and isinstance(last.value, ast.Call) and dotted(last.value.func).endswith("_initialized")
    imported = set()
    for n in em.tree.body:
        if isinstance(n, ast.ImportFrom) and n.level == 1 and n.module:
            imported.add(f"pyimpspec.circuit.{n.module}")
    eds = registered_elements(ctx.repo)
    missing = sorted({e.module for e in eds} - imported)
    if is_last and not missing:
        ctx.ok()
    else:
        ctx.violation("R15.2", "elements.py:initialisation-order", "pyimpspec.circuit.elements", last,
                      f"_initialized() must run after all element modules have registered (not imported before it: {missing}; last statement ok: {is_last})")
    ctx.instance("R15.2", "_initialized snapshots _ELEMENTS into _DEFAULT_ELEMENTS and switches validation on")
    src = norm(ini.node)
    if "_DEFAULT_ELEMENTS.update(_ELEMENTS)" in src and "_VALIDATE_IMPEDANCES = True" in src and "global _VALIDATE_IMPEDANCES" in src:
        ctx.ok()
    else:
        ctx.violation("R15.2", "_initialized:snapshot", REG, ini.node, "_initialized() must record the built-ins and enable impedance validation")

    # ---------------- R15.3 ------------------------------------------------------------
    ctx.instance("R15.3", "register_element: store preceded by _initialize_element(definition, **kwargs)")
    cfg_r = CFG(reg.node)
    st = store[0]
    tgt = cfg_r.node_of(st).id
    if cfg_r.must_pass(tgt, lambda nd: nd.ast is not None and any(dotted(c.func) == "_initialize_element" for c in calls_in(nd.ast))):
        ctx.ok()
    else:
        ctx.violation("R15.3", "register_element:unvalidated-path", REG, st, "a path reaches the registry store without going through _initialize_element")
    ie = model.fi(REG, "_initialize_element")
    ctx.instance("R15.3", "_initialize_element validates the symbol and, under the import-time flag, the impedances")
    sym_calls = [c for c in calls_in(ie.node) if dotted(c.func) == "_validate_element_symbol"]
    val_calls = [c for c in calls_in(ie.node) if dotted(c.func) == "_validate_impedances"]
    ok = bool(sym_calls) and len(val_calls) == 1
    if ok:
        iff = enclosing(val_calls[0], (ast.If, ast.For, ast.While, ast.Try))
        ok = isinstance(iff, ast.If) and norm(iff.test) == "kwargs.get('validate_impedances', _VALIDATE_IMPEDANCES)" \
            and any(val_calls[0] in list(ast.walk(s_)) for s_ in iff.body) \
            and enclosing(iff, (ast.If, ast.For, ast.While, ast.Try)) is None
        rets = [n for n in walk_ordered(ie.node) if isinstance(n, ast.Return)]
        ok = ok and all(r.lineno > val_calls[0].lineno for r in rets)
        ok = ok and enclosing(sym_calls[0], (ast.If, ast.For, ast.While, ast.Try)) is None
    if ok:
        ctx.ok()
    else:
        ctx.violation("R15.3", "_initialize_element:validation", REG, ie.node,
                      "_initialize_element must call _validate_element_symbol unconditionally and _validate_impedances under kwargs.get('validate_impedances', _VALIDATE_IMPEDANCES) before returning")
    vi = model.fi(REG, "_validate_impedances")
    ctx.instance("R15.3", "_validate_impedances compares real and imaginary parts and refuses")
    cmp_ = [c for c in calls_in(vi.node) if dotted(c.func) == "allclose"]
    parts = sorted({norm(a).split(".")[-1] for c in cmp_ for a in c.args})
    raises = [n for n in walk_ordered(vi.node) if isinstance(n, ast.Raise)]
    both = {"real", "imag"} <= set(parts) and all(
        isinstance(parent(c), ast.UnaryOp) and isinstance(parent(c).op, ast.Not) for c in cmp_) and len(raises) >= 2
    uses_defaults = any(isinstance(c.func, ast.Name) and c.func.id == "Class" and not c.args and not c.keywords for c in calls_in(vi.node))
    uses_sympy = "to_sympy(substitute=True)" in norm(vi.node) and "get_impedances(f)" in norm(vi.node)
    sem = _validate_impedances_semantics(ctx, vi)
    if sem is not None:
        # decided by interpretation on 4 scenarios (real / imaginary parts equal or not)
        if sem:
            ctx.violation("R15.3", "_validate_impedances:comparison", REG, vi.node,
                          "_validate_impedances must compare get_impedances with the substituted equation (real and imaginary parts) at default values and raise on mismatch: " + sem[0] + (f" (+{len(sem) - 1} more)" if len(sem) > 1 else ""))
        else:
            ctx.ok()
    elif both and uses_defaults and uses_sympy:
        ctx.ok()
    else:
        ctx.violation("R15.3", "_validate_impedances:comparison", REG, vi.node,
                      "_validate_impedances must compare get_impedances with the substituted equation (real and imaginary parts) at default values and raise on mismatch")

    # ---------------- R15.4 ------------------------------------------------------------
    n_reads = 0
    for mname, mod in ctx.repo.modules.items():
        for n in walk_ordered(mod.tree, into_functions=True):
            if isinstance(n, ast.Name) and n.id in ("_ELEMENTS", "_PRIVATE_ELEMENTS", "_DEFAULT_ELEMENTS") and mname != REG:
                ctx.instance("R15.4", f"{mname} names {n.id}")
                ctx.violation("R15.4", f"{mname}:reads-{n.id}", mname, n, f"{mname} accesses the registry global {n.id} directly (stale after register/reset)")
            if isinstance(n, ast.ImportFrom):
                for a in n.names:
                    if a.name in ("_ELEMENTS", "_PRIVATE_ELEMENTS", "_DEFAULT_ELEMENTS"):
                        ctx.instance("R15.4", f"{mname} imports {a.name}")
                        ctx.violation("R15.4", f"{mname}:imports-{a.name}", mname, n, f"{mname} imports the registry global {a.name}: a by-value snapshot of the binding")
            if isinstance(n, ast.Call) and dotted(n.func).split(".")[-1] == "get_elements" and not (isinstance(n.func, ast.Attribute) and dotted(n.func.value) not in ("pyimpspec", "registry", "_registry")):
                if isinstance(n.func, ast.Attribute):
                    continue
                r = model.resolve(mname, "get_elements")
                if not r or r[1] != f"{REG}:get_elements":
                    continue
                n_reads += 1
                fn = enclosing_function_name(n)
                ctx.instance("R15.4", f"{mname}:{fn} calls get_elements()")
                at_import = fn == "<module>" or (enclosing(n, (ast.FunctionDef, ast.Lambda)) is None)
                in_default = False
                p = parent(n)
                while p is not None and not isinstance(p, (ast.FunctionDef, ast.Module)):
                    if isinstance(p, ast.arguments):
                        in_default = True
                    p = parent(p)
                if at_import or in_default:
                    ctx.violation("R15.4", f"{mname}:{fn}:import-time-snapshot", mname, n,
                                  "get_elements() is evaluated at import/definition time: the table is frozen before later registrations")
                else:
                    ctx.ok()
    if n_reads < 3:
        raise AnalysisError(f"R15.4: only {n_reads} get_elements() call sites found (floor 3)")
    from ..cfg import returns_not_passing
    ge = model.fi(REG, "get_elements")
    ctx.instance("R15.4", "get_elements() reads the live registry on every path")
    badr = returns_not_passing(ge.node, lambda a: any(isinstance(x, ast.Name) and x.id in ("_ELEMENTS", "_DEFAULT_ELEMENTS") for x in ast.walk(a)))
    if badr:
        ctx.violation("R15.4", "get_elements:memoised-path", REG, badr[0],
                      "get_elements() has a return path that does not read _ELEMENTS/_DEFAULT_ELEMENTS: a memoised table can outlive register/remove/reset")
    else:
        ctx.ok()
    pi = model.fi(PARSER, "Parser.__init__")
    ctx.instance("R15.4", "Parser takes its element table per instance; parse_cdc builds a Parser per call")
    per_inst = any(isinstance(n, (ast.Assign, ast.AnnAssign)) and norm(n.targets[0] if isinstance(n, ast.Assign) else n.target) == "self._valid_elements"
                   and "get_elements(private=True)" in norm(n.value) for n in walk_ordered(pi.node))
    pc = model.fi("pyimpspec.circuit", "parse_cdc")
    fresh = any(norm(c.func) == "Parser().process" for c in calls_in(pc.node))
    mod_level_parser = any(isinstance(n, ast.Assign) and isinstance(n.value, ast.Call) and dotted(n.value.func) == "Parser"
                           for m in ctx.repo.modules.values() for n in m.tree.body)
    pe = model.fi(PARSER, "Parser.element")
    exact = "identifier.value not in self._valid_elements" in norm(pe.node) and "self._valid_elements[identifier.value]" in norm(pe.node)
    if per_inst and fresh and not mod_level_parser and exact:
        ctx.ok()
    else:
        ctx.violation("R15.4", "Parser:table-snapshot", PARSER, pi.node,
                      "the parser must read get_elements(private=True) per instance, parse_cdc must build a parser per call, and element symbols must be looked up in that table")

    # ---------------- R15.5 ------------------------------------------------------------
    vs = model.fi(REG, "_validate_element_symbol")
    reg_first = reg_cont = None
    for n in walk_ordered(vs.node):
        if isinstance(n, ast.Compare) and isinstance(n.ops[0], ast.NotIn) and norm(n.left) == "symbol[0]":
            reg_first = fold_const(n.comparators[0], {**module_consts(ctx.repo, REG), **STRING_NAMES})
        if isinstance(n, (ast.Assign, ast.AnnAssign)) and norm(n.targets[0] if isinstance(n, ast.Assign) else n.target) == "valid_chars":
            reg_cont = fold_const(n.value, {**module_consts(ctx.repo, REG), **STRING_NAMES})
    il = model.fi(TOK, "Tokenizer.identifier_or_label")
    tok_cont = None
    tnames = {**module_consts(ctx.repo, TOK), **STRING_NAMES}
    for n in walk_ordered(il.node):
        # the element-identifier alphabet is the one chosen when the previous token is NOT `{` or `,`
        if isinstance(n, ast.If) and "LCurly" in norm(n.test):
            for blk in (n.orelse,):
                for m in blk:
                    for x in walk_ordered(m):
                        if isinstance(x, (ast.Assign, ast.AnnAssign)) and x.value is not None and norm(x.targets[0] if isinstance(x, ast.Assign) else x.target) == "valid_chars":
                            tok_cont = fold_const(x.value, tnames)
        if isinstance(n, (ast.Assign, ast.AnnAssign)) and n.value is not None and norm(n.targets[0] if isinstance(n, ast.Assign) else n.target) == "valid_chars" \
                and isinstance(n.value, ast.IfExp) and "LCurly" in norm(n.value.test):
            neg = isinstance(n.value.test, ast.UnaryOp) and isinstance(n.value.test.op, ast.Not)
            tok_cont = fold_const(n.value.body if neg else n.value.orelse, tnames)
    tm = model.fi(TOK, "Tokenizer.main_loop")
    tok_first = None
    for n in walk_ordered(tm.node):
        if isinstance(n, ast.If) and any(dotted(c.func) == "self.identifier_or_label" for s in n.body for c in calls_in(s)):
            t = n.test
            if isinstance(t, ast.Compare) and isinstance(t.ops[0], ast.In):
                tok_first = fold_const(t.comparators[0], {**module_consts(ctx.repo, TOK), **STRING_NAMES})
    if None in (reg_first, reg_cont, tok_cont, tok_first):
        raise AnalysisError(f"R15.5: alphabets not recovered (registry first={reg_first!r} cont={reg_cont!r}; tokenizer first={tok_first!r} cont={tok_cont!r})")
    ctx.instance("R15.5", f"registry first {len(reg_first)} chars ⊆ tokenizer first {len(tok_first)}")
    if set(reg_first) <= set(tok_first):
        ctx.ok()
    else:
        ctx.violation("R15.5", "alphabet:first", TOK, tm.node, f"registry admits first characters {sorted(set(reg_first) - set(tok_first))} that the tokenizer does not start an identifier with")
    ctx.instance("R15.5", f"registry continuation {len(reg_cont)} chars ⊆ tokenizer element-identifier continuation {len(tok_cont)}")
    if set(reg_cont) <= set(tok_cont):
        ctx.ok()
    else:
        ctx.violation("R15.5", "alphabet:continuation", TOK, il.node,
                      f"registry admits symbol characters {sorted(set(reg_cont) - set(tok_cont))} that the tokenizer does not scan as part of an element identifier")
    ctx.instance("R15.5", "no upper-case letter continues an element identifier (L, La, Ls stay distinct; 'RC' is two elements)")
    if not (set(tok_cont) & set(string.ascii_uppercase)) and not (set(reg_cont) & set(string.ascii_uppercase)) and set(reg_first) <= set(string.ascii_uppercase):
        ctx.ok()
    else:
        ctx.violation("R15.5", "alphabet:uppercase", TOK, il.node, "an upper-case letter may continue an element symbol: adjacent elements would be merged into one identifier")
    ctx.sample({"registry_first": reg_first, "registry_continuation": reg_cont, "tokenizer_continuation": tok_cont})
