"""C14: copies and resets of Element/Container decided by interpreting the methods themselves (their AST, with every
setter, getter and helper method they call interpreted too) in every world of the order domain.

A world is a weak ordering of (v, l, u, v0, l0, u0) together with where -inf/+inf sit (sa.orders.worlds); it is realised
as concrete floats.  The behaviour of the parameter API depends on the numbers only through comparisons, so one
representative per ordering decides all values of that ordering."""
from __future__ import annotations

import math
from typing import Any, Dict, List, Optional, Tuple

from ..core import AnalysisError
from ..miniinterp import ExcValue, InterpRaise, Mini, Obj, module_globals
from ..orders import NINF, PINF, worlds

BASE = "pyimpspec.circuit.base"
SRC_OK = [("l", "<", "u"), ("l", "<=", "v"), ("v", "<=", "u")]
DEF_OK = [("l0", "<", "u0"), ("l0", "<=", "v0"), ("v0", "<=", "u0")]


def _val(w: Dict[str, int], s: str) -> float:
    r = w[s]
    if r == w[NINF]:
        return -math.inf
    if r == w[PINF]:
        return math.inf
    return float(r)


class _Connection:
    """Stand-in for a sub-circuit: remembers what it was copied from and how."""

    def __init__(self, origin=None, how="original"):
        self.origin, self.how = origin, how

    def __copy__(self):
        return _Connection(self, "copy")

    def __deepcopy__(self, memo):
        c = memo.get(id(self))
        if c is None:
            c = _Connection(self, "deepcopy")
            memo[id(self)] = c
        return c


def _env(ctx, model):
    excs = {}
    import ast as _ast
    for st in ctx.repo.modules["pyimpspec.exceptions"].tree.body:
        if isinstance(st, _ast.ClassDef):
            excs[st.name] = (lambda nm: (lambda *a, **k: ExcValue(nm, a)))(st.name)
    stubs: Dict[str, Any] = dict(excs)
    stubs.update({"inf": math.inf, "nan": math.nan, "isnan": lambda x: isinstance(x, float) and math.isnan(x), "isinf": lambda x: isinstance(x, float) and math.isinf(x),
                  "_is_boolean": lambda x: isinstance(x, bool), "_is_integer": lambda x: isinstance(x, int) and not isinstance(x, bool),
                  "_is_floating": lambda x: isinstance(x, float), "Connection": _Connection, "deepcopy": lambda x, *a: x, "id": id})
    g = module_globals(ctx.repo.modules[BASE].tree, stubs)
    g.update(stubs)
    el = {n: m.node for n, m in model.classes[f"{BASE}:Element"].methods.items()}
    co = {n: m.node for n, m in model.classes[f"{BASE}:Container"].methods.items()}
    return g, el, co


def _make(g, mro, w, fixed0: bool, container: bool, kwargs=None):
    """A fresh instance in world w: class-level defaults (v0, l0, u0, fixed0), then the interpreted __init__."""
    mi = Mini(g, max_steps=400000)
    attrs = {"_parameter_default_value": {"p": _val(w, "v0")}, "_parameter_default_lower_limit": {"p": _val(w, "l0")},
             "_parameter_default_upper_limit": {"p": _val(w, "u0")}, "_parameter_default_fixed": {"p": fixed0}, "_valid_kwargs_keys": {"p"},
             "_parameter_unit": {"p": ""}, "_parameter_description": {"p": ""}, "_symbol": "E"}
    if container:
        attrs.update({"_subcircuit_default_value": {"s": None, "t": None}, "_subcircuit_unit": {"s": "", "t": ""}, "_subcircuit_description": {"s": "", "t": ""}})
        attrs["_valid_kwargs_keys"] = {"p", "s", "t"}
    me = Obj(mi, mro, attrs)
    fn, lvl = me._mi_find("__init__")
    mi.call_bound(fn, me, (), dict(kwargs or {}), level=lvl)
    return me


def _state(o) -> Tuple[Any, Any, Any, Any, Any]:
    return (o._parameter_value["p"], o._parameter_lower_limit["p"], o._parameter_upper_limit["p"], o._parameter_fixed["p"], o._label)


def run_copies(ctx, model, thorough: bool = False) -> Tuple[List[Tuple[str, str]], Dict[str, int]]:
    g, el, co = _env(ctx, model)
    ws = worlds(["v", "l", "u", "v0", "l0", "u0"], SRC_OK + DEF_OK, with_inf=True)
    problems: List[Tuple[str, str]] = []
    counts: Dict[str, int] = {}
    for qual, mro, meth, container in (("Element.__copy__", [el], "__copy__", False), ("Element.__deepcopy__", [el], "__deepcopy__", False), ("Container.__copy__", [co, el], "__copy__", True),
                                       ("Container.__deepcopy__", [co, el], "__deepcopy__", True)):
        n = 0
        for wi, w in enumerate(ws):
            for fixed in ((False, True) if wi < 40 or thorough else (bool(wi % 2),)):
                n += 1
                g2 = dict(g)
                g2["type"] = lambda o, _g=g2, _mro=mro, _w=w, _f=fixed, _c=container: (lambda **kw: _make(_g, _mro, _w, not _f, _c, kw))
                src = _make(g2, mro, w, not fixed, container)
                src._parameter_value["p"], src._parameter_lower_limit["p"], src._parameter_upper_limit["p"] = _val(w, "v"), _val(w, "l"), _val(w, "u")
                src._parameter_fixed["p"] = fixed
                src._label = "lbl"
                sub = _Connection()
                if container:
                    src._subcircuit_value["s"] = sub
                before = _state(src)
                mi = Mini(g2, max_steps=400000)
                fn, lvl = src._mi_find(meth)
                memo: Dict[int, Any] = {}
                try:
                    cp = mi.call_bound(fn, src, ((memo,) if meth == "__deepcopy__" else ()), {}, level=lvl)
                    got: Any = _state(cp)
                    same_obj = cp is src
                    if container and n == 1:
                        sv = cp._subcircuit_value
                        c_s = sv.get("s")
                        if not (isinstance(c_s, _Connection) and c_s.origin is sub and c_s.how == meth.strip("_")) or sv.get("t", 0) is not None or src._subcircuit_value["s"] is not sub:
                            problems.append((qual + ":subcircuits", f"the copy's sub-circuits are not the {meth.strip('_')} of the source's (got {'the same object' if c_s is sub else getattr(c_s, 'how', c_s)} for a set sub-circuit, {sv.get('t', 'nothing')} for an empty one)"))
                    if meth == "__deepcopy__" and n == 1:
                        again = Mini(g2, max_steps=400000).call_bound(fn, src, (memo,), {}, level=lvl)
                        if again is not cp:
                            problems.append((qual + ":memo", "a second deepcopy with the same memo does not return the first copy: an element reachable twice is duplicated"))
                except InterpRaise as e:
                    got, same_obj = f"raises {e.kind}", False
                if (got != before or same_obj or _state(src) != before) and not any(q == qual for q, _ in problems):
                    order = " ".join(f"{k}={_val(w, k)}" for k in ("v", "l", "u", "v0", "l0", "u0"))
                    problems.append((qual, f"for an element with (value, lower, upper, fixed, label) = {before} and class defaults in the ordering [{order}] the copy is {got}"
                                     + (" (the same object)" if same_obj else "") + (f"; the source became {_state(src)}" if _state(src) != before else "")))
        counts[qual] = n
    return problems, counts


def run_resets(ctx, model, thorough: bool = False) -> Tuple[List[Tuple[str, str]], Dict[str, int]]:
    g, el, co = _env(ctx, model)
    ws = worlds(["v", "l", "u", "v0", "l0", "u0"], [("l", "<", "u"), ("l", "<=", "v"), ("v", "<=", "u")] + DEF_OK, with_inf=True)
    problems: List[Tuple[str, str]] = []
    counts: Dict[str, int] = {}
    for qual, meth, args in (("Element.reset_parameters", "reset_parameters", ()), ("Element.reset_parameters(key)", "reset_parameters", ("p",)), ("Element.reset_parameter", "reset_parameter", ("p",))):
        n = 0
        if meth not in el:
            continue
        for wi, w in enumerate(ws):
            for fixed in ((False, True) if wi < 40 or thorough else (bool(wi % 2),)):
                n += 1
                src = _make(g, [el], w, not fixed, False)
                src._parameter_value["p"], src._parameter_lower_limit["p"], src._parameter_upper_limit["p"] = _val(w, "v"), _val(w, "l"), _val(w, "u")
                src._parameter_fixed["p"] = fixed
                src._label = "lbl"
                mi = Mini(g, max_steps=400000)
                fn, lvl = src._mi_find(meth)
                try:
                    mi.call_bound(fn, src, args, {}, level=lvl)
                    got: Any = _state(src)
                except InterpRaise as e:
                    got = f"raises {e.kind}"
                want = (_val(w, "v0"), _val(w, "l0"), _val(w, "u0"), not fixed, "lbl")
                if got != want and not any(q == qual for q, _ in problems):
                    order = " ".join(f"{k}={_val(w, k)}" for k in ("v", "l", "u", "v0", "l0", "u0"))
                    problems.append((qual, f"from the state (value, lower, upper) = ({_val(w, 'v')}, {_val(w, 'l')}, {_val(w, 'u')}) with defaults in the ordering [{order}] the reset gives {got} instead of {want}"))
        counts[qual] = n
    return problems, counts
