"""C01: Series._impedance and Parallel._impedance decided by interpretation over the open/short/finite pattern domain.

Both functions depend on the impedances of their children only through, per child and frequency, whether the value is
exactly zero, infinite, or a finite non-zero number (and, for finite values, through ordinary arithmetic).  Children are
stubs of the three kinds (Container, Element, Connection) whose `_impedance` accepts exactly the argument set of its kind
and returns a prepared array; entries are 0, inf, a tiny finite float (which an exact test must treat as finite) or a
symbol.  Every pattern up to the stated bound is interpreted (sa.miniinterp + sa.nplite, on the AST) and compared with
the composition law."""
from __future__ import annotations

import itertools
import math
from typing import Any, Dict, List, Optional, Tuple

import sympy as sp

from ..core import AnalysisError
from ..miniinterp import ExcValue, InterpRaise, Mini, Obj, module_globals
from ..nplite import NP_STUBS, NArr

BASE = "pyimpspec.circuit.base"
SER = "pyimpspec.circuit.series"
PAR = "pyimpspec.circuit.parallel"
EPS = 1e-12


class Element:  # kind stubs (the names the repository's isinstance tests use)
    pass


class Container(Element):
    pass


class Connection:
    pass


def _child(kind: str, values: List[Any]):
    arr = lambda: NArr(list(values))
    if kind == "Container":
        class C(Container):
            def get_values(self):
                return {"p": 1.0}

            def get_subcircuits(self):
                return {"X": None}

            def _impedance(self, f, **kw):
                if set(kw) != {"p", "X"}:
                    raise TypeError(f"container child evaluated with {sorted(kw)}")
                return arr()
        return C()
    if kind == "Element":
        class E(Element):
            def get_values(self):
                return {"p": 1.0}

            def _impedance(self, f, **kw):
                if set(kw) != {"p"}:
                    raise TypeError(f"element child evaluated with {sorted(kw)}")
                return arr()
        return E()

    class K(Connection):
        def _impedance(self, f, **kw):
            if kw:
                raise TypeError(f"connection child evaluated with {sorted(kw)}")
            return arr()
    return K()


def _eq(a, b) -> bool:
    if isinstance(a, float) and isinstance(b, float) and (math.isinf(a) or math.isinf(b)):
        return a == b
    try:
        d = sp.simplify(sp.sympify(a) - sp.sympify(b))
    except Exception:
        return False
    if d == 0:
        return True
    try:
        return abs(complex(d)) <= 1e-9 * max(1.0, abs(complex(sp.sympify(b))))
    except Exception:
        return False


def _globals(ctx, mod: str) -> Dict[str, Any]:
    stubs = dict(NP_STUBS)
    stubs.update({"Element": Element, "Container": Container, "Connection": Connection,
                  "InfiniteImpedance": lambda *a: ExcValue("InfiniteImpedance", a), "NotANumberImpedance": lambda *a: ExcValue("NotANumberImpedance", a),
                  "isclose": lambda a, b, rtol=1e-05, atol=1e-08, **k: NArr([(not isinstance(x, sp.Basic)) and (not (isinstance(x, float) and math.isinf(x))) and abs(x - b) <= atol + rtol * abs(b) for x in a]) if isinstance(a, NArr) else ((not isinstance(a, sp.Basic)) and abs(a - b) <= atol + rtol * abs(b))})
    g = module_globals(ctx.repo.modules[BASE].tree, stubs)
    g.update(module_globals(ctx.repo.modules[mod].tree, stubs))
    g.update(stubs)
    return g


def _worlds(kinds_shift: bool):
    """(kinds, matrix of values per child per frequency)"""
    K3 = ("Connection", "Element", "Container")
    dom = (0.0, math.inf, "sym", EPS)
    for n, m in ((1, 2), (2, 2), (3, 1)):
        shifts = (0, 1, 2) if (kinds_shift and n < 3) else (0,)
        for sh in shifts:
            kinds = [K3[(i + sh) % 3] for i in range(n)]
            for combo in itertools.product(dom, repeat=n * m):
                yield kinds, [list(combo[c * m:(c + 1) * m]) for c in range(n)], m


def _materialise(rows):
    out = []
    for c, row in enumerate(rows):
        out.append([sp.Symbol(f"z{c}_{j}", positive=True) if v == "sym" else v for j, v in enumerate(row)])
    return out


def run(ctx, model):
    """→ list of (qual, kind of problem, witness text) and counts; raises AnalysisError when a construct is outside the interpreter."""
    problems: List[Tuple[str, str, str]] = []
    counts: Dict[str, int] = {}
    for mod, cls, law in ((SER, "Series", "series"), (PAR, "Parallel", "parallel")):
        fi = model.fi(mod, f"{cls}._impedance")
        methods = [{n: m_.node for n, m_ in model.classes[f"{mod}:{cls}"].methods.items()},
                   {n: m_.node for n, m_ in model.classes["pyimpspec.circuit.base:Connection"].methods.items()}]
        g = _globals(ctx, mod)
        n_w = 0
        # empty connection
        f0 = NArr([sp.Symbol("f0", positive=True), sp.Symbol("f1", positive=True)])
        me = _construct(g, methods, [])
        try:
            out = Mini(g).call_function(fi.node, {"self": me, "f": f0})
            if not all(_eq(x, 0) for x in out):
                problems.append((f"{cls}._impedance", "empty", f"an empty connection evaluates to {list(out)} instead of zero impedance"))
        except InterpRaise as e:
            problems.append((f"{cls}._impedance", "empty", f"an empty connection raises {e.kind}"))
        for kinds, rows, m in _worlds(True):
            if law == "series" and any(isinstance(v, float) and math.isinf(v) for r in rows for v in r):
                continue
            n_w += 1
            vals = _materialise(rows)
            kids = [_child(k, v) for k, v in zip(kinds, vals)]
            f = NArr([sp.Symbol(f"f{j}", positive=True) for j in range(m)])
            me = _construct(g, methods, kids)
            try:
                out = Mini(g).call_function(fi.node, {"self": me, "f": f})
                got: Any = list(out)
            except InterpRaise as e:
                got = e.kind
            # specification
            if law == "series":
                want: Any = [sum((vals[c][j] for c in range(len(vals))), 0) for j in range(m)]
                ok = isinstance(got, list) and len(got) == m and all(_eq(a, b) for a, b in zip(got, want))
            else:
                is_inf = lambda v: isinstance(v, float) and math.isinf(v)
                all_open = [all(is_inf(v) for v in r) for r in vals]
                part_open = [any(is_inf(v) for v in r) and not all(is_inf(v) for v in r) for r in vals]
                live = [r for r, ao in zip(vals, all_open) if not ao]
                zero_cover = [any((not isinstance(r[j], sp.Basic)) and r[j] == 0 for r in live if not any(is_inf(x) for x in r)) for j in range(m)]
                if any(part_open):
                    # refused; or — when children seen before it already short every frequency — zero
                    ok = got == "InfiniteImpedance" or (isinstance(got, list) and all(_eq(x, 0) for x in got) and all(zero_cover))
                    want = "InfiniteImpedance"
                elif not live:
                    ok = got == "InfiniteImpedance"
                    want = "InfiniteImpedance"
                else:
                    want = []
                    for j in range(m):
                        if any((not isinstance(r[j], sp.Basic)) and r[j] == 0 for r in live):
                            want.append(0)
                        else:
                            want.append(1 / sum((1 / r[j] for r in live), 0))
                    ok = isinstance(got, list) and len(got) == m and all(_eq(a, b) for a, b in zip(got, want))
            if not ok and not any(p[0] == f"{cls}._impedance" and p[1] == "law" for p in problems):
                pretty = [["0" if v == 0 else "inf" if (isinstance(v, float) and math.isinf(v)) else ("tiny" if v == EPS else "Z") for v in r] for r in rows]
                problems.append((f"{cls}._impedance", "law", f"children {list(zip(kinds, pretty))}: result {got if isinstance(got, str) else [str(x)[:40] for x in got]} instead of {want if isinstance(want, str) else [str(x)[:40] for x in want]}"))
        # the result follows the current children: evaluate, edit the connection through its own methods, evaluate again
        za, zb, zc = (sp.Symbol(n_, positive=True) for n_ in ("za", "zb", "zc"))
        combine = (lambda zs: sum(zs, 0)) if law == "series" else (lambda zs: 1 / sum((1 / z for z in zs), 0))
        for edit, after in (("append", [za, zb, zc]), ("insert", [zc, za, zb]), ("remove", [zb]), ("pop", [za]), ("extend", [za, zb, zc]), ("the list it was constructed from", None)):
            if after is not None and not any(edit in lvl for lvl in methods):
                continue
            n_w += 1
            ka, kb, kc = _child("Element", [za]), _child("Connection", [zb]), _child("Container", [zc])
            z_of = {id(ka): za, id(kb): zb, id(kc): zc}
            items = [ka, kb]
            me = _construct(g, methods, items, copy=False)
            f1 = NArr([sp.Symbol("f0", positive=True)])
            try:
                mi = Mini(g)
                first = list(mi.call_function(fi.node, {"self": me, "f": f1}))
                if after is None:
                    # the constructor may keep the caller's list: whatever iteration shows afterwards is what must be evaluated
                    items.append(kc)
                    after = [z_of[id(k)] for k in me._elements]
                else:
                    fn_, lvl_ = me._mi_find(edit)
                    mi.call_bound(fn_, me, {"append": (kc,), "insert": (0, kc), "remove": (ka,), "pop": (1,), "extend": ([kc],)}[edit], {}, level=lvl_)
                second: Any = list(mi.call_function(fi.node, {"self": me, "f": f1}))
            except InterpRaise as e:
                first, second, after = [combine([za, zb])], e.kind, (after or [za, zb])
            if not (_eq(first[0], combine([za, zb])) and isinstance(second, list) and _eq(second[0], combine(after))) and not any(p[1] == "stale" and p[0].startswith(cls) for p in problems):
                problems.append((f"{cls}._impedance", "stale", f"after a change through {edit} on a connection that has been evaluated once, the impedance is {second if isinstance(second, str) else str(second[0])[:60]} instead of the combination of its current children {str(combine(after))[:60]}"))
        counts[cls] = n_w
    return problems, counts


def _construct(g, methods, kids, copy: bool = True):
    """The connection object: built by the interpreted constructor when there is one, so that whatever state it sets up exists."""
    me = Obj(Mini(g), methods, {})
    fn, lvl = me._mi_find("__init__")
    if fn is None:
        object.__setattr__(me, "_elements", list(kids))
        return me
    Mini(g).call_bound(fn, me, (list(kids) if copy else kids,), {}, level=lvl)
    return me


def run_evaluator(ctx, model) -> Tuple[List[str], int]:
    """_calculate_impedances interpreted on frequency vectors of length 1..3 over {0, finite, inf, negative} and objects of
    the three kinds (whose _impedance accepts only its kind's argument set and returns Z(f) entry by entry): finite
    frequencies get Z(f_j) at their own position, 0 and inf the limit of that very frequency, a negative frequency is
    refused before anything is evaluated, an infinite or NaN result is refused, an object of another kind is refused."""
    fi = model.fi(BASE, "_calculate_impedances")
    Zf, Lim = sp.Function("Z"), sp.Function("Lim")
    problems: List[str] = []
    n = 0
    dom = (0.0, 2.0, 3.0, 5.0e-13, math.inf, -1.0)

    def obj_of(kind, bad=None):
        evaluated: List[Any] = []

        def values(f):
            evaluated.extend(list(f))
            return NArr([(bad if (bad is not None and v == 2.0) else Zf(sp.Float(v))) for v in f])
        if kind == "Container":
            class C(Container):
                def get_values(self): return {"p": 1.0}
                def get_subcircuits(self): return {"X": None}
                def _impedance(self, f, **kw):
                    if set(kw) != {"p", "X"}:
                        raise TypeError(f"container evaluated with {sorted(kw)}")
                    return values(f)
            return C(), evaluated
        if kind == "Element":
            class E(Element):
                def get_values(self): return {"p": 1.0}
                def _impedance(self, f, **kw):
                    if set(kw) != {"p"}:
                        raise TypeError(f"element evaluated with {sorted(kw)}")
                    return values(f)
            return E(), evaluated
        if kind == "Connection":
            class K(Connection):
                def _impedance(self, f, **kw):
                    if kw:
                        raise TypeError(f"connection evaluated with {sorted(kw)}")
                    return values(f)
            return K(), evaluated
        return object(), evaluated
    cases = [(k, None, fs) for k in ("Container", "Element", "Connection") for m in (1, 2, 3) for fs in itertools.product(dom, repeat=m)]
    cases += [(k, bad, (2.0, 3.0)) for k in ("Element", "Connection") for bad in (math.inf, math.nan)]
    cases += [("other", None, (2.0,))]
    for kind, bad, fs in cases:
        n += 1
        obj, evaluated = obj_of(kind, bad)
        st = _globals(ctx, BASE)
        st.update({"_is_floating_array": lambda x: True, "_cast_to_floating_array": lambda x: x, "_calculate_limit": lambda o, fv: (Lim(sp.oo) if math.isinf(fv) else Lim(sp.Float(fv))) if o is obj else sp.Symbol("limit_of_another_object"),
                   "ComplexImpedance": complex, "type": type})
        try:
            out = Mini(st, max_steps=100000).call_function(fi.node, {"obj": obj, "f": NArr(list(fs))})
            got: Any = list(out)
        except InterpRaise as e:
            got = e.kind
        if kind == "other":
            want: Any = "NotImplementedError"
        elif any(v < 0 for v in fs):
            want = "ValueError"
        elif bad is not None:
            want = "InfiniteImpedance" if math.isinf(bad) else "NotANumberImpedance"
        else:
            want = [(Lim(sp.oo) if math.isinf(v) else Lim(sp.Float(v))) if (v == 0.0 or math.isinf(v)) else Zf(sp.Float(v)) for v in fs]
        ok = (got == want) if isinstance(want, str) else (isinstance(got, list) and len(got) == len(want) and all(_eq(a, b) for a, b in zip(got, want)))
        if ok and want == "ValueError" and evaluated:
            ok, got = False, f"ValueError after evaluating the object at {evaluated}"
        if not ok and len(problems) < 3:
            problems.append(f"_calculate_impedances({kind}, f={list(fs)}){' with an ' + str(bad) + ' value' if bad is not None else ''} gives {got if isinstance(got, str) else [str(x) for x in got]} instead of {want if isinstance(want, str) else [str(x) for x in want]}")
    return problems, n
