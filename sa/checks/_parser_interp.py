"""C03: the parser's parameter grammar decided by interpreting Parser.param / Parser.parameters (their AST, with the
Parser's own primitives accept/expect/pop_token also interpreted) on token streams.

Token streams are finite in kind: a parameter is  key = value[F] [ / lower [ / upper ] | // upper ]  where a limit is a
number, a percentage of the value, or the word inf; a block is `{` entries `,`-separated [`:` label] `}`.  Every form is
enumerated; the streams for the block test are derived from the shapes the emitter writes (sa.strabs), so the comparison
is exactly "the parser reads back what the emitter wrote"."""
from __future__ import annotations

import ast
import itertools
import math
from typing import Any, Dict, List, Optional, Tuple

from ..core import AnalysisError, walk_ordered
from ..miniinterp import ExcValue, InterpRaise, Mini, Obj, module_globals

PARSER = "pyimpspec.circuit.parser"
TOK = "pyimpspec.circuit.tokenizer"
EXC = "pyimpspec.exceptions"


class _Tok:
    def __init__(self, value=None, start=0, end=0):
        self.value, self.start, self.end = value, start, end

    def __repr__(self):
        return f"{type(self).__name__}({self.value!r})"


class Element:
    pass


class Container(Element):
    pass


def build(ctx, model):
    toks: Dict[str, type] = {}
    for st in ctx.repo.modules[TOK].tree.body:
        if isinstance(st, ast.ClassDef) and st.name != "Tokenizer":
            toks[st.name] = type(st.name, (_Tok,), {})
    excs: Dict[str, Any] = {}
    for st in ctx.repo.modules[EXC].tree.body:
        if isinstance(st, ast.ClassDef):
            excs[st.name] = (lambda nm: (lambda *a, **k: ExcValue(nm, a)))(st.name)
    stubs: Dict[str, Any] = {}
    stubs.update(toks)
    stubs.update(excs)
    stubs.update({"isnan": lambda x: isinstance(x, float) and math.isnan(x), "inf": math.inf, "nan": math.nan, "issubclass": issubclass,
                  "Element": Element, "Container": Container})
    g = module_globals(ctx.repo.modules[PARSER].tree, stubs)
    g.update(stubs)
    methods = {n: m.node for n, m in model.classes[f"{PARSER}:Parser"].methods.items()}
    return toks, g, methods


def _same(a, b) -> bool:
    if isinstance(a, float) and isinstance(b, float) and math.isnan(a) and math.isnan(b):
        return True
    return a == b


def run_param(ctx, model) -> Tuple[List[str], int]:
    toks, g, methods = build(ctx, model)
    T = lambda name, v=None: toks[name](v)
    V, L, U = 5.0, 1.0, 9.0
    lim_forms = {"num": lambda x: [T("Number", x)], "pct": lambda x: [T("Number", x), T("Percent", "%")], "inf": lambda x: [T("Identifier", "inf")]}

    def lim_val(kind, x, upper):
        return {"num": x, "pct": V * x / 100, "inf": math.inf if upper else -math.inf}[kind]
    problems: List[str] = []
    n = 0
    fi = methods["param"]
    for fixed in (False, True):
        vt = T("FixedNumber" if fixed else "Number", V)
        forms: List[Tuple[str, List[Any], float, float]] = [("value", [], math.nan, math.nan)]
        for lk in lim_forms:
            lx = 20.0 if lk == "pct" else L
            forms.append((f"value/{lk}", [T("ForwardSlash", "/")] + lim_forms[lk](lx), lim_val(lk, lx, False), math.nan))
            for uk in lim_forms:
                ux = 180.0 if uk == "pct" else U
                forms.append((f"value/{lk}/{uk}", [T("ForwardSlash", "/")] + lim_forms[lk](lx) + [T("ForwardSlash", "/")] + lim_forms[uk](ux), lim_val(lk, lx, False), lim_val(uk, ux, True)))
        for uk in lim_forms:
            ux = 180.0 if uk == "pct" else U
            forms.append((f"value//{uk}", [T("ForwardSlash", "/"), T("ForwardSlash", "/")] + lim_forms[uk](ux), math.nan, lim_val(uk, ux, True)))
        for name, rest, lo, up in forms:
            for term in ("Comma", "RCurly", "Colon"):
                n += 1
                stream = [vt] + list(rest) + [T(term, term)]
                me = Obj(Mini(g), methods, {"_tokens": list(stream), "_stack": [], "_valid_elements": {}})
                try:
                    out = Mini(g).call_bound(fi, me, (Element, T("Identifier", "A")), {})
                    got: Any = tuple(out)
                    left = list(me._tokens)
                except InterpRaise as e:
                    got, left = e.kind, []
                want = (V, lo, up, fixed)
                ok = isinstance(got, tuple) and len(got) == 4 and all(_same(a, b) for a, b in zip(got, want)) and len(left) == 1 and type(left[0]).__name__ == term
                if not ok and len(problems) < 3:
                    problems.append(f"`A={'5F' if fixed else '5'}{name[5:]}` followed by {term}: Parser.param gives {got} with {len(left)} token(s) left instead of (value, lower, upper, fixed) = {want} and the terminator left")
    return problems, n


def run_parameters(ctx, model, shapes: List[str]) -> Tuple[List[str], int]:
    """shapes: the emitter's canonical entry shapes, e.g. '<K>=<V>F/<L>/inf' (from sa.strabs)."""
    toks, g, methods = build(ctx, model)
    T = lambda name, v=None: toks[name](v)
    fi = methods["parameters"]

    class Cls(Element):
        @staticmethod
        def get_default_values():
            return {"A": 0.0, "B": 0.0}
    vals = {"A": (5.0, 1.0, 9.0), "B": (50.0, 10.0, 90.0)}

    def entry(key: str, shape: str):
        v, lo, up = vals[key]
        out = [T("Identifier", key), T("Equals", "=")]
        rest = shape[len("<K>="):]
        fixed = False
        want_lo = want_up = None
        i = 0
        slot = 0  # 0 value, 1 lower, 2 upper
        while i < len(rest):
            if rest.startswith("<V>", i):
                i += 3
                if rest.startswith("F", i):
                    fixed = True
                    i += 1
                out.append(T("FixedNumber" if fixed else "Number", v))
            elif rest.startswith("/", i):
                out.append(T("ForwardSlash", "/"))
                slot += 1
                i += 1
            elif rest.startswith("<L>", i):
                out.append(T("Number", lo)); want_lo = lo; i += 3
            elif rest.startswith("<U>", i):
                out.append(T("Number", up)); want_up = up; i += 3
            elif rest.startswith("inf", i):
                out.append(T("Identifier", "inf"))
                if slot == 1:
                    want_lo = -math.inf
                else:
                    want_up = math.inf
                i += 3
            else:
                raise AnalysisError(f"emitter shape {shape!r} not understood at {rest[i:]!r}")
        return out, (v, math.nan if want_lo is None else want_lo, math.nan if want_up is None else want_up, fixed)
    problems: List[str] = []
    n = 0
    for sa_, sb_ in itertools.product(shapes, repeat=2):
        for label in (None, "lbl"):
            n += 1
            ea, wa = entry("A", sa_)
            eb, wb = entry("B", sb_)
            stream = [T("LCurly", "{")] + ea + [T("Comma", ",")] + eb + ([T("Colon", ":"), T("Label", label)] if label else []) + [T("RCurly", "}"), T("Identifier", "R")]
            me = Obj(Mini(g), methods, {"_tokens": list(stream), "_stack": [], "_valid_elements": {}})
            try:
                out = Mini(g).call_bound(fi, me, (Cls,), {})
                got: Any = tuple(out)
                left = list(me._tokens)
            except InterpRaise as e:
                got, left = e.kind, []
            want = (label or "", {"A": wa[0], "B": wb[0]}, {"A": wa[1], "B": wb[1]}, {"A": wa[2], "B": wb[2]}, {"A": wa[3], "B": wb[3]}, {})
            ok = isinstance(got, tuple) and len(got) == 6 and got[0] == want[0] and got[5] == {} and len(left) == 1 \
                and all(set(got[i]) == {"A", "B"} and all(_same(got[i][k], want[i][k]) for k in "AB") for i in (1, 2, 3, 4))
            if not ok and len(problems) < 3:
                problems.append(f"block {{A{sa_[3:]},B{sb_[3:]}{':lbl' if label else ''}}} as the emitter writes it is read back as {got if isinstance(got, str) else [got[0]] + [dict(x) for x in got[1:5]]} instead of {[want[0]] + list(want[1:5])}")
    # label only, and empty braces
    for stream, want0 in (([T("LCurly", "{"), T("Colon", ":"), T("Label", "lbl"), T("RCurly", "}")], "lbl"),):
        n += 1
        me = Obj(Mini(g), methods, {"_tokens": list(stream), "_stack": [], "_valid_elements": {}})
        try:
            out = tuple(Mini(g).call_bound(fi, me, (Cls,), {}))
            if out[0] != want0 or out[1] != {}:
                problems.append(f"`{{:lbl}}` is read back as {out[:2]}")
        except InterpRaise as e:
            problems.append(f"`{{:lbl}}` raises {e.kind}")
    return problems, n


def allowed_error_kinds(ctx) -> set:
    """Names of the library's parsing/tokenizing exception classes (transitively), plus ValueError."""
    tree = ctx.repo.modules[EXC].tree
    bases = {st.name: [ast.unparse(b) for b in st.bases] for st in tree.body if isinstance(st, ast.ClassDef)}
    ok = {"ValueError"}
    changed = True
    roots = {"ParsingError", "TokenizingError"}
    ok |= roots & set(bases)
    while changed:
        changed = False
        for n, bs in bases.items():
            if n not in ok and any(b in ok - {"ValueError"} for b in bs):
                ok.add(n)
                changed = True
    return ok


def run_param_malformed(ctx, model, max_len: int = 4):
    """Every token sequence up to max_len over the token kinds that can follow `key = value` is fed to Parser.param: it must
    return or raise one of the library's parsing errors / ValueError — never an IndexError, TypeError, KeyError, …"""
    toks, g, methods = build(ctx, model)
    T = lambda name, v=None: toks[name](v)
    allowed = allowed_error_kinds(ctx)
    alphabet = [lambda: T("ForwardSlash", "/"), lambda: T("Number", 2.0), lambda: T("Percent", "%"), lambda: T("Identifier", "inf"), lambda: T("Identifier", "x"),
                lambda: T("Comma", ","), lambda: T("RCurly", "}"), lambda: T("Colon", ":"), lambda: T("Equals", "=")]
    fi = methods["param"]
    n = 0
    bad = None
    for L in range(0, max_len + 1):
        for combo in itertools.product(range(len(alphabet)), repeat=L):
            n += 1
            stream = [T("Number", 5.0)] + [alphabet[i]() for i in combo]
            me = Obj(Mini(g), methods, {"_tokens": list(stream), "_stack": [], "_valid_elements": {}})
            try:
                Mini(g).call_bound(fi, me, (Element, T("Identifier", "A")), {})
            except InterpRaise as e:
                if e.kind not in allowed and bad is None:
                    bad = (" ".join(repr(t) for t in stream), e.kind)
    return bad, n
