"""C04 — parse_cdc is total: a circuit, or a parsing/tokenizing error (or a
ValueError with a message); no other exception type escapes.

Escape analysis over the call graph from parse_cdc under an explicit model of
raisers: explicit `raise` sites (typed through the exceptions.py hierarchy),
cursor accesses, uses of Optional results, a short catalogue of implicit
raisers, and input-controlled recursion."""
from __future__ import annotations

import ast
from typing import Dict, List, Optional, Set, Tuple

from ..cfg import dominating_conditions, flatten_conditions, stmt_of, block_of
from ..core import AnalysisError, Ctx, calls_in, dotted, enclosing, norm, parent, walk_ordered
from ..effects import Reach, exc_is, handlers_enclosing
from ..model import get_model

LEVEL = "other"
CIRC = "pyimpspec.circuit"
FALLBACK = {f"{CIRC}.{m}" for m in ("base", "parser", "tokenizer", "series", "parallel", "circuit")}
ROOT = f"{CIRC}:parse_cdc"

# (function, exception, first guard) -> reason the site cannot be reached from parse_cdc(<str>)
TRIAGE: Dict[str, str] = {
    "parse_cdc:TypeError:not (isinstance(cdc, str))":
        "outside the quantifier: inputs are strings",
    "Parser.__init__:TypeError:not (isinstance(self._valid_elements, dict))":
        "get_elements() builds and returns a dict display (checked: its return value is a dict comprehension)",
    "get_elements:TypeError:not (_is_boolean(default_only))":
        "called with the constant default default_only=False (constant propagation)",
    "Connection.__init__:TypeError:not (isinstance(elements, list))":
        "every Series/Parallel construction in the parser passes a list display or a local list (checked by R4.7)",
    "Container.__init__:TypeError:not (isinstance(value, Connection))":
        "sub-circuit values come from Parser.subcircuit, whose returns are Series(...), None or a value narrowed by isinstance(con, Connection)",
    "Element.__init__:InvalidParameterKey:kwargs":
        "Parser.parameters admits a key only if it is in the class's parameter/sub-circuit key lists (InvalidParameterDefinition otherwise)",
    "Element.set_fixed:KeyError:key in pairs":
        "needs positional arguments; the parser calls the setters with keywords only (checked by R4.7)",
    "Element.set_lower_limits:KeyError:key in pairs":
        "needs positional arguments; the parser calls the setters with keywords only (checked by R4.7)",
    "Element.set_upper_limits:KeyError:key in pairs":
        "needs positional arguments; the parser calls the setters with keywords only (checked by R4.7)",
    "Element.set_fixed:KeyError:key not in self._parameter_fixed":
        "keys were validated by Parser.parameters against the class's parameter keys",
    "Element.set_lower_limits:KeyError:key not in self._parameter_lower_limit":
        "keys were validated by Parser.parameters against the class's parameter keys",
    "Element.set_upper_limits:KeyError:key not in self._parameter_upper_limit":
        "keys were validated by Parser.parameters against the class's parameter keys",
    "Element.set_fixed:TypeError:not (_is_boolean(value))":
        "the flag is isinstance(value, FixedNumber), a bool",
    "Element.set_label:TypeError:not (isinstance(label, str))":
        "the label is '' or the str value of a Label token",
    "Circuit.__init__:TypeError:not (all(map(lambda e: isinstance(e, Element), elements)))":
        "Parser.process passes a Series (first isinstance arm)",
    "Circuit.__init__:TypeError:not (isinstance(elements, list))":
        "Parser.process passes a Series (first isinstance arm)",
    "Parser.process:TypeError:not (isinstance(elem, Element))":
        "stack holds only elements/connections once every connection frame has popped its own opening token (C03 R3.3)",
    "Parser.connection:TypeError:not (all(map(lambda _: isinstance(_, Element) or isinstance(_, Connection), items)))":
        "items are popped down to this frame's own opening token; frames are local (C03 R3.3)",
    "Parser.subcircuit:TypeError:token is None":
        "dominated by self.accept(Identifier), which is False on an empty buffer",
    "Parser.subcircuit:TypeError:isinstance(con, Token)":
        "Parser.connection always pushes an Element or Connection last",
    "Parser.subcircuit:TypeError:not (isinstance(con, Connection))":
        "con is an Element (wrapped just above) or a Connection pushed by Parser.connection",
    "Parser.subcircuit:TypeError:not (isinstance(con, Element))":
        "REQUIRES self.get_stack_length() > stack_length :: only this frame's own pushes are popped (the loop runs while the "
        "stack is deeper than on entry); main_loop leaves only elements/connections above the saved depth",
    "Parser._v0_migrator.replace_element_parameters:TypeError:not (isinstance(new_tokens[-1], RCurly))":
        "version-0 migrator: unreachable from parse_cdc (version=-1 by constant propagation)",
}


def _allowed(model, site) -> bool:
    name = site.exc
    if name == "<reraise>":
        return True
    if exc_is(model, site.fi.module, name, "ParsingError") or exc_is(model, site.fi.module, name, "TokenizingError"):
        return True
    if name == "ValueError":
        exc = site.node.exc
        return isinstance(exc, ast.Call) and len(exc.args) >= 1  # carries an explanation
    return False


BUFFERS = ("self._chars", "self._tokens", "self._stack")


def _nonempty_guard(buf: str, conds: List[Tuple[ast.expr, bool]], index: Optional[ast.AST]) -> Optional[str]:
    idx = norm(index) if index is not None else "0"
    for c, pol in conds:
        t = norm(c)
        if t == buf and pol:
            return t
        if t in (f"len({buf}) == 0", f"len({buf}) < 1", f"not {buf}") and not pol:
            return f"not ({t})"
        if t in (f"len({buf}) > 0", f"len({buf}) >= 1", f"len({buf}) != 0") and pol:
            return t
        if t == f"len({buf}) < {idx} + 1" and not pol:
            return f"not ({t})"
        if t == f"len({buf}) < abs({idx})" and not pol:
            return f"not ({t})"
    return None


def _mutates_between(loop: ast.While, stmt: ast.stmt, buf: str) -> bool:
    """Does the loop body pop/clear `buf` before reaching stmt (same iteration)?"""
    for s in loop.body:
        if s is stmt or any(x is stmt for x in ast.walk(s)):
            # statements inside s before stmt are not examined (conservative: examine s's own text up to stmt)
            return False
        for c in calls_in(s):
            if isinstance(c.func, ast.Attribute) and c.func.attr in ("pop", "clear", "pop_token", "pop_stack", "pop") \
                    and (norm(c.func.value) == buf or norm(c.func.value) == "self"):
                return True
    return False


def check(ctx: Ctx) -> None:
    model = get_model(ctx.repo)
    ctx.rule("R4.1", "every raise reachable from parse_cdc is a ParsingError/TokenizingError subclass or ValueError(msg), or is triaged infeasible with a reason")
    ctx.rule("R4.2", "every subscript/pop on the scanner and parser buffers is dominated by a non-emptiness test on the same buffer (in the function or at all call sites)")
    ctx.rule("R4.3", "a value returned by an Optional-annotated function (peek) is used as operand of `in <str>`, attribute base or subscript base only under an `is not None` guard")
    ctx.rule("R4.4", "implicit raisers: int(<float>) needs an upper-bound/finiteness guard; dict[key] and list.remove(x) in parser/tokenizer need a dominating membership test")
    ctx.rule("R4.5", "input-controlled recursion (call-graph cycles reachable from parse_cdc) is under a handler that converts RecursionError, or carries a depth bound")
    ctx.rule("R4.8", "containers the parser consumes with remove/pop/clear are fresh per call (no state shared between elements): valid codes cannot be rejected because of earlier elements")
    ctx.rule("R4.9", "scanner/parser state is per call: parse_cdc and CircuitBuilder.to_circuit use a fresh Parser(), Parser.process a fresh Tokenizer(); no module-level instances")
    ctx.rule("R4.6", "callers guarding parse_cdc: exception types they let through (informational)")
    ctx.rule("R4.7", "side conditions of the triage table: parser constructs connections from lists and calls the element setters with keywords only")
    ctx.assumptions += [
        "explicit raise statements plus the catalogued implicit raisers (None operands, empty-buffer access, int(inf), missing dict key, list.remove) are the exceptions the scanner/parser can produce; MemoryError and interpreter limits other than recursion are out of scope",
        "method calls on receivers of unknown static type are resolved to every same-named method in circuit/{base,parser,tokenizer,series,parallel,circuit}.py (over-approximation)",
    ]
    r = Reach(model, [ROOT], FALLBACK)
    for q in r.reached:
        ctx.modules_consulted.add(model.funcs[q].module)
    n_funcs = len([q for q in r.reached if "exceptions" not in q])
    if n_funcs < 35:
        raise AnalysisError(f"only {n_funcs} functions reachable from parse_cdc (floor 35): call resolution broke")
    ctx.extra_cov["reachable_functions"] = n_funcs
    ctx.extra_cov["constant_parameters"] = {q.split(":")[1]: v for q, v in r.const.items() if v and "exceptions" not in q}

    # R4.1 -----------------------------------------------------------------
    sites = r.raise_sites()
    used_triage: Set[str] = set()
    for s in sites:
        if s.fi.module == "pyimpspec.exceptions":
            continue
        caught = handlers_enclosing(s.node)
        ctx.instance("R4.1", f"{s.fi.qual}: raise {s.exc} [{s.guards[0] if s.guards else 'unconditional'}]")
        if _allowed(model, s):
            ctx.ok()
            continue
        if s.key in TRIAGE:
            reason = TRIAGE[s.key]
            need = reason.split(" :: ")[0][len("REQUIRES "):] if reason.startswith("REQUIRES ") else None
            if need is None or need in s.guards:
                used_triage.add(s.key)
                ctx.ok()
                continue
        if any(s.exc in names or "Exception" in names or "BaseException" in names for names in caught):
            ctx.ok()
            continue
        ctx.violation("R4.1", s.key, s.fi.module, s.node,
                      f"raise {s.exc} is reachable from parse_cdc under [{' and '.join(s.guards[:3]) or 'no guard'}]: "
                      f"not a parsing/tokenizing error nor ValueError(msg), and not triaged as infeasible")
    ctx.floor("R4.1", 45)
    ctx.extra_cov["triage_rows_used"] = sorted(used_triage)

    # R4.7 side conditions ----------------------------------------------------------
    parser_funcs = [model.funcs[q] for q in r.reached if model.funcs[q].module == f"{CIRC}.parser"]
    for fi in parser_funcs:
        lt = r.local_types(fi)
        for c in r.live_calls(fi):
            f = c.func
            is_conn_ctor = False
            if isinstance(f, ast.Name):
                res = model.resolve(fi.module, f.id)
                if res and res[0] == "class" and model.is_subclass(res[1], f"{CIRC}.base:Connection"):
                    is_conn_ctor = True
                if f.id in lt and lt[f.id][1] and model.is_subclass(lt[f.id][0], f"{CIRC}.base:Connection"):
                    is_conn_ctor = True
            if is_conn_ctor:
                ctx.instance("R4.7", f"{fi.qual}: {norm(c)[:50]}")
                a = c.args[0] if c.args else None
                ok = isinstance(a, ast.List)
                if isinstance(a, ast.Name):
                    # local bound to a list display / annotated List[...]
                    for n in walk_ordered(fi.node):
                        if isinstance(n, ast.AnnAssign) and isinstance(n.target, ast.Name) and n.target.id == a.id \
                                and norm(n.annotation).startswith("List["):
                            ok = True
                if ok:
                    ctx.ok()
                else:
                    ctx.violation("R4.7", f"{fi.qual}:connection-from-non-list:{norm(c)[:40]}", fi.module, c,
                                  f"{norm(c)[:60]}: a connection is constructed from something that is not visibly a list")
            if isinstance(f, ast.Attribute) and f.attr in ("set_fixed", "set_lower_limits", "set_upper_limits", "set_values"):
                ctx.instance("R4.7", f"{fi.qual}: {f.attr} keywords only")
                if c.args:
                    ctx.violation("R4.7", f"{fi.qual}:{f.attr}:positional", fi.module, c,
                                  f"{f.attr} called with positional pairs: the KeyError/ValueError pair-parsing paths become reachable")
                else:
                    ctx.ok()
    ge = model.fi(f"{CIRC}.registry", "get_elements")
    rets = [n for n in walk_ordered(ge.node) if isinstance(n, ast.Return)]
    ctx.instance("R4.7", "get_elements returns a dict")
    ok = False
    if len(rets) == 1 and isinstance(rets[0].value, ast.Name):
        nm = rets[0].value.id
        for n in walk_ordered(ge.node):
            if isinstance(n, (ast.AnnAssign, ast.Assign)):
                t = n.target if isinstance(n, ast.AnnAssign) else n.targets[0]
                if isinstance(t, ast.Name) and t.id == nm and isinstance(n.value, (ast.DictComp, ast.Dict)):
                    ok = True
    elif len(rets) == 1 and isinstance(rets[0].value, (ast.DictComp, ast.Dict)):
        ok = True
    # the declared return type is the contract for any other shape (e.g. a copy of a cached table)
    if not ok and ge.node.returns is not None and norm(ge.node.returns).startswith("Dict["):
        ok = all(isinstance(r_.value, (ast.Call, ast.Name, ast.Dict, ast.DictComp, ast.Subscript)) for r_ in rets)
    if ok:
        ctx.ok()
    else:
        ctx.violation("R4.7", "get_elements:not-a-dict", ge.module, ge.node, "get_elements no longer visibly returns a dict")

    # R4.9 parser state is per call ------------------------------------------------------
    for mod_, qual_ in ((CIRC, "parse_cdc"), (f"{CIRC}.circuit_builder", "CircuitBuilder.to_circuit")):
        pf = model.fi(mod_, qual_)
        ctx.instance("R4.9", f"{qual_} parses with a Parser of its own")
        rets_ = [n for n in walk_ordered(pf.node) if isinstance(n, ast.Return) and n.value is not None]
        ok_ = bool(rets_) and all(norm(r_.value).startswith("Parser().process(") for r_ in rets_ if "process(" in norm(r_.value)) \
            and any("process(" in norm(r_.value) for r_ in rets_)
        if ok_:
            ctx.ok()
        else:
            ctx.violation("R4.9", f"{qual_}:shared-parser", mod_, pf.node,
                          f"{qual_} does not parse with a fresh Parser(): token buffer and stack left behind by a rejected input can leak into the next call "
                          f"(TypeError, or silently wrong circuits)")
    shared = [n for m_ in ctx.repo.modules.values() for n in m_.tree.body if isinstance(n, (ast.Assign, ast.AnnAssign)) and n.value is not None
              and isinstance(n.value, ast.Call) and dotted(n.value.func) in ("Parser", "Tokenizer")]
    ctx.instance("R4.9", "no module-level Parser/Tokenizer instance")
    if shared:
        ctx.violation("R4.9", "module-level-parser", CIRC, shared[0], "a Parser/Tokenizer instance is kept at module level: its cursor state survives between calls")
    else:
        ctx.ok()
    ps = model.fi(f"{CIRC}.parser", "Parser.process")
    ctx.instance("R4.9", "Parser.process creates a Tokenizer per call")
    if any(isinstance(n, (ast.Assign, ast.AnnAssign)) and n.value is not None and norm(n.value) == "Tokenizer()" for n in walk_ordered(ps.node)):
        ctx.ok()
    else:
        ctx.violation("R4.9", "Parser.process:shared-tokenizer", f"{CIRC}.parser", ps.node, "Parser.process does not tokenize with a fresh Tokenizer()")

    # R4.2 cursor guards ---------------------------------------------------------------
    callers: Dict[str, List[Tuple[object, ast.Call]]] = {}
    for q in r.reached:
        fi = model.funcs[q]
        for c in r.live_calls(fi):
            for t in r.targets(fi, c):
                callers.setdefault(t, []).append((fi, c))
    n_access = 0
    for q in sorted(r.reached):
        fi = model.funcs[q]
        if fi.module not in (f"{CIRC}.parser", f"{CIRC}.tokenizer"):
            continue
        for n in r.live(fi):
            buf = idx = None
            if isinstance(n, ast.Subscript) and isinstance(n.ctx, ast.Load) and norm(n.value) in BUFFERS \
                    and not isinstance(n.slice, ast.Slice):
                buf, idx = norm(n.value), n.slice
            elif isinstance(n, ast.Call) and isinstance(n.func, ast.Attribute) and n.func.attr == "pop" \
                    and norm(n.func.value) in BUFFERS:
                buf, idx = norm(n.func.value), (n.args[0] if n.args else None)
            if buf is None:
                continue
            n_access += 1
            ctx.instance("R4.2", f"{fi.qual}: {norm(n)}")
            conds = flatten_conditions(dominating_conditions(n))
            g = _nonempty_guard(buf, conds, idx)
            if g is not None:
                wl = [c for c, pol in conds if norm(c) == buf and pol]
                loop = enclosing(n, ast.While)
                if loop is not None and norm(loop.test) == buf and g == buf and _mutates_between(loop, stmt_of(n), buf):
                    g = None
            if g is None:
                # one level up: every call site dominated by a guard
                sites_ = callers.get(q, [])
                if sites_ and all(_nonempty_guard(buf, flatten_conditions(dominating_conditions(c)), idx) for _, c in sites_):
                    g = "guarded at all call sites"
            if g is None:
                ctx.violation("R4.2", f"{fi.qual}:{norm(n)}", fi.module, n,
                              f"{norm(n)} is not dominated by a non-emptiness test on {buf}: IndexError on exhausted input")
            else:
                ctx.ok()
    if n_access < 8:
        raise AnalysisError(f"R4.2: only {n_access} cursor accesses found (floor 8)")

    # R4.3 Optional results ---------------------------------------------------------------------
    str_consts = {"digits", "ascii_letters", "ascii_lowercase", "ascii_uppercase", "whitespace"}
    n_opt = 0
    for q in sorted(r.reached):
        fi = model.funcs[q]
        if fi.module not in (f"{CIRC}.parser", f"{CIRC}.tokenizer"):
            continue
        # names bound to an Optional call
        opt_names: Dict[str, ast.Call] = {}
        for n in r.live(fi):
            if isinstance(n, (ast.Assign, ast.AnnAssign)) and n.value is not None and isinstance(n.value, ast.Call):
                t = n.targets[0] if isinstance(n, ast.Assign) else n.target
                if isinstance(t, ast.Name) and _is_optional_call(model, r, fi, n.value):
                    opt_names[t.id] = n.value

        def is_opt(e: ast.AST) -> Optional[str]:
            if isinstance(e, ast.Call) and _is_optional_call(model, r, fi, e):
                return norm(e)
            if isinstance(e, ast.Name) and e.id in opt_names:
                return e.id
            return None

        for n in r.live(fi):
            use = None
            operand = None
            if isinstance(n, ast.Compare) and len(n.ops) == 1 and isinstance(n.ops[0], (ast.In, ast.NotIn)):
                right = n.comparators[0]
                is_str = (isinstance(right, ast.Constant) and isinstance(right.value, str)) or \
                         (isinstance(right, ast.Name) and (right.id in str_consts or right.id == "valid_chars")) or \
                         (isinstance(right, ast.BinOp))
                if is_str and is_opt(n.left):
                    use, operand = f"{norm(n)}", n.left
            elif isinstance(n, ast.Attribute) and is_opt(n.value):
                use, operand = norm(n), n.value
            elif isinstance(n, ast.Subscript) and is_opt(n.value):
                use, operand = norm(n), n.value
            if use is None:
                continue
            n_opt += 1
            name = is_opt(operand)
            ctx.instance("R4.3", f"{fi.qual}: {use}")
            conds = flatten_conditions(dominating_conditions(n))
            guarded = False
            for c, pol in conds:
                t = norm(c)
                if (t == f"{name} is not None" and pol) or (t == f"{name} is None" and not pol):
                    guarded = True
                # `type(x) is Cls` / isinstance narrowings also exclude None
                if pol and (t.startswith(f"type({name}) is ") or t.startswith(f"isinstance({name}, ")):
                    guarded = True
            if not guarded and isinstance(operand, ast.Name):
                # x = self.peek(0) at function start, all callers guarantee a non-empty buffer
                call = opt_names[operand.id]
                first = fi.node.body[0]
                is_first = any(x is call for x in ast.walk(first))
                zero = call.args and norm(call.args[0]) == "0"
                buf = "self._chars" if fi.module.endswith("tokenizer") else "self._tokens"
                sites_ = callers.get(q, [])
                reassigned = sum(1 for m in walk_ordered(fi.node) if isinstance(m, (ast.Assign, ast.AnnAssign))
                                 and norm(m.targets[0] if isinstance(m, ast.Assign) else m.target) == operand.id) > 1
                if is_first and zero and not reassigned and sites_ and all(
                        _nonempty_guard(buf, flatten_conditions(dominating_conditions(c)), None) for _, c in sites_):
                    guarded = True
            if guarded:
                ctx.ok()
            else:
                ctx.violation("R4.3", f"{fi.qual}:{use}", fi.module, n,
                              f"{use}: operand may be None (result of an Optional-annotated call) and is used without an `is not None` guard → TypeError/AttributeError")
    if n_opt < 5:
        raise AnalysisError(f"R4.3: only {n_opt} uses of Optional results found (floor 5)")

    # R4.4 implicit raisers ---------------------------------------------------------------------------
    n_imp = 0
    for q in sorted(r.reached):
        fi = model.funcs[q]
        if fi.module not in (f"{CIRC}.parser", f"{CIRC}.tokenizer"):
            continue
        for n in r.live(fi):
            if isinstance(n, ast.Call) and isinstance(n.func, ast.Name) and n.func.id == "int" and n.args \
                    and not isinstance(n.args[0], ast.Constant):
                n_imp += 1
                arg = norm(n.args[0])
                ctx.instance("R4.4", f"{fi.qual}: int({arg})")
                conds = flatten_conditions(dominating_conditions(n))
                ok = _bounded_above(arg, conds) or any(
                    "OverflowError" in names or "ArithmeticError" in names or "Exception" in names for names in handlers_enclosing(n))
                if ok:
                    ctx.ok()
                else:
                    ctx.violation("R4.4", f"{fi.qual}:int({arg})", fi.module, n,
                                  f"int({arg}) on a float taken from the input without an upper-bound/finiteness guard: OverflowError for e.g. 1e999")
            if isinstance(n, ast.Subscript) and isinstance(n.ctx, ast.Load) and not isinstance(n.slice, (ast.Slice, ast.Constant)) \
                    and norm(n.value) not in BUFFERS and _dict_like(fi, n.value):
                n_imp += 1
                d, k = norm(n.value), norm(n.slice)
                ctx.instance("R4.4", f"{fi.qual}: {d}[{k}]")
                conds = flatten_conditions(dominating_conditions(n))
                ok = any((norm(c) == f"{k} in {d}" and pol) or (norm(c) == f"{k} not in {d}" and not pol) for c, pol in conds)
                if ok:
                    ctx.ok()
                else:
                    ctx.violation("R4.4", f"{fi.qual}:{d}[{k}]", fi.module, n,
                                  f"{d}[{k}] is not dominated by a membership test of {k} in {d}: KeyError")
            if isinstance(n, ast.Call) and isinstance(n.func, ast.Attribute) and n.func.attr == "remove" and len(n.args) == 1:
                n_imp += 1
                d, k = norm(n.func.value), norm(n.args[0])
                ctx.instance("R4.4", f"{fi.qual}: {d}.remove({k})")
                conds = flatten_conditions(dominating_conditions(n))
                ok = any((norm(c) == f"{k} in {d}" and pol) or (norm(c) == f"{k} not in {d}" and not pol) for c, pol in conds)
                if ok:
                    ctx.ok()
                else:
                    ctx.violation("R4.4", f"{fi.qual}:{d}.remove({k})", fi.module, n,
                                  f"{d}.remove({k}) is not dominated by a membership test: ValueError without explanation is tolerated, but this one is an internal inconsistency")
    if n_imp < 4:
        raise AnalysisError(f"R4.4: only {n_imp} implicit-raiser sites found (floor 4)")
    # R4.10: bounded-exhaustive interpretation of the parameter rule on malformed token tails
    ctx.rule("R4.10", "Parser.param, interpreted (its AST) on every token sequence up to the bound over the token kinds that can follow `key = value`, returns or raises a parsing error / ValueError — never an IndexError, TypeError, KeyError or AttributeError")
    try:
        from ._parser_interp import run_param_malformed
        badp, n_streams = run_param_malformed(ctx, model, 5 if ctx.tier == "thorough" else 4)
        ctx.instance("R4.10", f"Parser.param on {n_streams} token tails (all sequences up to length {5 if ctx.tier == 'thorough' else 4} over 9 token kinds)")
        if badp is None:
            ctx.ok()
        else:
            ctx.violation("R4.10", f"Parser.param:escapes:{badp[1]}", f"{CIRC}.parser", model.fi(f"{CIRC}.parser", "Parser.param").node,
                          f"on the token stream [{badp[0]}] Parser.param raises {badp[1]}, which is neither a parsing error nor ValueError: parse_cdc is not total on malformed parameter limits")
    except AnalysisError as e:
        ctx.note(f"Parser.param not interpretable ({e})")
    # R4.8: containers the parser consumes (remove/pop/clear) are built fresh in the same call
    n_fresh = 0
    from ..prov import assignments
    from ..effects import _is_fresh_value
    for q in sorted(r.reached):
        fi = model.funcs[q]
        if fi.module != f"{CIRC}.parser":
            continue
        for n in r.live(fi):
            if isinstance(n, ast.Call) and isinstance(n.func, ast.Attribute) and n.func.attr in ("remove", "pop", "clear") \
                    and isinstance(n.func.value, ast.Name) and n.func.value.id not in ("self",):
                nm = n.func.value.id
                binds = [b for b in assignments(fi.node, nm) if b[2] in ("assign", "unpack")]
                if not binds:
                    continue  # a parameter: owned by the caller
                n_fresh += 1
                ctx.instance("R4.8", f"{fi.qual}: {nm}.{n.func.attr}(…) consumes a list built in this call")
                stale = [b for b in binds if b[1] is not None or not _is_fresh_value(b[0].value, nm)]
                if stale:
                    ctx.violation("R4.8", f"{fi.qual}:{nm}:shared", fi.module, stale[0][0],
                                  f"{fi.qual} consumes `{nm}` with .{n.func.attr}(), but `{nm}` is bound to {norm(stale[0][0].value)[:60]} — not a list built "
                                  f"in this call: state shared between elements is depleted, and later valid elements of the same class are rejected")
                else:
                    ctx.ok()
    if n_fresh < 2:
        raise AnalysisError(f"R4.8: only {n_fresh} consumed local containers found in the parser (floor 2)")

    # R4.5 recursion --------------------------------------------------------------------------------------
    cyc = [c for c in r.cycles() if any(model.funcs[q].module.startswith(CIRC) for q in c)]
    for c in cyc:
        names = [q.split(":")[1] for q in c]
        ctx.instance("R4.5", "cycle " + " ↔ ".join(names))
        if _recursion_converted(model, r, c):
            ctx.ok()
        else:
            ctx.violation("R4.5", "recursion:" + ",".join(names), model.funcs[c[0]].module, model.funcs[c[0]].node,
                          f"input-controlled recursion through {names} has neither a depth bound nor a handler converting RecursionError on the path from parse_cdc")
    if not cyc:
        raise AnalysisError("R4.5: the recursive-descent cycle of the parser was not found (floor 1)")

    # R4.6 callers (informational) ---------------------------------------------------------------------------
    for mname, mod in ctx.repo.modules.items():
        for n in walk_ordered(mod.tree, into_functions=True):
            if isinstance(n, ast.Call) and dotted(n.func).split(".")[-1] == "parse_cdc":
                h = handlers_enclosing(n)
                if h:
                    ctx.instance("R4.6", f"{mname}:{n.lineno} catches {h[0]}")
                    ctx.note(f"caller {mname}:{n.lineno} guards parse_cdc with except {h[0]}")
    ctx.sample({"raise_site": sites[0].key, "allowed": True})
    ctx.sample({"cycle": [q.split(':')[1] for q in cyc[0]]})


def _is_optional_call(model, r, fi, call: ast.Call) -> bool:
    for t in r.targets(fi, call):
        f = model.funcs.get(t)
        if f is not None and f.node.returns is not None and norm(f.node.returns).startswith("Optional["):
            return True
    return False


def _bounded_above(arg: str, conds) -> bool:
    for c, pol in conds:
        t = norm(c)
        if pol and (t.startswith("isfinite(") and arg in t):
            return True
        if not pol and (t.startswith("isinf(") and arg in t):
            return True
        if isinstance(c, ast.Compare) and pol:
            # arg <= X or arg < X somewhere in the (possibly chained) comparison
            operands = [c.left] + list(c.comparators)
            for i, op in enumerate(c.ops):
                if isinstance(op, (ast.Lt, ast.LtE)) and norm(operands[i]) == arg:
                    return True
                if isinstance(op, (ast.Gt, ast.GtE)) and norm(operands[i + 1]) == arg:
                    return True
    return False


def _dict_like(fi, node: ast.AST) -> bool:
    """Names/attributes annotated Dict[...] in this function or class __init__."""
    t = norm(node)
    if t.startswith("self._") and ("elements" in t or "characters" in t):
        return True
    for n in walk_ordered(fi.node):
        if isinstance(n, ast.AnnAssign) and norm(n.target) == t and norm(n.annotation).startswith("Dict["):
            return True
    for a in fi.node.args.args:
        if a.arg == t and a.annotation is not None and norm(a.annotation).startswith("Dict["):
            return True
    return False


def _recursion_converted(model, r: Reach, cycle: List[str]) -> bool:
    """A try/except RecursionError encloses the call into the cycle somewhere on
    every path from the root, or a function of the cycle compares a depth
    counter and raises."""
    cyc = set(cycle)
    # depth bound inside the cycle: every recursive path must go through a function that checks the bound,
    # i.e. removing the bounded functions from the cycle must leave no cycle
    bounded = set()
    for q in cycle:
        fi = model.funcs[q]
        for n in walk_ordered(fi.node):
            if isinstance(n, ast.If) and any("depth" in norm(x).lower() or "nest" in norm(x).lower() for x in [n.test]) \
                    and any(isinstance(s, ast.Raise) for s in n.body):
                bounded.add(q)
    if bounded:
        import networkx as nx
        g = nx.DiGraph()
        for a in cycle:
            for b in r.edges.get(a, ()):
                if b in cyc and a not in bounded and b not in bounded:
                    g.add_edge(a, b)
        if not any(len(c) > 1 or g.has_edge(next(iter(c)), next(iter(c))) for c in nx.strongly_connected_components(g)):
            return True
    # handler on the way in: remove functions whose calls toward the cycle are all inside try/except RecursionError
    def call_guarded(fi, call) -> bool:
        return any(any(x in names for x in ("RecursionError", "RuntimeError", "Exception", "BaseException"))
                   for names in handlers_enclosing(call))

    # BFS from root over edges that are NOT guarded; if the cycle is still reachable, not converted
    seen = set()
    stack = [ROOT]
    while stack:
        q = stack.pop()
        if q in seen or q not in model.funcs:
            continue
        seen.add(q)
        if q in cyc:
            return False
        fi = model.funcs[q]
        for c in r.live_calls(fi):
            if call_guarded(fi, c):
                continue
            for t in r.targets(fi, c):
                stack.append(t)
    return True
