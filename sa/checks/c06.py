"""C06 — writing a spectrum to a supported layout and parsing it returns it
(partial: the repository's own tables and dataflow; pandas' tokenising of the
text is trusted)."""
from __future__ import annotations

import ast
import re
from typing import Dict, List, Optional, Tuple

from ..cfg import dominating_conditions, stmt_of
from ..core import AnalysisError, Ctx, calls_in, dotted, enclosing, norm, parent, walk_ordered
from ..model import get_model

LEVEL = "other"
DS = "pyimpspec.data.data_set"
DATA = "pyimpspec.data"
FMT = "pyimpspec.data.formats"

# sign of the imaginary column relative to Im(Z) in the instrument layouts: confirmed by reading the
# parsers and their sample headers, one reason each
IMAG_SIGN = {
    "mpt": -1,  # BioLogic: third column is "-Im(Z)/Ohm"
    "p00": -1,  # third column is -Z''
    "dfr": -1,  # Eco Chemie stores -Z''
    "i2b": +1,  # Elchemea: Z'' as is
    "dta": +1,  # Gamry: Zimag as is
}
KEYS = ("frequency", "imaginary", "real", "magnitude", "phase")


def _table(fn: ast.AST) -> List[Tuple[str, List[str]]]:
    for n in walk_ordered(fn):
        if isinstance(n, (ast.Assign, ast.AnnAssign)) and n.value is not None and norm(n.targets[0] if isinstance(n, ast.Assign) else n.target) == "column_names":
            v = n.value
            if isinstance(v, ast.Call) and v.args and isinstance(v.args[0], ast.Dict):
                v = v.args[0]
            if isinstance(v, ast.Dict):
                out = []
                for k, val in zip(v.keys, v.values):
                    if not (isinstance(k, ast.Constant) and isinstance(val, ast.List) and all(isinstance(e, ast.Constant) for e in val.elts)):
                        raise AnalysisError("_detect_columns: column_names is not a literal table")
                    out.append((k.value, [e.value for e in val.elts]))
                return out
    raise AnalysisError("_detect_columns: column_names table not found")


class _Frame:
    """Stub of the only thing _detect_columns reads from a DataFrame: its column labels."""

    def __init__(self, columns):
        self.columns = list(columns)


_DC = {}


def detect(table, headers: List[str]):
    """Interpret the repository's _detect_columns (its AST, via sa.miniinterp) on a frame with these headers.
    Returns (indices, negatives) or the name of the exception it raises."""
    from ..miniinterp import InterpRaise, Mini
    try:
        r = Mini(_DC.get("globals")).call_function(_DC["fn"], {"df": _Frame(headers)})
    except InterpRaise as e:
        return e.kind, {}
    return r[0], r[1]


def dd_node(model):
    return model.fi(DS, "dataframe_to_data_sets").node


def _documented_aliases(model) -> Dict[str, List[str]]:
    dd = model.fi(DS, "dataframe_to_data_sets")
    doc = ast.get_docstring(dd.node) or ""
    docmap = {"Frequencies": "frequency", "Real parts": "real", "Imaginary parts": "imaginary", "Magnitudes": "magnitude", "Phases": "phase"}
    out: Dict[str, List[str]] = {}
    for line in doc.splitlines():
        m = re.match(r"\s*-\s*(Frequencies|Real parts|Imaginary parts|Magnitudes|Phases)[^:]*:\s*(.*)$", line)
        if not m:
            continue
        body = m.group(2).replace("\\|", "|")
        names = []
        for tok in body.rstrip(".").split(", "):
            tok = tok.strip()
            if tok.startswith("and "):
                tok = tok[4:].strip()
            if len(tok) >= 3 and tok[0] in "'\"" and tok[-1] in "'\"":
                names.append(tok[1:-1])
        out[docmap[m.group(1)]] = names
    return out


def _documented_table(model) -> List[Tuple[str, List[str]]]:
    d = _documented_aliases(model)
    fix = {"z'": "z''"}  # the docstring writes z'' with mismatched quotes ("z'')
    tab = []
    for k in KEYS:
        al = []
        for a in d.get(k, []):
            a = a.lower()
            if k == "imaginary" and a == "z'":
                a = "z''"
            al.append(a)
        tab.append((k, al))
    if sum(len(a) for _, a in tab) < 15:
        raise AnalysisError("the documented alias list could not be read from dataframe_to_data_sets' docstring")
    return tab


def _interp_extract(ctx: Ctx, model) -> Tuple[List[str], int]:
    """_extract_data interpreted (sa.miniinterp) on small tables: cartesian, polar (radians and degrees) and both sets of
    columns, in several column orders, every subset of negated columns, cells given as numbers or as decimal-comma strings.
    Expected: each quantity parsed from its own column and negated under its own marker only; Re/Im take precedence;
    otherwise Z = rect(|Z|, phase)."""
    import cmath
    import itertools
    import math
    from ..miniinterp import InterpRaise, Mini, module_globals
    from ..nplite import NP_STUBS, NArr
    ed = model.fi(DS, "_extract_data")

    class _DF:
        def __init__(self, rows):
            self.values = rows
            self.columns = []

    class _Cmath:
        rect = staticmethod(cmath.rect)
    st = dict(NP_STUBS)
    st.update({"cmath": _Cmath, "rect": cmath.rect, "deg_to_rad": lambda x: NArr(math.radians(v) for v in x) if isinstance(x, (NArr, list, tuple)) else math.radians(x),
               "radians": lambda x: NArr(math.radians(v) for v in x) if isinstance(x, (NArr, list, tuple)) else math.radians(x), "Phase": float, "Phases": None, "type": type,
               "cos": lambda x: NArr(math.cos(v) for v in x) if isinstance(x, (NArr, list, tuple)) else math.cos(x), "sin": lambda x: NArr(math.sin(v) for v in x) if isinstance(x, (NArr, list, tuple)) else math.sin(x)})
    g = module_globals(ctx.repo.modules[DS].tree, st)
    g.update(st)
    base = {"frequency": [100.0, 10.0, 1.5], "real": [3.0, 4.25, 5.5], "imaginary": [-1.0, -2.5, 0.75], "magnitude": [2.0, 3.5, 4.0], "phase": [-0.5, 0.25, 1.0]}
    problems: List[str] = []
    n = 0
    layouts = [("frequency", "real", "imaginary"), ("imaginary", "frequency", "real"), ("frequency", "magnitude", "phase"), ("phase", "magnitude", "frequency"),
               ("frequency", "magnitude", "phase", "real", "imaginary"), ("real", "frequency", "phase", "imaginary", "magnitude"), ("frequency", "real"), ("frequency", "magnitude", "imaginary")]
    for cols in layouts:
        for neg in itertools.product((False, True), repeat=3):
            for as_text in (False, True):
                for degrees in (False, True):
                    if degrees and "phase" not in cols:
                        continue
                    n += 1
                    negs = dict(zip(("real", "imaginary", "phase"), neg))
                    rows = []
                    for r in range(3):
                        row = []
                        for c in cols:
                            v = base[c][r]
                            row.append(str(v).replace(".", ",") if as_text else v)
                        rows.append(row)
                    args = {"df": _DF(rows), "column_indices": {c: i for i, c in enumerate(cols)}, "negative_columns": {k: negs.get(k, False) for k in ("frequency", "real", "imaginary", "magnitude", "phase")},
                            "path": "p", "degrees": degrees}
                    try:
                        out = Mini(g, max_steps=100000).call_function(ed.node, args)
                        got: Any = [[float(x) for x in col] for col in out]
                    except InterpRaise as e:
                        got = f"raises {e.kind}"
                    sgn = lambda k: -1.0 if negs.get(k) else 1.0
                    if "real" in cols and "imaginary" in cols:
                        want: Any = [base["frequency"], [sgn("real") * v for v in base["real"]], [sgn("imaginary") * v for v in base["imaginary"]]]
                    elif "magnitude" in cols and "phase" in cols:
                        zs = [cmath.rect(m_, (math.radians(sgn("phase") * p_) if degrees else sgn("phase") * p_)) for m_, p_ in zip(base["magnitude"], base["phase"])]
                        want = [base["frequency"], [z.real for z in zs], [z.imag for z in zs]]
                    else:
                        want = "raises ValueError"
                    if isinstance(want, str) and isinstance(got, str) and got.split()[-1] in ("ValueError", "UnsupportedFileFormat", "KeyError"):
                        got = want  # an incomplete set of columns is refused; which of the library's errors is not part of the property
                    same = got == want if isinstance(want, str) or isinstance(got, str) else (len(got) == 3 and all(len(a) == len(b) and all(abs(x - y) <= 1e-12 * max(1.0, abs(y)) for x, y in zip(a, b)) for a, b in zip(got, want)))
                    if not same and len(problems) < 3:
                        problems.append(f"columns {cols}, negated {[k for k, v in negs.items() if v]}, cells as {'decimal-comma text' if as_text else 'numbers'}, degrees={degrees}: "
                                        f"(frequency, real, imaginary) = {got if isinstance(got, str) else [[round(x, 6) for x in c_] for c_ in got]} instead of {want if isinstance(want, str) else [[round(x, 6) for x in c_] for c_ in want]}")
    return problems, n


def check(ctx: Ctx) -> None:
    model = get_model(ctx.repo)
    ctx.modules_consulted.update({DS, DATA, f"{FMT}.csv", f"{FMT}.mpt", f"{FMT}.p00", f"{FMT}.dfr", f"{FMT}.i2b", f"{FMT}.dta", f"{FMT}.z", f"{FMT}.helpers"})
    ctx.rule("R6.1", "alias table: detection is first-match by prefix in table order on the lower-cased, stripped header with an optional leading '-'/'−'; no alias is shadowed by an alternative of an earlier quantity; every documented alias is in the table; the headers the library itself writes (to_dataframe, instrument parsers) are detected as the quantity they hold, unsigned")
    ctx.rule("R6.2", "_extract_data: each quantity is read from its own column, converted with the decimal-comma rule on that same column, negated under its own marker and appended to its own list; polar data become rect(|Z|, phase) with degrees converted; Re/Im take precedence over |Z|/phase")
    ctx.rule("R6.3", "_split_sweeps: constant indices stay inside the length the caller guarantees (a one-point table is a spectrum); frequencies, real and imaginary parts are cut at the same index; the complex value is complex(real, imaginary)")
    ctx.rule("R6.4", "instrument layouts: frequency/real/imaginary come from the layout's columns in that order, the imaginary column carries the layout's sign, decimal commas are accepted")
    ctx.rule("R6.5", "dispatch: each extension selects the parser of that layout; .csv falls back to separator sniffing with a decimal comma; a one-column frame is re-read with tab, space, semicolon, comma")
    ctx.assumptions += ["pandas.read_csv tokenises a delimited table into the header row and cell values it contains", "float(repr(x)) == x"]

    # ---------------- R6.1 ---------------------------------------------------------
    dc = model.fi(DS, "_detect_columns")
    _DC["fn"] = dc.node
    from ..miniinterp import module_globals
    _DC["globals"] = module_globals(ctx.repo.modules[DS].tree)
    try:
        table = _table(dc.node)
    except AnalysisError:
        table = _documented_table(model)
        ctx.note("_detect_columns: no literal alias table inside the function; aliases taken from the documented list in dataframe_to_data_sets")
    ctx.instance("R6.1", f"table order {[k for k, _ in table]}")
    if sorted(k for k, _ in table) == sorted(KEYS):
        ctx.ok()
    else:
        ctx.violation("R6.1", "_detect_columns:keys", DS, dc.node, f"the alias table must cover exactly {KEYS}")
        return
    # every alias, in either case, with either sign marker and a unit suffix, as the first and as the last column
    canon = {k: alts[0] for k, alts in table}
    n_alias = 0
    n_interp = 0
    for key, alts in table:
        for alt in alts:
            n_alias += 1
            ctx.instance("R6.1", f"alias {alt!r} → {key} (both cases, signs '', '-', '−', first and last column)")
            bad = None
            for case in (str.lower, str.upper):
                for sign in ("", "-", "−"):
                    for pos in ("first", "last"):
                        h = sign + case(alt) + " (unit)"
                        others = [canon[k] for k in KEYS if k != key]
                        headers = [h] + others if pos == "first" else others + [h]
                        n_interp += 1
                        idx, neg = detect(table, headers)
                        want_i = 0 if pos == "first" else 4
                        if not isinstance(idx, dict) or idx.get(key) != want_i or neg.get(key) is not (sign != ""):
                            bad = bad or (h, pos, idx, neg)
            if bad is None:
                ctx.ok()
            else:
                h, pos, idx, neg = bad
                ctx.violation("R6.1", f"alias:{key}:{alt}:shadowed", DS, dc.node,
                              f"a column headed {h!r} ({pos} column; a documented spelling of {key}) is detected as {idx} with signs {neg}: it is shadowed by another quantity's alternative or its sign marker is lost")
    if n_alias < 25:
        raise AnalysisError(f"R6.1: only {n_alias} aliases found (floor 25)")
    ctx.note(f"_detect_columns interpreted on {n_interp} header rows")
    # documented aliases: each is recognised as its quantity (interpreted, first column)
    docd = _documented_aliases(model)
    n_doc = 0
    for key, names in docd.items():
        for nm in names:
            n_doc += 1
            ctx.instance("R6.1", f"documented alias {nm!r} of {key}")
            cands = [nm, nm + "'"] if (key == "imaginary" and nm.lower() == "z'") else [nm]
            hit = False
            for c_ in cands:
                others = [canon[k] for k in KEYS if k != key]
                idx, neg = detect(table, [c_] + others)
                if isinstance(idx, dict) and idx.get(key) == 0 and neg.get(key) is False:
                    hit = True
            if hit:
                ctx.ok()
            else:
                ctx.violation("R6.1", f"documented:{key}:{nm}", DS, dd_node(model), f"a column headed with the documented spelling {nm!r} is not detected as {key}")
    if n_doc < 15:
        raise AnalysisError(f"R6.1: only {n_doc} documented aliases parsed from the docstring (floor 15)")
    # the library's own headers
    td = model.fi(DS, "DataSet.to_dataframe")
    cols = [n for n in walk_ordered(td.node) if isinstance(n, ast.Assign) and norm(n.targets[0]) == "columns" and isinstance(n.value, ast.List)]
    if len(cols) != 1:
        raise AnalysisError("to_dataframe: default columns not found")
    headers = [e.value for e in cols[0].value.elts]
    fills = {}
    for n in walk_ordered(td.node):
        if isinstance(n, (ast.Assign, ast.AnnAssign)) and n.value is not None:
            tg = n.targets[0] if isinstance(n, ast.Assign) else n.target
            m = re.match(r"dictionary\[columns\[(\d)\]\]", norm(tg))
            if m:
                fills[int(m.group(1))] = norm(n.value)
            if norm(tg) == "dictionary" and isinstance(n.value, ast.Dict):
                for k, v in zip(n.value.keys, n.value.values):
                    m2 = re.match(r"columns\[(\d)\]", norm(k))
                    if m2:
                        fills[int(m2.group(1))] = norm(v)
    want_fill = {0: ("frequency", "self.get_frequencies(masked=masked)"), 1: ("real", "Z.real"), 2: ("imaginary", "Z.imag * (-1 if negative_imaginary else 1)"),
                 3: ("magnitude", "abs(Z)"), 4: ("phase", "angle(Z, deg=True) * (-1 if negative_phase else 1)")}
    idx, neg = detect(table, headers)
    ctx.instance("R6.1", f"to_dataframe headers {headers} → {idx}")
    good = all(idx.get(k) == i and neg.get(k) is False and fills.get(i) == v for i, (k, v) in want_fill.items())
    zdef = [n for n in walk_ordered(td.node) if isinstance(n, (ast.Assign, ast.AnnAssign)) and n.value is not None and norm(n.targets[0] if isinstance(n, ast.Assign) else n.target) == "Z"]
    good = good and len(zdef) == 1 and norm(zdef[0].value) == "self.get_impedances(masked=masked)"
    dfl = [a for a in td.node.args.args if a.arg in ("negative_imaginary", "negative_phase")]
    dflt = dict(zip([a.arg for a in td.node.args.args][-len(td.node.args.defaults):], td.node.args.defaults))
    good = good and all(isinstance(dflt.get(a.arg), ast.Constant) and dflt[a.arg].value is False for a in dfl) and len(dfl) == 2
    if good:
        ctx.ok()
    else:
        ctx.violation("R6.1", "to_dataframe:headers", DS, td.node,
                      f"the table written by to_dataframe (and printed by the CLI) must be read back as the same quantities: headers {headers} detect as {idx} (signs {neg}), columns hold {fills}")
    # ---------------- R6.4 (frames of the instrument parsers) ------------------------------
    n_fmt = 0
    for fmt in ("mpt", "p00", "dfr", "i2b", "dta"):
        fi = model.fi(f"{FMT}.{fmt}", f"parse_{fmt}")
        frames = [c for c in calls_in(fi.node) if norm(c.func) == "DataFrame.from_dict" and c.args and isinstance(c.args[0], ast.Dict)]
        if not frames:
            raise AnalysisError(f"parse_{fmt}: frame construction not found")
        for fr in frames:
            hs = [k.value for k in fr.args[0].keys]
            vs = [norm(v) for v in fr.args[0].values]
            idx, neg = detect(table, hs)
            ctx.instance("R6.4", f"{fmt}: frame {dict(zip(hs, vs))}")
            role = {"frequency": "freq", "real": "real", "imaginary": "imag"}
            good = all(k in idx and neg[k] is False and role[k] in vs[idx[k]] for k in role) and len(hs) == 3
            if good:
                ctx.ok()
            else:
                ctx.violation("R6.4", f"{fmt}:frame", fi.module, fr, f"parse_{fmt} hands over a frame whose headers {hs} → {idx} do not name the lists they hold {vs}")
        # sources
        apps = {}
        for c in calls_in(fi.node):
            if isinstance(c.func, ast.Attribute) and c.func.attr == "append" and norm(c.func.value) in ("freq", "real", "imag") and c.args:
                apps[norm(c.func.value)] = c.args[0]
        if set(apps) != {"freq", "real", "imag"}:
            raise AnalysisError(f"parse_{fmt}: appends to freq/real/imag not found")
        n_fmt += 1

        def src(e: ast.AST) -> Tuple[int, str]:
            sign = 1
            while isinstance(e, ast.UnaryOp) and isinstance(e.op, ast.USub):
                sign = -sign
                e = e.operand
            if isinstance(e, ast.BinOp) and isinstance(e.op, ast.Mult) and norm(e.right) == "-1":
                sign, e = -sign, e.left
            if isinstance(e, ast.Call) and norm(e.func) == "_parse_string_as_float" and e.args:
                e = e.args[0]
            return sign, norm(e)
        got = {k: src(v) for k, v in apps.items()}
        ctx.instance("R6.4", f"{fmt}: sources {got}")
        if fmt in ("mpt", "p00"):
            want = {"freq": (1, "columns[0]"), "real": (1, "columns[1]"), "imag": (IMAG_SIGN[fmt], "columns[2]")}
        elif fmt == "dfr":
            want = {"freq": (1, "lines.pop(0)"), "real": (1, "lines.pop(0)"), "imag": (IMAG_SIGN[fmt], "lines.pop(0)")}
        elif fmt == "i2b":
            want = {"freq": (1, "f"), "real": (1, "re"), "imag": (IMAG_SIGN[fmt], "im")}
        else:
            want = {"freq": (1, "values[2]"), "real": (1, "values[3]"), "imag": (IMAG_SIGN[fmt], "values[4]")}
        ok = got == want
        if fmt == "dfr":
            order = [norm(c.func.value) for c in calls_in(fi.node) if isinstance(c.func, ast.Attribute) and c.func.attr == "append" and norm(c.func.value) in ("freq", "real", "imag")]
            ok = ok and order == ["freq", "real", "imag"]
        if fmt == "i2b":
            ok = ok and "f, re, im = tuple(map(_parse_string_as_float, line.split(' ')))" in norm(fi.node)
        if ok:
            ctx.ok()
        else:
            ctx.violation("R6.4", f"{fmt}:columns", fi.module, apps["imag"],
                          f"parse_{fmt}: frequency, real and imaginary must come from the layout's columns in that order with the imaginary sign {IMAG_SIGN[fmt]:+d} (found {got})")
    hp = model.fi(f"{FMT}.helpers", "_parse_string_as_float")
    ctx.instance("R6.4", "_parse_string_as_float accepts a decimal comma")
    t = norm(hp.node)
    if "return float(string)" in t and "return float(string.replace(',', '.'))" in t and "except ValueError" in t:
        ctx.ok()
    else:
        ctx.violation("R6.4", "helpers:_parse_string_as_float", f"{FMT}.helpers", hp.node, "_parse_string_as_float must fall back to the decimal comma")

    # ---------------- R6.2 ---------------------------------------------------------
    ed = model.fi(DS, "_extract_data")
    extract_interpreted = True
    try:
        eprobs, en = _interp_extract(ctx, model)
    except AnalysisError as e:
        extract_interpreted = False
        ctx.note(f"_extract_data not interpretable ({e}); decided from its shape instead")
    if extract_interpreted:
        ctx.instance("R6.2", f"_extract_data interpreted on {en} tables (column sets and orders × negated-column subsets × numbers/decimal-comma text × degrees)")
        if eprobs:
            ctx.violation("R6.2", "_extract_data:semantics", DS, ed.node, "_extract_data: " + eprobs[0])
        else:
            ctx.ok()
    if not extract_interpreted:
        lists = {"frequency": "frequency", "real": "real", "imaginary": "imaginary", "magnitude": "magnitude", "phase": "phase"}
        negated = {"real": True, "imaginary": True, "phase": True, "magnitude": False, "frequency": False}
        for key, lst in lists.items():
            reads = [n for n in walk_ordered(ed.node) if isinstance(n, (ast.Assign, ast.AnnAssign)) and n.value is not None and norm(n.value) == f"row[column_indices['{key}']]"]
            ctx.instance("R6.2", f"{key}: read, converted, negated={negated[key]}, appended to {lst}")
            if len(reads) != 1:
                ctx.violation("R6.2", f"_extract_data:{key}:read", DS, ed.node, f"_extract_data must read {key} from row[column_indices['{key}']] exactly once (found {len(reads)})")
                continue
            v = norm(reads[0].targets[0] if isinstance(reads[0], ast.Assign) else reads[0].target)
            conv = [n for n in walk_ordered(ed.node) if isinstance(n, ast.Assign) and norm(n.targets[0]) == v and norm(n.value) == f"float(row[column_indices['{key}']].replace(',', '.'))"
                    and isinstance(parent(n), ast.If) and norm(parent(n).test) == f"type({v}) is str"]
            negs = [n for n in walk_ordered(ed.node) if isinstance(n, ast.AugAssign) and norm(n.target) == v and isinstance(n.op, ast.Mult) and norm(n.value) == "-1"]
            neg_ok = (len(negs) == 1 and isinstance(parent(negs[0]), ast.If) and norm(parent(negs[0]).test) == f"negative_columns['{key}']") if negated[key] else (len(negs) == 0)
            app = [c for c in calls_in(ed.node) if norm(c.func) == f"{lst}.append" and c.args and norm(c.args[0]) == v]
            order_ok = False
            if conv and app and neg_ok:
                seq = [id(x) for x in walk_ordered(ed.node)]
                pos = lambda n: seq.index(id(n))
                order_ok = pos(reads[0]) < pos(conv[0]) < pos(stmt_of(app[0])) and (not negs or pos(conv[0]) < pos(negs[0]) < pos(stmt_of(app[0])))
                # same block (branch) for read and append
                order_ok = order_ok and enclosing(reads[0], (ast.If, ast.For)) is enclosing(stmt_of(app[0]), (ast.If, ast.For))
            if len(conv) == 1 and len(app) == 1 and neg_ok and order_ok:
                ctx.ok()
            else:
                ctx.violation("R6.2", f"_extract_data:{key}", DS, reads[0],
                              f"_extract_data: {key} must be read from its column, converted with the decimal-comma rule, {'negated under its own marker, ' if negated[key] else ''}and appended to {lst} "
                              f"(conversion {len(conv)}, negation ok {neg_ok}, append {len(app)}, order {order_ok})")
        ctx.instance("R6.2", "precedence and polar conversion")
        t = norm(ed.node)
        br = [n for n in walk_ordered(ed.node) if isinstance(n, ast.If) and norm(n.test) == "'real' in column_indices and 'imaginary' in column_indices"]
        good = len(br) == 1 and len(br[0].orelse) == 1 and isinstance(br[0].orelse[0], ast.If) and norm(br[0].orelse[0].test) == "'magnitude' in column_indices and 'phase' in column_indices"
        good = good and "phase = deg_to_rad(phase)" in t and "Z: complex = cmath.rect(mag, phi)" in t and "for mag, phi in zip(magnitude, phase)" in t \
            and "real.append(Z.real)" in t and "imaginary.append(Z.imag)" in t and "return (frequency, real, imaginary)" in t
        dg = [n for n in walk_ordered(ed.node) if isinstance(n, ast.If) and norm(n.test) == "degrees"]
        good = good and len(dg) == 1 and norm(dg[0].body[0]) == "phase = deg_to_rad(phase)" and not dg[0].orelse
        if good:
            ctx.ok()
        else:
            ctx.violation("R6.2", "_extract_data:polar", DS, ed.node, "Re/Im columns take precedence; otherwise Z = rect(|Z|, phase) with the phase converted from degrees when `degrees` is set")
    dfn = model.fi(DS, "dataframe_to_data_sets")
    t = norm(dfn.node)
    ctx.instance("R6.2", "dataframe_to_data_sets chains detect → extract → split with the same tables")
    chain = "column_indices, negative_columns = _detect_columns(df)" in t.replace("(column_indices, negative_columns)", "column_indices, negative_columns") \
        and re.search(r"_extract_data\(\s*df,\s*column_indices,\s*negative_columns,\s*path,\s*degrees,?\s*\)", t.replace("\n", " ")) is not None \
        and re.search(r"_split_sweeps\(\s*frequency,\s*real,\s*imaginary,", t.replace("\n", " ")) is not None
    if chain:
        ctx.ok()
    else:
        ctx.violation("R6.2", "dataframe_to_data_sets:chain", DS, dfn.node, "dataframe_to_data_sets must pass the detected tables to _extract_data and its (frequency, real, imaginary) to _split_sweeps in that order")

    # ---------------- R6.3 ---------------------------------------------------------
    ss = model.fi(DS, "_split_sweeps")
    # what the caller guarantees: len(frequency) == len(real) == len(imaginary) > 0
    guaranteed = 1 if "len(frequency) == len(real) == len(imaginary) > 0" in norm(ed.node) else 0
    n_idx = 0
    for sub in [n for n in walk_ordered(ss.node) if isinstance(n, ast.Subscript) and isinstance(n.value, ast.Name) and n.value.id in ("frequency", "real", "imaginary")
                and isinstance(n.slice, ast.Constant) and isinstance(n.slice.value, int)]:
        k = sub.slice.value
        need = k + 1 if k >= 0 else -k
        n_idx += 1
        ctx.instance("R6.3", f"_split_sweeps: {norm(sub)} needs length ≥ {need} (guaranteed ≥ {guaranteed})")
        guarded = False
        for cnd, pol in dominating_conditions(sub):
            tx = norm(cnd)
            m = re.match(r"len\((\w+)\) (>|>=) (\d+)", tx)
            if m and pol and m.group(1) == sub.value.id and (int(m.group(3)) + (1 if m.group(2) == ">" else 0)) >= need:
                guarded = True
        # short-circuit guard in the same expression: len(x) > k and x[...]
        p = parent(sub)
        while p is not None and not isinstance(p, ast.stmt):
            if isinstance(p, ast.BoolOp) and isinstance(p.op, ast.And):
                for v in p.values:
                    if any(x is sub for x in ast.walk(v)):
                        break
                    m = re.match(r"len\((\w+)\) (>|>=) (\d+)", norm(v))
                    if m and m.group(1) == sub.value.id and (int(m.group(3)) + (1 if m.group(2) == ">" else 0)) >= need:
                        guarded = True
            if isinstance(p, ast.IfExp):
                m = re.match(r"len\((\w+)\) (>|>=) (\d+)", norm(p.test))
                if m and m.group(1) == sub.value.id and (int(m.group(3)) + (1 if m.group(2) == ">" else 0)) >= need and any(x is sub for x in ast.walk(p.body)):
                    guarded = True
            p = parent(p)
        if need <= guaranteed or guarded:
            ctx.ok()
        else:
            ctx.violation("R6.3", f"_split_sweeps:index:{norm(sub)}", DS, sub,
                          f"_split_sweeps reads {norm(sub)} although its caller only guarantees {guaranteed} point(s): a table with a single row raises IndexError instead of giving a one-point spectrum")
    if n_idx < 1:
        raise AnalysisError("R6.3: no constant index on the input lists found in _split_sweeps")
    # exhaustive interpretation over the order domain: _split_sweeps touches the frequencies only through comparisons, so its
    # behaviour on n points is determined by their ordering; all orderings of 1..6 distinct values are enumerated
    from itertools import permutations
    from ..miniinterp import InterpRaise, Mini

    def spec(p):
        if len(p) == 1:
            return [list(p)]
        desc = p[0] > p[1]
        runs, cur = [], [p[0]]
        for a_, b_ in zip(p, p[1:]):
            if (a_ > b_) == desc:
                cur.append(b_)
            else:
                runs.append(cur)
                cur = [b_]
        runs.append(cur)
        return runs
    from ..miniinterp import module_globals as _mg
    stubs = _mg(ctx.repo.modules[DS].tree, {"array": lambda x, *a, **k: list(x), "DataSet": lambda f, Z, **k: ("DataSet", list(f), list(Z)), "complex": lambda re_, im_=0: (re_, im_)})
    n_worlds = 0
    witness = None
    nmax = 7 if ctx.tier == "thorough" else 6
    for n in range(1, nmax + 1):
        for p in permutations(range(n)):
            n_worlds += 1
            fr = [float(10 ** x) for x in p]
            re_ = [("re", i) for i in range(n)]
            im_ = [("im", i) for i in range(n)]
            try:
                out = Mini(stubs).call_function(ss.node, {"frequency": list(fr), "real": list(re_), "imaginary": list(im_), "path": "p", "label": "l"})
                got = [(d[1], d[2]) for d in out]
            except InterpRaise as e:
                got = e.kind
            want, k = [], 0
            for run in spec(p):
                want.append(([float(10 ** x) for x in run], [(("re", k + j), ("im", k + j)) for j in range(len(run))]))
                k += len(run)
            if got != want and witness is None:
                same_f = not isinstance(got, str) and [g[0] for g in got] == [w[0] for w in want]
                witness = (p, got if isinstance(got, str) else ([g[1] for g in got] if same_f else [g[0] for g in got]), [w[1] for w in want] if same_f else [w[0] for w in want])
    ctx.instance("R6.3", f"_split_sweeps interpreted on all {n_worlds} orderings of 1..{nmax} points: one data set per maximal run in the direction of the first two points, values aligned")
    if witness is None:
        ctx.ok()
    else:
        p, got, want = witness
        ctx.violation("R6.3", "_split_sweeps:partition", DS, ss.node,
                      f"for frequencies ordered like {[10 ** x for x in p]} _split_sweeps gives {got} instead of one data set per sweep {want}")
    # ---------------- R6.5 ---------------------------------------------------------
    gp = model.fi(DATA, "get_parsers")
    d = [n for n in walk_ordered(gp.node) if isinstance(n, ast.Dict) and len(n.keys) >= 10]
    if len(d) != 1:
        raise AnalysisError("get_parsers: extension table not found")
    imports = {}
    for n in walk_ordered(gp.node):
        if isinstance(n, ast.ImportFrom):
            for a in n.names:
                imports[a.asname or a.name] = ((n.module or ""), a.name)
    for n in ctx.repo.modules[DATA].tree.body:
        if isinstance(n, ast.ImportFrom):
            for a in n.names:
                imports[a.asname or a.name] = ((n.module or ""), a.name)
    family = {".P00": "p00", ".dfr": "dfr", ".dta": "dta", ".i2b": "i2b", ".idf": "ids", ".ids": "ids", ".mpt": "mpt", ".z": "z", ".pssession": "pssession",
              ".ods": "spreadsheet", ".xlsx": "spreadsheet", ".txt": "csv", ".csv": "csv"}
    for k, v in zip(d[0].keys, d[0].values):
        ext = k.value
        ctx.instance("R6.5", f"{ext} → {norm(v)}")
        src = imports.get(norm(v))
        if ext in family and norm(v) == f"parse_{family[ext]}" and (src is None or src[1] == f"parse_{family[ext]}"):
            ctx.ok()
        elif ext not in family:
            ctx.note(f"new extension {ext} → {norm(v)} (not in the reviewed table)")
            ctx.ok()
        else:
            ctx.violation("R6.5", f"get_parsers:{ext}", DATA, v, f"the extension {ext} selects {norm(v)} instead of parse_{family[ext]}")
    missing = [e for e in family if e not in [k.value for k in d[0].keys]]
    ctx.instance("R6.5", "all documented extensions present")
    if missing:
        ctx.violation("R6.5", "get_parsers:missing", DATA, d[0], f"extensions without a parser: {missing}")
    else:
        ctx.ok()
    pd_ = model.fi(DATA, "parse_data")
    t = norm(pd_.node)
    ctx.instance("R6.5", ".csv fallback: sep=None, decimal=','; other layouts fall back to brute force")
    if "data = func(path, sep=None, decimal=',', **kwargs)" in t and "if fmt == '.csv'" in t and "data = _brute_force(path, **kwargs)" in t and "except UnsupportedFileFormat" in t:
        ctx.ok()
    else:
        ctx.violation("R6.5", "parse_data:csv-fallback", DATA, pd_.node, "a .csv that cannot be read with the defaults must be re-read with sep=None and decimal=','")
    for mod, fn in ((f"{FMT}.csv", "parse_csv"), (f"{FMT}.z", "parse_z")):
        fi0 = model.fi(mod, fn)
        fi = fi0
        ctx.instance("R6.5", f"{fn}: one-column frames are re-read with tab, space, semicolon, comma from a list that is fresh for every call")
        has_loop = lambda f_: any(isinstance(n, ast.While) and norm(n.test) == "len(df.columns) == 1" for n in walk_ordered(f_.node))
        via = None
        if not has_loop(fi0):
            # the retry loop may live in a helper shared by the delimited-text parsers
            for c in calls_in(fi0.node):
                q_ = model.resolve_call(fi0, c)
                if q_ and q_ in model.funcs and q_ != fi0.qname and has_loop(model.funcs[q_]):
                    fi, via = model.funcs[q_], c
                    mod = fi.module
                    break
        pops = [c for c in calls_in(fi.node) if isinstance(c.func, ast.Attribute) and c.func.attr == "pop" and isinstance(parent(c), ast.Assign) and norm(parent(c).targets[0]) == "kwargs['sep']"]
        loops = [n for n in walk_ordered(fi.node) if isinstance(n, ast.While) and norm(n.test) == "len(df.columns) == 1"]
        if len(pops) != 1 or len(loops) != 1 or not any(x is pops[0] for x in ast.walk(loops[0])):
            ctx.violation("R6.5", f"{fn}:separators", mod, fi.node, f"{fn} must retry other separators while the frame has a single column")
            continue
        V = norm(pops[0].func.value)
        local = [n for n in walk_ordered(fi.node) if isinstance(n, (ast.Assign, ast.AnnAssign)) and n.value is not None and norm(n.targets[0] if isinstance(n, ast.Assign) else n.target) == V]
        modlevel = {norm(n.targets[0] if isinstance(n, ast.Assign) else n.target): n.value for n in ctx.repo.modules[mod].tree.body
                    if isinstance(n, (ast.Assign, ast.AnnAssign)) and n.value is not None}
        elems = None
        why = ""
        if len(local) == 1:
            v = local[0].value
            if isinstance(v, ast.List):
                elems = [e.value for e in v.elts if isinstance(e, ast.Constant)]
            else:
                src = None
                if isinstance(v, ast.Call) and norm(v.func) == "list" and v.args:
                    src = norm(v.args[0])
                elif isinstance(v, ast.Call) and isinstance(v.func, ast.Attribute) and v.func.attr == "copy":
                    src = norm(v.func.value)
                elif isinstance(v, ast.Subscript) and norm(v.slice) == ":":
                    src = norm(v.value)
                if src in modlevel and isinstance(modlevel[src], (ast.List, ast.Tuple)):
                    elems = [e.value for e in modlevel[src].elts if isinstance(e, ast.Constant)]
                else:
                    why = f"{V} is bound from {norm(v)[:60]}, not from a fresh list"
        elif not local and V in modlevel:
            why = f"{V} is a module-level list that {fn} consumes with pop(): after a few files in one process it is empty and the next file fails"
        else:
            why = f"{V} has {len(local)} bindings"
        if elems is not None and set(elems) >= {"\t", " ", ";", ","} and norm(pops[0].args[0]) == "0" if pops[0].args else False:
            ctx.ok()
        else:
            ctx.violation("R6.5", f"{fn}:separators", mod, pops[0], f"{fn}: the fallback separators must be tab, space, semicolon and comma taken from a list created for this call ({why or elems})")
        rets = [n for n in walk_ordered(fi0.node) if isinstance(n, ast.Return)]
        handed = len(rets) == 1 and norm(rets[0].value) == "dataframe_to_data_sets(df, path=path)"
        if via is not None:
            # df = helper(df, …) and the helper returns the frame it re-read
            st_ = parent(via)
            handed = handed and isinstance(st_, (ast.Assign, ast.AnnAssign)) and norm(st_.targets[0] if isinstance(st_, ast.Assign) else st_.target) == "df" \
                and any(norm(a) == "df" for a in via.args) and any(norm(a) == "kwargs" for a in list(via.args) + [k.value for k in via.keywords]) \
                and [norm(r.value) for r in walk_ordered(fi.node) if isinstance(r, ast.Return)] == ["df"]
        if not handed:
            ctx.violation("R6.5", f"{fn}:handover", fi0.module, fi0.node, f"{fn} must hand the frame it read to dataframe_to_data_sets")
    from ..effects import stateless_rule
    fmods = tuple(sorted(m for m in ctx.repo.modules if m.startswith(FMT + ".") and m.split(".")[-1] in ("csv", "mpt", "p00", "dfr", "i2b", "dta", "z", "helpers")))
    stateless_rule(ctx, model, "R6.5", fmods + (DATA,), 10, "parsing one file changes what the next file in the same process is parsed with")
    ctx.sample({"aliases": n_alias, "documented": n_doc, "formats": n_fmt})
